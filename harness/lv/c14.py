"""C14 — analysis output is a deterministic function of the input.

MONITOR (the failing-input detector; needs no oracle): every project is analysed by the real lian
(`$LIAN_REPO/src/lian/main.py`, modules from `$LIAN_REPO/src`) in SEPARATE processes under several
PYTHONHASHSEEDs, twice in a row into the same workspace, from a second workspace location with a
longer path, and after an unrelated project was analysed into a sibling workspace.  All files under
frontend/ semantic_p1/ semantic_p2/ semantic_p3/ taint/ are compared with the base run (seed 0):
byte-wise first (workspace prefix replaced by a placeholder); on a byte difference cell-wise after
reading the feather file with pandas.  Any content difference is a failing input.

LEAN TIE: some runs go through `c14_child.py`, which records the set-valued inputs of the
hash-order-dependent sites in the iteration order that interpreter really produced, and what the real
code made of them.  The Lean model `determinism` (LianVerif/Model/Determinism.lean — the definitions the
permutation-invariance theorems of Properties/C14.lean are about) is evaluated on the same inputs in the
same orders and must reproduce the real outputs of every seed.
"""
import concurrent.futures as cf
import hashlib, itertools, json, os, random, re, shutil, subprocess, sys, time

import common
from common import drv_batch, drv_ok

PY = "/venv/bin/python"
OBS_DIRS = ["frontend", "semantic_p1", "semantic_p2", "semantic_p3", "taint"]
HERE = os.path.dirname(os.path.abspath(__file__))
CHILD = os.path.join(HERE, "c14_child.py")
WSNAME = "lian_workspace"
NCPU = max(2, min(16, os.cpu_count() or 4))


# =====================================================================================================
# projects
# =====================================================================================================

def _names(rng, n, pool=None):
    pool = pool or ["alpha", "beta", "gamma", "delta", "eps", "zeta", "eta", "theta", "iota", "kappa",
                    "lam", "mu", "nu", "xi", "omi", "pi", "rho", "sigma", "tau", "ups", "phi", "chi",
                    "psi", "omega", "key", "val", "idx", "cnt", "buf", "tmp", "res", "acc"]
    return rng.sample(pool, n)


def gen_defaults(rng, nfun=4):
    """functions with several defaulted parameters; calls that leave >=2 of them to their defaults;
    keyword arguments; keyword arguments holding several states; *args / **kwargs."""
    L = []
    funs = []
    for i in range(nfun):
        k = rng.randint(3, 6)
        ps = _names(rng, k)
        req = ps[:1]
        dfl = ps[1:]
        sig = ", ".join(req + [f"{p}={rng.randint(1, 9)}" for p in dfl])
        extra = rng.choice(["", "", ", *rest", ", **opts", ", *rest, **opts"])
        L.append(f"def fn{i}({sig}{extra}):")
        L.append(f"    total = {' + '.join(req + dfl)}")
        L.append("    return total")
        L.append("")
        funs.append((f"fn{i}", req, dfl, extra))
    L.append("class Box:")
    L.append("    def __init__(self, v):")
    L.append("        self.v = v")
    L.append("")
    L.append("def pick(c):")
    L.append("    if c:")
    L.append("        r = Box(1)")
    L.append("    else:")
    L.append("        r = Box(2)")
    L.append("    return r")
    L.append("")
    L.append("def driver(c, d):")
    n = 0
    for name, req, dfl, extra in funs:
        # leave all defaults
        L.append(f"    r{n} = {name}(c)"); n += 1
        # give the first default positionally, one by keyword
        if len(dfl) >= 2:
            kw = rng.choice(dfl[1:])
            L.append(f"    r{n} = {name}(c, d, {kw}=d)"); n += 1
        # keyword argument with two possible states
        kw = rng.choice(dfl)
        L.append("    if c:")
        L.append(f"        m{n} = Box(d)")
        L.append("    else:")
        L.append(f"        m{n} = pick(d)")
        L.append(f"    r{n} = {name}(c, {kw}=m{n})"); n += 1
        if "**opts" in extra:
            L.append(f"    r{n} = {name}(c, zz=d, yy=c)"); n += 1
        if "*rest" in extra:
            many = ", ".join(["d"] * (len(dfl) + 2))
            L.append(f"    r{n} = {name}(c, {many})"); n += 1
    L.append("    return r0")
    L.append("")
    L.append("def main():")
    L.append("    x = driver(1, 2)")
    L.append("    y = driver(0, 3)")
    L.append("    print(x, y)")
    L.append("")
    L.append("main()")
    return {"kind": "defaults", "lang": "python", "files": {"proj/defs.py": "\n".join(L) + "\n"},
            "settings": dict(SMALL_SETTINGS), "cmd": "semantic", "quiet": True}


def gen_classes(rng, ncls=4):
    """classes, inheritance (also multiple), overriding, fields, calls through objects."""
    L = []
    names = [f"K{i}" for i in range(ncls)]
    meths = _names(rng, 5, ["run", "stop", "load", "save", "step", "emit", "poll", "scan", "fold", "join"])
    for i, c in enumerate(names):
        bases = []
        if i > 0:
            bases = rng.sample(names[:i], rng.randint(1, min(2, i)))
        L.append(f"class {c}({', '.join(bases)}):" if bases else f"class {c}:")
        L.append(f"    tag = {i}")
        L.append("    def __init__(self, v=0, w=1):")
        L.append("        self.v = v")
        L.append("        self.w = w")
        L.append(f"        self.f{i} = v + w")
        for m in rng.sample(meths, rng.randint(2, 4)):
            L.append(f"    def {m}(self, a, b=2, c=3):")
            L.append(f"        self.v = a + b + c + {i}")
            L.append("        return self.v")
        L.append("")
    L.append("def make(c):")
    for i, c in enumerate(names):
        L.append(f"    {'if' if i == 0 else 'elif'} c == {i}:")
        L.append(f"        o = {c}(c)")
    L.append("    else:")
    L.append(f"        o = {names[0]}()")
    L.append("    return o")
    L.append("")
    L.append("def main():")
    L.append("    o = make(1)")
    for m in meths:
        L.append(f"    t_{m} = o.{m}(1)")
    L.append(f"    p = {names[-1]}(3, w=4)")
    L.append(f"    q = p.{meths[0]}(1, c=5)")
    L.append("    print(o.v, p.w, q)")
    L.append("")
    L.append("main()")
    return {"kind": "classes", "lang": "python", "files": {"proj/kls.py": "\n".join(L) + "\n"},
            "settings": dict(SMALL_SETTINGS), "cmd": "semantic", "quiet": True}


def gen_imports(rng, nmod=4):
    """a package whose modules import each other in several syntactic forms."""
    files = {}
    mods = _names(rng, nmod, ["core", "util", "model", "view", "store", "net", "cfg", "log", "auth", "api"])
    files["proj/pkg/__init__.py"] = "from .%s import *\n" % mods[0]
    for i, m in enumerate(mods):
        L = []
        for j in range(i):
            form = rng.randint(0, 3)
            o = mods[j]
            if form == 0:
                L.append(f"from pkg.{o} import f_{o}, g_{o}")
            elif form == 1:
                L.append(f"import pkg.{o} as {o}_m")
            elif form == 2:
                L.append(f"from pkg import {o}")
            else:
                L.append(f"from .{o} import f_{o} as ff_{o}")
        L.append(f"CONST_{m} = {i}")
        L.append(f"def f_{m}(a, b=1, c=2):")
        L.append(f"    return a + b + c + CONST_{m}")
        L.append(f"def g_{m}(x, y=3, z=4):")
        if i > 0:
            L.append(f"    return f_{m}(x) + y + z")
        else:
            L.append("    return x + y + z")
        L.append(f"class C_{m}:")
        L.append("    def go(self, q, r=5, s=6):")
        L.append(f"        return f_{m}(q) + r + s")
        files[f"proj/pkg/{m}.py"] = "\n".join(L) + "\n"
    L = ["import pkg", "from pkg import " + ", ".join(mods)]
    for m in mods:
        L.append(f"from pkg.{m} import f_{m}, C_{m}")
    L.append("def main():")
    for m in mods:
        L.append(f"    a_{m} = f_{m}(1)")
        L.append(f"    o_{m} = C_{m}()")
        L.append(f"    b_{m} = o_{m}.go(2)")
        L.append(f"    c_{m} = {m}.g_{m}(3)")
    L.append("    print(a_%s)" % mods[0])
    L.append("main()")
    files["proj/app.py"] = "\n".join(L) + "\n"
    return {"kind": "imports", "lang": "python", "files": files, "settings": dict(SMALL_SETTINGS), "cmd": "semantic",
            "quiet": True}


# a small entry-point configuration: the default entry.yaml has ~30 000 lines and costs ~4 s of YAML parsing per
# process; the module initialiser plus a few method names is what the generated projects need.
SMALL_SETTINGS = {"entry.yaml": '- method_list: ["%unit_init"]\n- lang: python\n  method_list: ["main"]\n'}

TAINT_SETTINGS = {
    "entry.yaml": '- method_list: ["%unit_init"]\n- lang: python\n  method_list: ["handler", "main", "serve"]\n',
    "source.yaml": ('- lang: python\n  rules:\n    - operation: parameter_decl\n      name: tainted\n'
                    '    - operation: object_call\n      name: req.get\n      tag: ["%target"]\n'
                    '    - operation: object_call\n      name: req.read\n      tag: ["%target"]\n'),
    "sink.yaml": ('- lang: python\n  rules:\n    - operation: call_stmt\n      name: sink\n      target: [\\%arg0]\n'
                  '      vuln_type: generic_sink\n    - operation: call_stmt\n      name: os.system\n'
                  '      target: [\\%arg0]\n      vuln_type: cmdi\n    - operation: call_stmt\n      name: leak\n'
                  '      target: [\\%arg0]\n      vuln_type: leak\n'),
    "propagation.yaml": None,      # copied from $LIAN_REPO/default_settings at materialisation time
}


def gen_taint(rng, nh=3):
    """several sources, several sinks, flows through helper functions with defaulted parameters."""
    L = ["import os", ""]
    L += ["def clean(v, mode=1, strict=2):", "    return v", ""]
    L += ["def wrap(v, left=1, right=2, deep=3):", "    w = clean(v)", "    return w", ""]
    L += ["def handler(tainted, other=1):", "    a = tainted", "    b = clean(a)", "    sink(b)",
          "    os.system(a)", "    c = wrap(b, right=other)", "    leak(c)", ""]
    for i in range(nh):
        L.append(f"def serve{i}(tainted, n={i}):")
        vs = _names(rng, 3)
        L.append(f"    {vs[0]} = tainted")
        L.append(f"    {vs[1]} = wrap({vs[0]})")
        L.append(f"    {vs[2]} = {vs[1]}")
        L.append(f"    {rng.choice(['sink', 'leak', 'os.system'])}({vs[2]})")
        L.append(f"    {rng.choice(['sink', 'leak'])}({vs[0]})")
        L.append("")
    L += ["def serve():"] + [f"    serve{i}(1)" for i in range(nh)] + [""]
    L += ["def main():", "    y = req.get()", "    z = y", "    sink(z)", "    u = req.read()",
          "    v = wrap(u, deep=z)", "    leak(v)", "    os.system(u)", ""]
    return {"kind": "taint", "lang": "python", "files": {"proj/app.py": "\n".join(L) + "\n"},
            "settings": dict(TAINT_SETTINGS), "cmd": "run", "quiet": False}


GENS = {"defaults": gen_defaults, "classes": gen_classes, "imports": gen_imports, "taint": gen_taint}

# small projects of the repository's own tests directory (copied into scratch before use)
CORPUS = [
    ("python", ["tests/motivativing_examples/default_value.py"]),
    ("python", ["tests/dataflows/python/parameter_default_value.py"]),
    ("python", ["tests/type/inheritance.py"]),
    ("python", ["tests/import/python"]),
    ("python", ["tests/state_flows/classes.py", "tests/state_flows/functions.py"]),
    ("python", ["tests/dataflows/python/methods_in_class.py", "tests/dataflows/python/args.py"]),
    ("javascript", ["tests/motivativing_examples/default_value.js", "tests/motivativing_examples/class_method.js"]),
    ("javascript", ["tests/import/js"]),
    ("javascript", ["tests/dataflows/javascript/call_apply_bind.js", "tests/dataflows/javascript/closure.js"]),
    ("java", ["tests/import/java"]),
    ("java", ["tests/dataflows/java"]),
    ("python", ["tests/apply_summary_tests"]),
    ("python", ["tests/dataflows/python/taint.py", "tests/dataflows/python/test_taint.py",
                "tests/dataflows/python/taint_return_value.py"]),
]


def corpus_project(i):
    lang, rels = CORPUS[i]
    files = {}
    for rel in rels:
        src = os.path.join(common.REPO, rel)
        if os.path.isdir(src):
            base = os.path.basename(src.rstrip("/"))
            for r, _, fs in os.walk(src):
                for f in sorted(fs):
                    p = os.path.join(r, f)
                    try:
                        files[os.path.join("proj", base, os.path.relpath(p, src))] = open(p, encoding="utf-8").read()
                    except (UnicodeDecodeError, OSError):
                        pass
        elif os.path.isfile(src):
            files[os.path.join("proj", os.path.basename(src))] = open(src, encoding="utf-8").read()
    return {"kind": "corpus:" + ",".join(rels), "lang": lang, "files": files, "settings": None,
            "quiet": lang != "python" or "taint" not in rels[0]}


def materialise(proj, root):
    """write the project under root/; returns (input path, settings dir or None)"""
    if os.path.exists(root):
        shutil.rmtree(root)
    for rel, text in sorted(proj["files"].items()):       # fixed creation order
        p = os.path.join(root, rel)
        os.makedirs(os.path.dirname(p), exist_ok=True)
        with open(p, "w", encoding="utf-8") as f:
            f.write(text)
    sdir = None
    if proj.get("settings"):
        sdir = os.path.join(root, "settings")
        os.makedirs(sdir, exist_ok=True)
        for name, text in proj["settings"].items():
            if text is None:
                shutil.copy(os.path.join(common.REPO, "default_settings", name), os.path.join(sdir, name))
            else:
                with open(os.path.join(sdir, name), "w") as f:
                    f.write(text)
    return os.path.join(root, proj.get("root", "proj")), sdir


# =====================================================================================================
# running lian in a separate process
# =====================================================================================================

def lian_env(seed):
    env = dict(os.environ)
    env["PYTHONHASHSEED"] = str(seed)
    # the /venv editable install points at /repo/src; PYTHONPATH precedes it, so that the modules of
    # $LIAN_REPO are the ones imported (main.py itself only appends its parent directory to sys.path).
    env["PYTHONPATH"] = os.path.join(common.REPO, "src")
    env["LIAN_REPO"] = common.REPO
    env.pop("C14_SCANDIR", None)
    return env


def ws_arg(cwd, wsrel):
    """what is passed to -w: `abs:<rel>` stands for the same directory given as an absolute path"""
    return os.path.join(cwd, wsrel[4:]) if wsrel.startswith("abs:") else wsrel


def ws_plain(wsrel):
    return wsrel[4:] if wsrel.startswith("abs:") else wsrel


def run_lian(proj, inp, sdir, cwd, wsrel, seed, harvest=None, extra_env=None, timeout=900, main_repo=None, cmd_override=None):
    """one lian process, started in directory `cwd` with the RELATIVE workspace `wsrel`: runs of the same
    project started in different directories then embed the same (relative) workspace paths in their
    outputs, and the files can be compared byte for byte.  returns dict(rc, secs, tail)."""
    os.makedirs(cwd, exist_ok=True)
    argv = [cmd_override or proj.get("cmd", "run"), "-l", proj["lang"], "-w", ws_arg(cwd, wsrel), "-f"]
    if proj.get("quiet", True):
        argv.append("-q")
    if sdir:
        argv += ["--default-settings", sdir]
    argv.append(inp)
    if harvest:
        cmd = [PY, CHILD, harvest] + argv
    else:
        cmd = [PY, os.path.join(main_repo or common.REPO, "src", "lian", "main.py")] + argv
    env = lian_env(seed)
    if extra_env:
        env.update(extra_env)
    t = time.time()
    try:
        p = subprocess.run(cmd, env=env, capture_output=True, text=True, timeout=timeout, cwd=cwd)
        rc, out = p.returncode, (p.stdout + p.stderr)
    except subprocess.TimeoutExpired:
        rc, out = -9, "timeout"
    return {"rc": rc, "secs": round(time.time() - t, 1), "tail": out[-600:], "cmd": " ".join(cmd[1:]),
            "seed": str(seed), "crashed": ("Traceback (most recent call last)" in out)}


# =====================================================================================================
# snapshots and comparison
# =====================================================================================================

def ws_rel_root(wsrel):
    """Lian.set_workspace_dir: `lian_workspace` is appended unless that string already occurs in the path"""
    return wsrel if WSNAME in wsrel else os.path.join(wsrel, WSNAME)


def ws_root(ws):
    cwd, wsrel = ws[0], ws_plain(ws[1])
    return os.path.join(cwd, ws_rel_root(wsrel))


def ws_tokens(ws):
    """(string, placeholder) pairs that stand for 'this workspace' / 'this input location' inside output files:
    the absolute workspace path, the relative form the run was given, and the input directory (the same project
    may be analysed from a private copy).  Longest first."""
    cwd, wsrel = ws[0], ws_plain(ws[1])
    toks = [(os.path.join(cwd, ws_rel_root(wsrel)), "<WS>"), (ws_rel_root(wsrel), "<WS>")]
    if len(ws) > 2 and ws[2]:
        toks.append((ws[2], "<IN>"))
    return sorted(toks, key=lambda t: -len(t[0]))


def list_files(ws):
    root = ws_root(ws)
    out = {}
    for d in OBS_DIRS:
        for r, _, fs in os.walk(os.path.join(root, d)):
            for f in fs:
                p = os.path.join(r, f)
                out[os.path.relpath(p, root)] = p
    return out


_NAMECHAR = r"(?![A-Za-z0-9_.\-])"        # a token stands for a directory: it must end at a path-component boundary


def norm_str(s, ws):
    for t, ph in ws_tokens(ws):
        if t in s:
            s = re.sub(re.escape(t) + _NAMECHAR, lambda m: ph, s)
    return s


def norm_bytes(path, ws):
    data = open(path, "rb").read()
    for t, ph in ws_tokens(ws):
        tb = t.encode()
        if tb in data:
            data = re.sub(re.escape(tb) + _NAMECHAR.encode(), lambda m: ph.encode(), data)
    return data


def snapshot(ws):
    """{relative file: sha256 of the bytes with the workspace prefix replaced}"""
    return {rel: hashlib.sha256(norm_bytes(p, ws)).hexdigest() for rel, p in list_files(ws).items()}


def _canon(x, ws):
    import numpy as np
    if isinstance(x, np.ndarray):
        return [_canon(y, ws) for y in x.tolist()]
    if isinstance(x, (list, tuple)):
        return [_canon(y, ws) for y in x]
    if isinstance(x, dict):
        return {str(k): _canon(v, ws) for k, v in x.items()}
    if isinstance(x, np.generic):
        x = x.item()
    if isinstance(x, float) and x != x:
        return "NaN"
    if isinstance(x, str):
        return norm_str(x, ws)
    if isinstance(x, bytes):
        return x.hex()
    if x is None or isinstance(x, (int, float, bool)):
        return x
    return repr(x)


def read_table(path, ws):
    """feather file -> (columns+dtypes, list of canonical row strings); None when not a feather file"""
    import pandas as pd
    try:
        df = pd.read_feather(path)
    except Exception:
        return None
    cols = [[str(c), str(t)] for c, t in zip(df.columns, df.dtypes)]
    rows = [json.dumps([_canon(v, ws) for v in row], sort_keys=True, default=repr)
            for row in df.itertuples(index=False, name=None)]
    return cols, rows


def diff_file(pa, wa, pb, wb):
    """None when equal in content; otherwise a dict describing the first difference."""
    ta, tb = read_table(pa, wa), read_table(pb, wb)
    if ta is None or tb is None:
        a = norm_bytes(pa, wa).decode("utf-8", "replace").split("\n")
        b = norm_bytes(pb, wb).decode("utf-8", "replace").split("\n")
        for i, (x, y) in enumerate(itertools.zip_longest(a, b)):
            if x != y:
                return {"format": "text", "line": i + 1, "a": x, "b": y,
                        "row_order_only": sorted(a) == sorted(b)}
        return None
    (ca, ra), (cb, rb) = ta, tb
    if ca != cb:
        return {"format": "feather", "what": "schema", "a": ca, "b": cb}
    if ra == rb:
        return None
    d = {"format": "feather", "rows_a": len(ra), "rows_b": len(rb), "row_order_only": sorted(ra) == sorted(rb)}
    for i, (x, y) in enumerate(itertools.zip_longest(ra, rb)):
        if x != y:
            d["row"] = i
            xa, yb = (json.loads(x) if x else None), (json.loads(y) if y else None)
            if xa is not None and yb is not None:
                for (c, _), u, v in zip(ca, xa, yb):
                    if u != v:
                        d.update({"column": c, "a": u, "b": v})
                        break
            d["row_a"], d["row_b"] = xa, yb
            break
    return d


def compare_ws(wa, wb):
    """returns (content diffs, byte-only diffs, files compared)"""
    fa, fb = list_files(wa), list_files(wb)
    content, bytes_only = [], []
    for rel in sorted(set(fa) | set(fb)):
        if rel not in fa or rel not in fb:
            content.append({"file": rel, "what": "present only in " + ("a" if rel in fa else "b")})
            continue
        if norm_bytes(fa[rel], wa) == norm_bytes(fb[rel], wb):
            continue
        d = diff_file(fa[rel], wa, fb[rel], wb)
        if d is None:
            bytes_only.append(rel)
        else:
            d["file"] = rel
            content.append(d)
    return content, bytes_only, len(set(fa) | set(fb))


def gen_php(rng, nf=3):
    """PHP: functions with default parameters, and `require` of a name with several possible values."""
    L = ["<?php"]
    names = _names(rng, 6, ["uno", "dos", "tres", "alpha", "beta", "gamma", "delta", "lib", "conf", "init"])
    for i in range(nf):
        a, b, c = rng.sample(names, 3)
        L.append(f"function load{i}($c, $d = {i}, $e = {i + 1}) {{")
        L.append(f'  $n = $c ? "{a}.php" : ($c > 1 ? "{b}.php" : "{c}.php");')
        L.append("  $q = require $n;")
        # what the PHP text preprocessors look at: comment markers and namespace-like text inside strings, % and $
        L.append('  $u = "http://host/%s?a=$c" . \'/* kept */ 100%d // kept\';')
        L.append("  $m = $d%3 + $e % 2; // a real comment with % and $x")
        L.append("  /* block comment: key%size */")
        L.append("  return $q;")
        L.append("}")
    for i in range(nf):
        L.append(f"$z{i} = load{i}({i + 1});")
    return {"kind": "php", "lang": "php", "files": {"proj/main.php": "\n".join(L) + "\n"},
            "settings": dict(SMALL_SETTINGS), "cmd": "semantic", "quiet": True}


GENS["php"] = gen_php


def gen_ts(rng, nf=3):
    """TypeScript: array literals mixing several kinds of elements, functions with default parameters."""
    L = []
    elems = ['1', '"two"', 'x', 'null', '{k: 1}', '[2]', 'true', 'f0', 'undefined', '-x', 'x + 1']
    for i in range(nf):
        L.append(f"function f{i}(x: number, y: number = {i}, z: string = \"s\") {{")
        for k in range(2):
            es = rng.sample(elems, rng.randint(2, 5))
            L.append(f"    let a{k} = [{', '.join(es)}];")
        L.append("    return a0;")
        L.append("}")
    for i in range(nf):
        L.append(f"let r{i} = f{i}({i});")
    return {"kind": "ts", "lang": "typescript", "files": {"proj/main.ts": "\n".join(L) + "\n"},
            "settings": dict(SMALL_SETTINGS), "cmd": "semantic", "quiet": True}


GENS["ts"] = gen_ts


# =====================================================================================================
# path-like string constants of lian's own source: what its path tests look at
# =====================================================================================================

_PATHY = re.compile(r"^[A-Za-z0-9_.\-/]{2,40}$")
_STR_TESTS = {"startswith", "endswith", "find", "rfind", "index", "rindex", "split", "rsplit", "replace", "count",
              "removeprefix", "removesuffix", "partition", "rpartition", "strip", "lstrip", "rstrip"}
_PATHISH_EXPR = re.compile(r"path|file|dir|workspace|folder|unit|src|dst|root", re.I)
_LAYOUT_FILES = ("preparation.py", "config/config.py", "lang/lang_analysis.py", "main.py", "taint/taint_analysis.py",
                 "incremental/unit_level_incremental_checker.py", "externs/extern_system.py")


def harvest_path_constants(src_root=None):
    """ast-walk $LIAN_REPO/src/lian and collect the string constants that take part in
    (1) `in` / `not in` tests and str-method tests (startswith, endswith, find, split, replace …) whose other
        operand looks like a path (its source text mentions path/file/dir/workspace/unit/src/dst/root),
    (2) os.path.join calls in the modules that lay out the workspace,
    (3) any other os.path.join call,   (4) any other such test.
    f-strings and `config.X` attributes are resolved through the literal assignments of config/config.py.
    Returns {rank: sorted list of constants}.  Nothing is imported or executed."""
    import ast
    src_root = src_root or os.path.join(common.REPO, "src", "lian")
    cfg = {}
    try:
        for st in ast.parse(open(os.path.join(src_root, "config", "config.py"), encoding="utf-8").read()).body:
            if isinstance(st, ast.Assign) and len(st.targets) == 1 and isinstance(st.targets[0], ast.Name) \
                    and isinstance(st.value, ast.Constant) and isinstance(st.value.value, str):
                cfg[st.targets[0].id] = st.value.value
    except (OSError, SyntaxError):
        pass

    def consts(node):
        out = []
        for n in ast.walk(node):
            if isinstance(n, ast.Constant) and isinstance(n.value, str):
                out.append(n.value)
            elif isinstance(n, ast.JoinedStr):
                parts, ok = [], True
                for v in n.values:
                    if isinstance(v, ast.Constant):
                        parts.append(str(v.value))
                    elif isinstance(v, ast.FormattedValue) and isinstance(v.value, ast.Attribute) and v.value.attr in cfg:
                        parts.append(cfg[v.value.attr])
                    elif isinstance(v, ast.FormattedValue) and isinstance(v.value, ast.Name) and v.value.id in cfg:
                        parts.append(cfg[v.value.id])
                    else:
                        ok = False
                if ok:
                    out.append("".join(parts))
            elif isinstance(n, ast.Attribute) and n.attr in cfg:
                out.append(cfg[n.attr])
            elif isinstance(n, ast.Name) and n.id in cfg and n.id.isupper():
                out.append(cfg[n.id])
        return out

    ranks = {1: set(), 2: set(), 3: set(), 4: set()}
    for r, _, fs in os.walk(src_root):
        for f in sorted(fs):
            if not f.endswith(".py"):
                continue
            path = os.path.join(r, f)
            rel = os.path.relpath(path, src_root)
            try:
                tree = ast.parse(open(path, encoding="utf-8").read())
            except (OSError, SyntaxError, UnicodeDecodeError):
                continue
            for n in ast.walk(tree):
                if isinstance(n, ast.Compare) and any(isinstance(o, (ast.In, ast.NotIn)) for o in n.ops):
                    other = " ".join(ast.unparse(c) for c in n.comparators)
                    for c in consts(n.left):
                        ranks[1 if _PATHISH_EXPR.search(other) else 4].add(c)
                elif isinstance(n, ast.Call) and isinstance(n.func, ast.Attribute):
                    if n.func.attr in _STR_TESTS and n.args:
                        recv = ast.unparse(n.func.value)
                        for c in consts(n.args[0]):
                            ranks[1 if _PATHISH_EXPR.search(recv) else 4].add(c)
                    elif n.func.attr == "join" and isinstance(n.func.value, ast.Attribute) and n.func.value.attr == "path":
                        for a in n.args:
                            for c in consts(a):
                                ranks[2 if rel in _LAYOUT_FILES else 3].add(c)
    out, seen = {}, set()
    for k in (1, 2, 3, 4):
        out[k] = sorted(c for c in ranks[k] if _PATHY.match(c) and c not in seen)
        seen |= set(out[k])
    return out


def components_of(consts):
    """constants -> directory-name components, keeping the adjacency of compound constants ('a/b' -> a, b);
    '.ext' -> 'n.ext', '_suffix' -> 'n_suffix'"""
    comps = []
    for c in consts:
        for part in c.split("/"):
            if not part or part in (".", "..") or not re.match(r"^[A-Za-z0-9_.\-]+$", part):
                continue
            if part[0] in "._-":
                part = "n" + part
            if not comps or comps[-1] != part:
                comps.append(part)
    return comps


def location_variants(pc, rng, n_random):
    """workspace locations (relative to the run directory) built from the harvested constants.  One path holds
    many constants as separate components, so one lian process covers them all."""
    tested = components_of(pc[1])
    layout = components_of(pc[2])
    rest = components_of(pc[3] + pc[4])
    locs = {}
    plain = [c for c in tested if WSNAME not in c]
    if plain:
        locs["loc_tested"] = "/".join(plain + ["w"])
    if tested != plain:
        locs["loc_tested_ws"] = "/".join(tested + ["w"])            # contains `lian_workspace`: lian then uses the path as it is
    if layout:
        locs["loc_layout"] = "/".join([c for c in layout if WSNAME not in c][:16] + ["w"])
    for k in range(n_random):
        pool = [c for c in rest + layout + plain if WSNAME not in c]
        if pool:
            locs["loc_rand%d" % k] = "/".join(rng.sample(pool, min(10, len(pool))) + ["w"])
    return locs


TRICKY_LINES = [
    'slot = key%size',
    'label = "slot-%d"%slot',
    'pct = "100%s" % label',
    'msg = "%s:%s"%(key, size)',
    'ratio = size%3 + key%2',
    'note = "see os.path docs and xml.dom.minidom too"',
    'cost = "$" + str(size) + " US$ ${HOME} $1"',
    "quote = 'it''s' + \"say \\\"hi\\\"\" + '\\'q\\''",
    'tri = """a "quoted" \'word\' and a % sign"""',
    'uni = "naïve café ✓ 漢字 Ω"',
    'esc = "tab\\there\\\\n back\\\\slash"',
    'hsh = "not # a comment"  # a comment with % and $',
    'mock = "key_1_size %vv1 %unit_init %this"',
    'fmt = f"{key}%{size} {label!r:>10}"',
    'pth = "lian_workspace/externs/src/frontend" + "/" + label',
    'dot = os.path.join("a.b", "c.d")',
    'raw = r"C:\\\\dir\\\\%s.py" % key',
    'bts = b"%d bytes" % size',
    'neg = -key%-size',
    'dct = {"k%s" % key: "v$%s" % size}',
]


def dotted_import_block(rng, nchains=5):
    """overlapping dotted imports (prefix chains a.b / a.b.c / a.bc, also several on one line) and later lines that
    use the overlapping text: whatever order the rewrites a.b -> a_b are applied in must not depend on the run"""
    heads = _names(rng, nchains, ["pkg", "lib", "core", "app", "svc", "data", "net", "util", "conf", "auth", "repo", "task"])
    subs = _names(rng, nchains, ["sub", "mod", "io", "api", "db", "fmt", "log", "cfg", "rpc", "ext", "aux", "gen"])
    imports, uses = [], []
    for h, b in zip(heads, subs):
        c = rng.choice(["mod", "impl", "v2", "inner", "x"])
        chain = [f"{h}.{b}", f"{h}.{b}.{c}", f"{h}.{b}{c}", f"{h}.{b}.{c}.deep"]
        rng.shuffle(chain)
        if rng.random() < 0.5:
            imports.append("import " + ", ".join(chain[:2]))
            imports += ["import " + x for x in chain[2:]]
        else:
            imports += ["import " + x for x in chain]
        uses.append(f"    r_{h} = {h}.{b}.{c}.deep.handle({h}.{b}.run(key), {h}.{b}{c}.go(size), {h}.{b}.{c}.make())")
        uses.append(f"    t_{h} = \"{h}.{b}.{c} stays text\"  # {h}.{b}.{c}.deep in a comment")
    return imports, uses


def gen_text(rng, nfun=3):
    """python sources with the character classes lian's text preprocessors look at: `%` between identifiers and
    strings, dotted module names inside string literals after `import a.b`, `$`, quotes, escapes, non-ASCII."""
    imports, uses = dotted_import_block(rng)
    L = ["import os.path", "import xml.dom.minidom", "from os import path as p"] + imports + [""]
    for i in range(nfun):
        L.append(f"def fn{i}(key, size=3, label=\"x%s\"):")
        L.append("    slot = 0")
        L += rng.sample(uses, min(len(uses), 4)) if i else uses
        for line in rng.sample(TRICKY_LINES, rng.randint(7, 12)):
            L.append("    " + line)
        L.append("    return slot")
        L.append("")
    L.append("def main():")
    for i in range(nfun):
        L.append(f"    r{i} = fn{i}({i + 5}, size={i + 2})")
    L.append("    return r0")
    L.append("")
    L.append("main()")
    return {"kind": "text", "lang": "python", "files": {"proj/txt.py": "\n".join(L) + "\n"},
            "settings": dict(SMALL_SETTINGS), "cmd": "semantic", "quiet": True}


GENS["text"] = gen_text


def gen_names(rng, pc, nfiles=6):
    """a project whose INPUT directory, sub-directories and file names are drawn from the harvested constants
    (the contents are the `text` sources); the same project is used for every variation."""
    comps = [c for c in components_of(pc[1] + pc[2] + pc[3]) if WSNAME not in c]
    rng.shuffle(comps)
    root = comps[0] if comps else "proj"
    files = {}
    body = gen_text(rng, 2)["files"]["proj/txt.py"]
    for k in range(min(nfiles, max(1, len(comps) // 2))):
        d, f = comps[(2 * k + 1) % len(comps)], comps[(2 * k + 2) % len(comps)]
        files[f"{root}/{d}/{f}.py"] = body if k == 0 else gen_text(rng, 1)["files"]["proj/txt.py"]
    files[f"{root}/main.py"] = "import os.path\n\ndef main():\n    s = \"%s/%s\" % (\"a\", \"b\")\n    return s\n\nmain()\n"
    return {"kind": "names", "lang": "python", "files": files, "root": root,
            "settings": dict(SMALL_SETTINGS), "cmd": "semantic", "quiet": True}


def gen_nested(rng, pc, nvar=10):
    """a project that is meant to be analysed with the workspace INSIDE its own tree (`-w <project>` gives
    <project>/lian_workspace): next to where the workspace will be it has directories whose names are prefix /
    suffix variants of the workspace name and of the harvested layout constants (lian_workspace_tools, src2,
    externs_old, old_frontend …), each holding a source file."""
    base = [WSNAME] + [c for c in components_of(pc[1] + pc[2]) if re.match(r"^[A-Za-z_]+$", c) and WSNAME not in c]
    variants = [WSNAME + "_tools", WSNAME + "2", "my_" + WSNAME, WSNAME[:-1], WSNAME + ".bak"]
    pool = []
    for c in base[1:]:
        pool += [c + "2", c + "_old", "old_" + c, c + "s", c[:-1] if len(c) > 3 else c + "x"]
    rng.shuffle(pool)
    variants += pool[:nvar]
    files = {"proj/main.py": "import os.path\n\ndef main(a, b=1, c=2):\n    return os.path.join(\"%s\" % a, \"x\")\n\nmain(1)\n"}
    for k, v in enumerate(variants):
        files[f"proj/{v}/unit{k}.py"] = f"def helper{k}(x, y={k}, z={k + 1}):\n    return x%y + z\n\nhelper{k}({k})\n"
    files["proj/pkg/deep/" + WSNAME + "_notes/n.py"] = "def note(q):\n    return q\n\nnote(0)\n"
    return {"kind": "nested", "lang": "python", "files": files, "settings": dict(SMALL_SETTINGS), "cmd": "semantic",
            "quiet": True}


# =====================================================================================================
# tie to the Lean model: harvested set-valued inputs, in the orders the seeds really produced
# =====================================================================================================

def scandir_tree(calls, root):
    """rebuild the entry tree below `root` from the recorded os.scandir calls (entries in returned order)"""
    by_path = {}
    for path, ents in calls:
        by_path.setdefault(os.path.normpath(path), ents)

    def build(path):
        out = []
        for name, is_dir, is_file in by_path.get(os.path.normpath(path), []):
            if is_dir:
                out.append([name, build(os.path.join(path, name))])
            elif is_file:
                out.append([name])
        return out
    return build(root)


def tie_requests(h):
    """harvest of one process -> list of (site label, request, expected real value, description)"""
    out = []
    consts = h.get("consts") or {}
    mc = {k: consts[k] for k in ("parameter_decl", "packed_positional", "packed_named", "array_element", "field_element")
          if k in consts}
    for r in h.get("map_args", []):
        req = {"m": "determinism", "site": "map_args", "variant": "current", "consts": mc,
               "in": {k: r[k] for k in ("all_parameters", "positional_parameters", "packed_positional", "packed_named",
                                        "positional_args", "named_args", "defaults")}}
        out.append(("map_args", req, r["real"], {"call_site": r["call_site"]}))
    for r in h.get("require", []):
        out.append(("require", {"m": "determinism", "site": "require", "variant": "current", "states": r["states"]},
                    r["real"], {"stmt_id": r["stmt_id"]}))
    for r in h.get("mock_unit", []):
        out.append(("mock_unit", {"m": "determinism", "site": "mock_unit", "variant": "current",
                                  "is_extern": r["is_extern"], "unit_path": r["unit_path"]}, r["real"], {"unit": r["unit_path"]}))
    for r in h.get("original_path", []):
        out.append(("original_path", {"m": "determinism", "site": "original_path", "variant": "current", "table": r["table"],
                                      "entry": r["entry"], "real": r["real"]}, r["real_out"], {"unit": r["entry"]}))
    for r in h.get("array_types", []):
        out.append(("array_types", {"m": "determinism", "site": "array_types", "variant": "current",
                                    "element_types": r["element_types"]}, r["real"], {}))
    for r in h.get("bundle_export", []):
        # one token per item (its first row); completeness of each block is checked on the python side
        items, firsts, ok = [], {}, True
        for n, (key, toks) in enumerate(r["items"]):
            items.append([key, ["%d" % n] if toks else []])
        runs = []
        for t in r["real"]:
            n, j = t.split(".")
            if runs and runs[-1][0] == n and runs[-1][1] + 1 == int(j):
                runs[-1][1] = int(j)
            else:
                ok = ok and int(j) == 0
                runs.append([n, int(j)])
        for n, last in runs:
            ok = ok and last + 1 == len(r["items"][int(n)][1])
        real = [n for n, _ in runs] if ok else ["blocks not contiguous"]
        out.append(("bundle_export", {"m": "determinism", "site": "bundle_export", "key_kind": r["key_kind"], "items": items},
                    real, {"loader": r["loader"], "path": r["path"]}))
    for r in h.get("call_paths", []):
        out.append(("call_path_rows", {"m": "determinism", "site": "call_path_rows", "iter": r["iter"]},
                    r["real"], {}))
    m = h.get("modules")
    if m and "rows" in m:
        req = {"m": "determinism", "site": "number_modules", "start": consts.get("start_index", 100),
               "src": scandir_tree(h["scandir"], m["src_root"]), "externs": scandir_tree(h["scandir"], m["ext_root"])}
        # symbol_name of a unit is the file name without extension
        real = [[a, b, c, d] for a, b, c, d in m["rows"]]
        out.append(("number_modules", req, real, {}))
    by_mgr = {}
    for a in h.get("path_adds", []):
        by_mgr.setdefault(a["mgr"], []).append(a["path"])
    for mgr, adds in by_mgr.items():
        fin = h.get("path_final", {}).get(mgr)
        if fin is not None:
            out.append(("path_batch", {"m": "determinism", "site": "path_batch", "adds": adds}, fin, {"adds": len(adds)}))
    return out


def tie_normalise(site, model):
    if site == "number_modules":
        # the model prints the entry name; lian stores the unit name without extension
        return [[a, (os.path.splitext(b)[0] if d else b), c, d] for a, b, c, d in model]
    if site == "path_batch":
        return sorted(model)
    return model


def hypotheses(h):
    """the premises of C14_perm_param_mapping / C14_perm_bundle_export, checked on the harvested inputs"""
    bad = []
    for r in h.get("map_args", []):
        pos = [p[0] for p in r["all_parameters"]]
        if len(set(pos)) != len(pos):
            bad.append(("positions of all_parameters not pairwise distinct", r["call_site"]))
        for name, args in r["named_args"]:
            ix = [a[0] for a in args]
            if len(set(ix)) != len(ix):
                bad.append(("index_in_space not distinct within keyword argument " + name, r["call_site"]))
        ks = [d[0] for d in r["defaults"]]
        if len(set(ks)) != len(ks):
            bad.append(("parameter_symbol_ids has two entries for one symbol", r["call_site"]))
    ties = 0
    for r in h.get("bundle_export", []):
        keys = [tuple(k[:2]) if r["key_kind"] == "callsite" else tuple(k) for k, _ in r["items"]]
        if len(set(keys)) != len(keys):
            ties += 1
    return bad, ties


def set_inputs_equal_up_to_order(ha, hb):
    """do two harvests describe the same set-valued inputs (possibly in different orders)?  Returns the number
    of map_args records whose hash-ordered inputs came in a DIFFERENT order in the two processes."""
    differ = 0
    for ra, rb in zip(ha.get("map_args", []), hb.get("map_args", [])):
        if ra["all_parameters"] != rb["all_parameters"] or ra["named_args"] != rb["named_args"]:
            differ += 1
    return differ


# =====================================================================================================
# plan, execute, judge
# =====================================================================================================

LONG_WS = "a_much_longer_workspace_directory_name_for_the_c14_check/nested/deeper/w"


class Runner:
    def __init__(self, scratch):
        self.scratch = scratch
        self.nproc = 0
        self.secs = []

    def prepare(self, name, proj):
        inp, sdir = materialise(proj, os.path.join(self.scratch, "in", name))
        return {"name": name, "proj": proj, "inp": inp, "sdir": sdir}

    def job(self, P, label, seed, wsrel="w", harvest=False, pre=None, repeat=1, extra_env=None, repo=None,
            inside=False, pre_same=None, pre_partial=None):
        """inside: the project is copied to <run dir>/tree/<root> and that directory is BOTH the input and the -w
        argument (the workspace then is <project>/lian_workspace, inside the analysed tree).
        pre: another project analysed into a SIBLING workspace first.  pre_same: another project (another language)
        analysed into THE SAME workspace first.  pre_partial: the same, but only its `lang` phase, and one of the
        files it left is truncated — the state an aborted run leaves behind."""
        return {"P": P, "label": label, "seed": str(seed), "wsrel": wsrel, "harvest": harvest, "pre": pre,
                "repeat": repeat, "extra_env": extra_env, "repo": repo, "inside": inside, "pre_same": pre_same,
                "pre_partial": pre_partial, "cwd": os.path.join(self.scratch, "run", P["name"], label)}

    def execute_one(self, j):
        P = j["P"]
        res = []
        os.makedirs(j["cwd"], exist_ok=True)
        hv = os.path.join(j["cwd"], "harvest.json") if j["harvest"] else None
        env = dict(j["extra_env"] or {})
        if j["repo"]:
            env.update({"PYTHONPATH": os.path.join(j["repo"], "src"), "LIAN_REPO": j["repo"]})
        inp, wsrel = P["inp"], j["wsrel"]
        if j["inside"]:
            root = P["proj"].get("root", "proj")
            tree = os.path.join(j["cwd"], "tree", root)
            if os.path.exists(tree):
                shutil.rmtree(tree)
            shutil.copytree(P["inp"], tree)
            inp = tree
            wsrel = ("abs:" if wsrel.startswith("abs:") else "") + os.path.join("tree", root)
        if j["pre"]:
            Q = j["pre"]
            res.append(run_lian(Q["proj"], Q["inp"], Q["sdir"], j["cwd"], "sibling_ws", j["seed"], extra_env=env))
        for Q, partial in ((j["pre_same"], False), (j["pre_partial"], True)):
            if not Q:
                continue
            res.append(run_lian(Q["proj"], Q["inp"], Q["sdir"], j["cwd"], wsrel, j["seed"], extra_env=env,
                                cmd_override="lang" if partial else None, main_repo=j["repo"]))
            if partial:
                # an aborted run: nothing after the frontend, and the file being written is cut short
                root_dir = os.path.join(j["cwd"], ws_rel_root(ws_plain(wsrel)))
                for r, _, fs in sorted(os.walk(os.path.join(root_dir, "frontend"))):
                    for f in sorted(fs)[:1]:
                        fp = os.path.join(r, f)
                        data = open(fp, "rb").read()
                        with open(fp, "wb") as fh:
                            fh.write(data[:len(data) // 2])
        for _ in range(j["repeat"]):
            r = run_lian(P["proj"], inp, P["sdir"], j["cwd"], wsrel, j["seed"], harvest=hv, extra_env=env,
                         main_repo=j["repo"])
            res.append(r)
        j["res"] = res
        j["ws"] = (j["cwd"], wsrel, inp)
        j["harvest_data"] = None
        if hv and os.path.exists(hv):
            try:
                j["harvest_data"] = json.load(open(hv))
            except Exception:
                pass
        return j

    def execute(self, jobs):
        with cf.ThreadPoolExecutor(NCPU) as ex:
            done = list(ex.map(self.execute_one, jobs))
        for j in done:
            self.nproc += len(j["res"])
            self.secs += [r["secs"] for r in j["res"]]
        return done


def describe(j):
    d = {"label": j["label"], "seed": j["seed"], "wsrel": j["wsrel"], "repeat": j["repeat"],
         "workspace_argument": ("<project dir> (workspace inside the analysed tree)" if j["inside"] else
                                ("absolute path of " if j["wsrel"].startswith("abs:") else "relative path ") + ws_plain(j["wsrel"])),
         "inside": bool(j["inside"]),
         "after_unrelated_project": bool(j["pre"]),
         "after_project_in_same_workspace": (j["pre_same"]["proj"]["lang"] if j["pre_same"] else None),
         "after_aborted_run_in_same_workspace": (j["pre_partial"]["proj"]["lang"] if j["pre_partial"] else None),
         "via_harvest_wrapper": bool(j["harvest"])}
    return d


def other_lang_project(lang):
    """a tiny fixed project in another language than `lang` whose language has extern mock files: what was analysed
    in the workspace before"""
    if lang == "javascript":
        return {"kind": "pre:python", "lang": "python", "files": {"proj/old.py": "def old(a, b=1):\n    return a\n\nold(2)\n"},
                "settings": dict(SMALL_SETTINGS), "cmd": "semantic", "quiet": True}
    return {"kind": "pre:javascript", "lang": "javascript",
            "files": {"proj/old.js": "function old(a, b) {\n  var c = [a, b];\n  return c;\n}\nold(1, 2);\n",
                      "proj/lib/util.js": "function util(x) { return x + 1; }\nutil(3);\n"},
            "settings": dict(SMALL_SETTINGS), "cmd": "semantic", "quiet": True}


def job_from_desc(runner, P, label, d):
    """rebuild a job from what `describe` recorded (shrinking, replay)"""
    def Q(lang_of_pre):
        if not lang_of_pre:
            return None
        return runner.prepare("pre_%s_%d" % (label, next(_uid)),
                              other_lang_project("javascript" if lang_of_pre == "python" else "python"))
    pre = runner.prepare("sib_%s_%d" % (label, next(_uid)), gen_defaults(random.Random(0), 1)) \
        if d.get("after_unrelated_project") else None
    return runner.job(P, label, d["seed"], wsrel=d.get("wsrel", "w"), repeat=d.get("repeat", 1), pre=pre,
                      inside=d.get("inside", False), pre_same=Q(d.get("after_project_in_same_workspace")),
                      pre_partial=Q(d.get("after_aborted_run_in_same_workspace")))


def compare_jobs(base, other):
    """-> list of violation dicts (content differences between two runs of the same project)"""
    out = []
    sa = [(r["rc"], r["crashed"]) for r in base["res"][-1:]]
    sb = [(r["rc"], r["crashed"]) for r in other["res"][-1:]]
    if sa != sb:
        out.append({"file": "<process>", "what": "exit status / crash differs", "a": sa, "b": sb,
                    "tail_a": base["res"][-1]["tail"][-300:], "tail_b": other["res"][-1]["tail"][-300:]})
    content, bytes_only, n = compare_ws(base["ws"], other["ws"])
    out += content
    return out, bytes_only, n


def nontrivial(j):
    """the base run analysed something in phase 3"""
    f = os.path.join(ws_root(j["ws"]), "semantic_p3", "stmt_status_p3.bundle0")
    return os.path.exists(f) and os.path.getsize(f) > 0


def project_chunks(text):
    """top-level blocks of a python file (a block starts at a non-indented, non-blank line that follows a
    blank line or starts with def/class/@)"""
    blocks, cur = [], []
    for line in text.split("\n"):
        top = line[:1] not in (" ", "\t", "") and (line.startswith(("def ", "class ", "@")) or (cur and cur[-1] == ""))
        if top and cur:
            blocks.append(cur)
            cur = []
        cur.append(line)
    if cur:
        blocks.append(cur)
    return blocks


def shrink_project(runner, proj, fails, budget=10):
    """greedy: drop files, then top-level blocks of python files, while `fails(project)` stays true.
    `fails` costs two lian processes; candidates of one round are tried in parallel."""
    cur = json.loads(json.dumps(proj))
    rounds = 0
    while rounds < budget:
        rounds += 1
        cands = []
        if len(cur["files"]) > 1:
            for f in list(cur["files"]):
                c = json.loads(json.dumps(cur))
                del c["files"][f]
                cands.append(c)
        for f, text in cur["files"].items():
            if not f.endswith(".py"):
                continue
            blocks = project_chunks(text)
            if len(blocks) < 2:
                continue
            for i in range(len(blocks)):
                c = json.loads(json.dumps(cur))
                c["files"][f] = "\n".join("\n".join(b) for k, b in enumerate(blocks) if k != i)
                cands.append(c)
        if not cands:
            break
        hit = []
        width = max(1, NCPU // 2)
        for k in range(0, min(len(cands), 4 * width), width):          # at most 4 chunks per round
            chunk = cands[k:k + width]
            with cf.ThreadPoolExecutor(width) as ex:
                verdicts = list(ex.map(fails, chunk))
            hit = [c for c, v in zip(chunk, verdicts) if v]
            if hit:
                break
        if not hit:
            break
        cur = min(hit, key=lambda c: sum(len(t) for t in c["files"].values()))
    return cur


_uid = itertools.count()


def pair_fails(runner, proj, va, vb, file=None):
    """run the project under two variations; True when the outputs differ in content (in `file`, if given)"""
    name = "shrink%d" % next(_uid)
    P = runner.prepare(name, proj)
    ja = job_from_desc(runner, P, "a", va)
    jb = job_from_desc(runner, P, "b", vb)
    ja, jb = runner.execute_one(ja), runner.execute_one(jb)
    runner.nproc += len(ja["res"]) + len(jb["res"])
    diffs, _, _ = compare_jobs(ja, jb)
    if file:
        diffs = [d for d in diffs if d.get("file") == file]
    return bool(diffs), diffs


def load_corpus():
    d = os.path.join(common.VERIF, "corpus", "C14")
    out = []
    if os.path.isdir(d):
        for f in sorted(os.listdir(d)):
            if f.endswith(".json"):
                out.append(json.load(open(os.path.join(d, f))))
    return out


PINNED = "4980434"


def extract_pinned(scratch):
    """the lian tree at the pinned commit, from the history of $LIAN_REPO (git archive: the repository itself
    is not touched).  None when the commit is not available."""
    dst = os.path.join(scratch, "pinned")
    try:
        p = subprocess.run(["git", "-C", common.REPO, "cat-file", "-e", PINNED + "^{commit}"], capture_output=True)
        if p.returncode != 0:
            return None
        os.makedirs(dst, exist_ok=True)
        a = subprocess.Popen(["git", "-C", common.REPO, "archive", PINNED, "src", "lib", "default_settings"],
                             stdout=subprocess.PIPE)
        b = subprocess.run(["tar", "-x", "-C", dst], stdin=a.stdout, capture_output=True)
        a.wait()
        if a.returncode != 0 or b.returncode != 0:
            return None
        return dst
    except Exception:
        return None


def run(ctx):
    common.use_repo()
    proofs_ok = ctx.proofs()
    ctx.level = "exploration"
    tier = ctx.tier
    quick = tier == "quick"
    scratch = os.path.join(common.SCRATCH_ROOT, "lv-%d" % os.getpid())
    if os.path.exists(scratch):
        shutil.rmtree(scratch)
    os.makedirs(scratch)
    try:
        _run(ctx, proofs_ok, quick, scratch)
    finally:
        shutil.rmtree(scratch, ignore_errors=True)


def _run(ctx, proofs_ok, quick, scratch):
    rng = ctx.rng
    R = Runner(scratch)
    corpus = load_corpus()

    # ---------------- projects
    projects = []                                  # (name, project, role)
    for w in corpus:
        projects.append(("wit_" + w["name"], w["project"], "witness"))
    counts = ({"defaults": 2, "classes": 1, "imports": 1, "taint": 1, "php": 1, "ts": 1, "text": 1} if quick else
              {"defaults": 6, "classes": 6, "imports": 5, "taint": 5, "php": 2, "ts": 2, "text": 3})
    for kind, cnt in counts.items():
        for k in range(cnt):
            projects.append((f"gen_{kind}_{k}", GENS[kind](random.Random(rng.getrandbits(64))), "generated"))
    # path-like constants of lian's own source, harvested now: they name workspace locations and input files
    pc = harvest_path_constants()
    for k in range(1 if quick else 2):
        projects.append((f"gen_names_{k}", gen_names(random.Random(rng.getrandbits(64)), pc), "generated"))
    for k in range(1 if quick else 2):
        projects.append((f"gen_nested_{k}", gen_nested(random.Random(rng.getrandbits(64)), pc), "generated"))
    locs = location_variants(pc, random.Random(rng.getrandbits(64)), 1 if quick else 3)
    cidx = [3, 6, 9] if quick else list(range(len(CORPUS)))
    for i in cidx:
        p = corpus_project(i)
        if p["files"]:
            projects.append((f"repo_{i}", p, "repo-tests"))
    prepared = [R.prepare(n, p) for n, p, _ in projects]
    role = {n: r for n, _, r in projects}

    # ---------------- plan
    rand_seed = str(rng.randrange(3, 2 ** 32 - 1))
    seeds = ["1", "2"] if quick else ["1", "2", "12345", rand_seed]
    jobs = []
    unrelated = prepared[0]                         # a tiny project analysed into a sibling workspace first
    others = {l: R.prepare("other_" + l, other_lang_project("python" if l == "javascript" else "javascript"))
              for l in ("python", "javascript")}           # analysed into THE SAME workspace first
    full_var = set()
    located = set()
    wit_seeds = {"wit_" + w["name"]: [x for x in w.get("seeds_that_differ_on_pinned", []) if x != "0"] for w in corpus}
    wit_locs = {"wit_" + w["name"]: [x for x in w.get("locations_that_differ_on_pinned", []) if x != "w"] for w in corpus}
    for k, P in enumerate(prepared):
        r = role[P["name"]]
        hv = r != "repo-tests" or not quick
        if quick and r == "witness":
            mine = wit_seeds.get(P["name"]) or ["1"]          # the seed that exposed the defect at the pinned commit
        elif quick and r == "repo-tests":
            mine = seeds[:1]
        else:
            mine = seeds
        jobs.append(R.job(P, "s0", "0", harvest=hv))
        for n, s in enumerate(mine):
            jobs.append(R.job(P, "s" + s, s, harvest=(hv and n == 0)))
        if not quick:
            jobs.append(R.job(P, "srandom", "random"))
        other = unrelated if P is not unrelated else prepared[1]
        if (not quick and r != "repo-tests") or P["name"] == "gen_defaults_0":
            full_var.add(P["name"])
            jobs.append(R.job(P, "twice", "0", repeat=2))
            jobs.append(R.job(P, "longws", "0", wsrel=LONG_WS))
            jobs.append(R.job(P, "sibling", "0", pre=other))
        elif P["name"] == "gen_taint_0":
            jobs.append(R.job(P, "twice", "0", repeat=2))
            jobs.append(R.job(P, "sibling", "1", pre=other))
        for n, loc in enumerate(wit_locs.get(P["name"], [])):
            jobs.append(R.job(P, "witloc%d" % n, "0", wsrel=loc, harvest=True))
        # the form and place of the workspace, and what the workspace held before (round 3)
        lang = P["proj"]["lang"]
        if r != "repo-tests" and (not quick or P["name"] in ("gen_text_0", "gen_nested_0", "gen_php_0")):
            Q = others["python" if lang == "javascript" else "javascript"]
            if not quick or P["name"] != "gen_php_0":
                jobs.append(R.job(P, "absws", "0", wsrel="abs:w"))
                jobs.append(R.job(P, "inside", "0", inside=True))
            if not quick or P["name"] == "gen_nested_0":
                jobs.append(R.job(P, "inside_abs", "1", wsrel="abs:w", inside=True))
            if not quick or P["name"] != "gen_nested_0":
                jobs.append(R.job(P, "same_ws_after_" + Q["proj"]["lang"], "0", pre_same=Q))
            if not quick or P["name"] == "gen_text_0":
                jobs.append(R.job(P, "same_ws_after_abort", "0", pre_partial=Q))
        # workspace locations whose directory names are the strings lian's own path tests look for
        if P["name"].startswith(("gen_text_", "gen_names_")) and (not quick or P["name"].endswith("_0")):
            mine_locs = list(locs.items()) if P["name"].startswith("gen_text_") else \
                [(k, v) for k, v in locs.items() if k in ("loc_layout", "loc_tested_ws")]
            if quick and P["name"].startswith("gen_text_"):
                jobs.append(R.job(P, "longws", "0", wsrel=LONG_WS))
        elif not quick and r != "repo-tests":
            mine_locs = [(k, v) for k, v in locs.items() if k in ("loc_layout", "loc_tested_ws", "loc_rand0")]
        else:
            mine_locs = []
        for label, wsrel in mine_locs:
            located.add(P["name"])
            jobs.append(R.job(P, label, "0", wsrel=wsrel))
    # SameUnitOrder experiment: one run with the directory listing reversed (simulated other file system)
    multi = [P for P in prepared if len(P["proj"]["files"]) >= 3]
    scan_jobs = [R.job(P, "revscan", "0", harvest=True, extra_env={"C14_SCANDIR": "reverse"}) for P in multi[:1]]
    # pinned replay of the witnesses: the frozen models against the pinned code
    pinned_root = extract_pinned(scratch)
    pinned_jobs = []
    if pinned_root:
        for w, P in zip(corpus, prepared[:len(corpus)]):
            for s in w.get("seeds_that_differ_on_pinned", []):
                pinned_jobs.append(R.job(P, "pinned_s" + s, s, harvest=True, repo=pinned_root))
            for n, loc in enumerate(w.get("locations_that_differ_on_pinned", [])):
                pinned_jobs.append(R.job(P, "pinned_loc%d" % n, "0", wsrel=loc, harvest=True, repo=pinned_root))
    t0 = time.time()
    done = R.execute(jobs + scan_jobs + pinned_jobs)
    t_exec = time.time() - t0
    jobs, scan_jobs, pinned_jobs = done[:len(jobs)], done[len(jobs):len(jobs) + len(scan_jobs)], done[len(jobs) + len(scan_jobs):]

    # a harness-side timeout is not a verdict about the property
    for j in jobs + scan_jobs + pinned_jobs:
        if any(r["rc"] == -9 for r in j["res"]):
            raise RuntimeError("lian process timed out (machine overloaded?): " + j["P"]["name"] + " " + j["label"])

    # a witness or generated project whose base run produced no GIR says nothing (e.g. a scratch path that lian
    # refuses): that is a harness problem, not a verdict
    for j in jobs:
        if j["label"] == "s0" and role[j["P"]["name"]] != "repo-tests" and \
                not os.path.exists(os.path.join(ws_root(j["ws"]), "frontend", "gir.bundle0")):
            raise RuntimeError("base run produced no GIR: " + j["P"]["name"] + " | " + j["res"][-1]["tail"][-300:])

    # ---------------- monitor
    by = {}
    for j in jobs:
        by.setdefault(j["P"]["name"], []).append(j)
    failures = []                                   # (P, base job, other job, diffs)
    n_cmp = n_files = n_bytes_only = n_nontrivial = 0
    bytes_only_files = {}
    crashes = []
    for name, js in by.items():
        base = js[0]
        for r in base["res"]:
            if r["rc"] != 0 or r["crashed"]:
                crashes.append({"project": name, "rc": r["rc"], "tail": r["tail"][-200:]})
        nt = nontrivial(base)
        for o in js[1:]:
            diffs, bo, n = compare_jobs(base, o)
            n_cmp += 1
            n_files += n
            if nt:
                n_nontrivial += 1
            for f in bo:
                bytes_only_files[f] = bytes_only_files.get(f, 0) + 1
                n_bytes_only += 1
            # files whose bytes differ although the cells agree are only acceptable when the two runs
            # embed different workspace paths
            if bo and o["ws"][1] == base["ws"][1] and not o["ws"][1].startswith("abs:") and o["ws"][2] == base["ws"][2]:
                diffs = diffs + [{"file": f, "what": "bytes differ although every cell is equal and the embedded "
                                                     "workspace paths are the same"} for f in bo]
            if diffs and diffs[0].get("file") == "<process>" and not o["pre"] and o["seed"] != "random":
                # exit status / crash differs: confirm once before blaming the property (resource hiccups)
                again, d2 = pair_fails(R, o["P"]["proj"], describe(base), describe(o))
                if not any(x.get("file") == "<process>" for x in d2):
                    diffs = [x for x in diffs if x.get("file") != "<process>"] if again else []
            if diffs:
                failures.append((o["P"], base, o, diffs))

    # ---------------- tie
    tie = {"compared": 0, "differences": 0, "per_site": {}, "orders_that_differed_between_seeds": 0,
           "hypothesis_violations": [], "bundle_exports_with_key_ties": 0}
    reqs, meta = [], []
    for j in jobs + scan_jobs:
        h = j["harvest_data"]
        if not h:
            continue
        for site, req, real, info in tie_requests(h):
            reqs.append(req)
            meta.append((j, site, real, info))
        bad, ties = hypotheses(h)
        tie["bundle_exports_with_key_ties"] += ties
        for what, where in bad:
            tie["hypothesis_violations"].append({"project": j["P"]["name"], "seed": j["seed"], "what": what, "where": where})
    for name, js in by.items():
        hs = [j["harvest_data"] for j in js if j["harvest_data"]]
        if len(hs) >= 2:
            tie["orders_that_differed_between_seeds"] += set_inputs_equal_up_to_order(hs[0], hs[1])
            # premise of C14_perm_param_mapping: the positional-argument sets (hash: ints and "") come in the
            # same order under both seeds
            for ra, rb in zip(hs[0].get("map_args", []), hs[1].get("map_args", [])):
                if ra["call_site"] == rb["call_site"] and ra["positional_args"] != rb["positional_args"] and \
                        [sorted(x) for x in ra["positional_args"]] == [sorted(x) for x in rb["positional_args"]]:
                    tie["hypothesis_violations"].append({"project": name, "what": "a positional-argument set was iterated in "
                                                         "different orders under two hash seeds", "where": ra["call_site"]})
    corr_breaks = []
    if reqs:
        replies = drv_batch(reqs)
        for (j, site, real, info), req, rep in zip(meta, reqs, replies):
            tie["compared"] += 1
            tie["per_site"][site] = tie["per_site"].get(site, 0) + 1
            model = tie_normalise(site, rep["ok"]) if "ok" in rep else {"driver_error": rep.get("err")}
            if model != real:
                tie["differences"] += 1
                if len(corr_breaks) < 5:
                    corr_breaks.append({"model": "LianVerif.Determinism / site " + site, "project": j["P"]["name"],
                                        "seed": j["seed"], "where": info, "request": req, "real": real, "model_out": model})
    # the SameUnitOrder experiment (informational): ids follow the scan order
    scan_info = []
    for j in scan_jobs:
        base = by[j["P"]["name"]][0]
        diffs, _, _ = compare_jobs(base, j)
        scan_info.append({"project": j["P"]["name"], "files_that_differ_when_scandir_is_reversed": sorted({d["file"] for d in diffs})[:8]})

    # ---------------- pinned replay (frozen models vs pinned code)
    pinned_info = {"available": bool(pinned_root), "witnesses": []}
    frozen_breaks = []
    if pinned_root:
        preqs, pmeta = [], []
        byw = {}
        for j in pinned_jobs:
            byw.setdefault(j["P"]["name"], []).append(j)
            h = j["harvest_data"] or {}
            consts = h.get("consts") or {}
            mc = {k: consts[k] for k in ("parameter_decl", "packed_positional", "packed_named", "array_element", "field_element") if k in consts}
            for r in h.get("map_args", []):
                preqs.append({"m": "determinism", "site": "map_args", "variant": "pinned", "consts": mc,
                              "in": {k: r[k] for k in ("all_parameters", "positional_parameters", "packed_positional",
                                                       "packed_named", "positional_args", "named_args", "defaults")}})
                pmeta.append((j, "map_args", r["real"]))
            for r in h.get("require", []):
                preqs.append({"m": "determinism", "site": "require", "variant": "pinned", "value_set_iter": r["value_set_iter"]})
                pmeta.append((j, "require", r["real"]))
            for r in h.get("array_types", []):
                preqs.append({"m": "determinism", "site": "array_types", "variant": "pinned", "type_set_iter": r["type_set_iter"]})
                pmeta.append((j, "array_types", r["real"]))
            for r in h.get("original_path", []):
                preqs.append({"m": "determinism", "site": "original_path", "variant": "pinned", "table": r["table"], "entry": r["entry"]})
                pmeta.append((j, "original_path", r["real_out"]))
            for r in h.get("mock_unit", []):
                preqs.append({"m": "determinism", "site": "mock_unit", "variant": "pinned", "unit_path": r["unit_path"],
                              "marker": consts.get("mock_marker", "lian_workspace/externs")})
                pmeta.append((j, "mock_unit", r["real"]))
        if preqs:
            for (j, site, real), req, rep in zip(pmeta, preqs, drv_batch(preqs)):
                if rep.get("ok") != real:
                    frozen_breaks.append({"model": "frozen " + site, "project": j["P"]["name"], "seed": j["seed"],
                                          "request": req, "real_pinned": real, "model_out": rep})
        for w, P in zip(corpus, prepared[:len(corpus)]):
            js = byw.get(P["name"], [])
            if len(js) >= 2:
                diffs, _, _ = compare_jobs(js[0], js[1])
                pinned_info["witnesses"].append({"name": w["name"], "seeds": [js[0]["seed"], js[1]["seed"]],
                                                 "workspaces": [js[0]["wsrel"], js[1]["wsrel"]],
                                                 "differs_on_pinned_code": bool(diffs),
                                                 "files": sorted({d["file"] for d in diffs})})
        pinned_info["frozen_model_records_compared"] = len(preqs)
        pinned_info["frozen_model_differences"] = len(frozen_breaks)

    # ---------------- evidence
    ctx.cov["evaluations"] = R.nproc
    ctx.cov["distinct_nontrivial"] = n_nontrivial
    ctx.cov["rule"] = (
        f"{len(prepared)} projects ({sum(1 for r in role.values() if r == 'witness')} corpus witnesses, "
        f"{sum(1 for r in role.values() if r == 'generated')} generated from VERIF_SEED: defaults/keyword args, classes/inheritance, "
        f"imports across files, taint flows with a custom settings dir, PHP require, TypeScript array literals, preprocessor-relevant text, harvested file names, a tree with look-alike sibling directories; "
        f"{sum(1 for r in role.values() if r == 'repo-tests')} from $LIAN_REPO/tests in python/javascript/java), each analysed by lian in separate "
        f"processes: base PYTHONHASHSEED=0, then seeds {seeds}{' (witnesses: the seed that exposed the defect at the pinned commit; repo tests: the first only)' if quick else ' and PYTHONHASHSEED=random'}; "
        f"for {len(full_var)} projects also twice in a row into one workspace, from a workspace with a longer path, and after an unrelated project "
        "was analysed into a sibling workspace (quick: the taint project also twice in a row and after an unrelated project); "
        f"for {len(located)} projects also from workspace locations whose directory names are path-like string constants harvested by an "
        "ast walk of $LIAN_REPO/src/lian (operands of in/startswith/endswith/find/split/replace tests and of os.path.join; one location "
        "holds many constants as components). The `text` and `names` projects contain % formatting between identifiers and strings, "
        "dotted module names inside string literals after `import a.b`, overlapping dotted imports (a.b / a.b.c / a.bc), $, quotes, "
        "escapes, non-ASCII text, and input directory/file names drawn from the same constants. Round 3: the text, nested and php "
        "projects (thorough: every non-repo project) are also analysed with -w given as an absolute path, with the workspace INSIDE "
        "the analysed tree (-w <project>; the nested project has sibling directories whose names are prefix/suffix variants of "
        "lian_workspace and of the harvested constants), after a project of ANOTHER LANGUAGE was analysed into the SAME workspace, "
        "and after an aborted run (frontend only, one file truncated) in the same workspace. "
        "Every other run is compared with the base run over all files under frontend/ semantic_p1/ semantic_p2/ semantic_p3/ taint/ "
        "(bytes first; cell-wise via pandas on a byte difference). evaluations = lian processes started; a comparison counts as "
        "non-trivial (distinct_nontrivial) when it is a distinct (project, variation) pair whose base run produced a non-empty "
        "semantic_p3/stmt_status_p3.bundle0.")
    ctx.cov["exhaustive"] = False
    ctx.cov["comparisons"] = {"run_pairs": n_cmp, "files_compared": n_files, "files_equal_in_content_but_not_in_bytes": n_bytes_only,
                              "bytes_only_files": bytes_only_files, "content_differences": sum(len(f[3]) for f in failures)}
    ctx.cov["crashes_in_base_runs"] = crashes[:5]
    ctx.cov["correspondence"] = tie
    ctx.cov["same_unit_order_experiment"] = scan_info
    ctx.cov["pinned_replay"] = pinned_info
    ctx.cov["process_seconds"] = {"n": len(R.secs), "max": max(R.secs or [0]), "mean": round(sum(R.secs) / max(1, len(R.secs)), 1),
                                  "wall_of_parallel_phase": round(t_exec, 1)}
    ctx.cov["path_constants"] = {"harvested": {str(k): len(v) for k, v in pc.items()},
                                 "tested_against_path_like_operands": pc[1], "workspace_locations": locs}
    ctx.cov["uncovered"] = [site for site in ("map_args", "require", "array_types", "mock_unit", "original_path", "bundle_export", "call_path_rows",
                                              "number_modules", "path_batch") if not tie["per_site"].get(site)]
    fp = {}
    for rel in ("core/stmt_states.py", "util/loader.py", "preparation.py", "lang/typescript_parser.py", "common_structs.py",
                "core/global_semantics.py"):
        try:
            fp[rel] = hashlib.sha256(open(os.path.join(common.REPO, "src", "lian", rel), "rb").read()).hexdigest()[:16]
        except OSError:
            fp[rel] = None
    ctx.cov["fingerprints"] = fp
    sample_p = next((P for P in prepared if P["name"].startswith("gen_defaults")), prepared[0])
    ctx.cov["samples"] = [{"project": sample_p["name"], "files": sample_p["proj"]["files"],
                           "variations": [describe(j) for j in by[sample_p["name"]]]},
                          {"project": prepared[0]["name"], "files": prepared[0]["proj"]["files"]}]
    ctx.assumptions += [
        "the scan order of the file system (os.scandir) is an input: module/unit ids follow it (hypothesis SameUnitOrder, see C14_ids_from_counters)",
        "CPython iterates sets of ints / int tuples in an order that is a function of the insertion history only (not of PYTHONHASHSEED)",
        "pyarrow/pandas write identical bytes for identical frames (observed, not proved)",
    ]

    # ---------------- a broken proof / correspondence / hypothesis triggers the search for a concrete failing input
    broken = bool(corr_breaks or frozen_breaks or tie["hypothesis_violations"] or not proofs_ok)
    if broken and not failures:
        extra = [x for x in ["12345", rand_seed, "3", "5"] if x not in seeds][:3 if quick else 2]
        xjobs = [R.job(P, "x" + x, x) for P in prepared for x in extra]
        for j in R.execute(xjobs):
            base = by[j["P"]["name"]][0]
            diffs, bo, _ = compare_jobs(base, j)
            if diffs and j["res"][-1]["rc"] != -9:
                failures.append((j["P"], base, j, diffs))
        ctx.cov["search_after_broken_obligation"] = {"extra_seeds": extra, "extra_processes": len(xjobs),
                                                     "failing_inputs_found": len(failures)}
        ctx.cov["evaluations"] = R.nproc

    # ---------------- verdict
    if failures:
        report_failures(ctx, R, failures)
        ctx.cov["evaluations"] = R.nproc            # includes the processes spent on shrinking
    elif corr_breaks or frozen_breaks or tie["hypothesis_violations"] or not proofs_ok:
        ctx.violation({"what": "proof obligation, model correspondence or a monitored hypothesis of a C14 theorem is broken; "
                               "the seed sweep of this run found no project whose outputs differ",
                       "broken_theorems": ctx.audit["failures"], "correspondence": corr_breaks[:3],
                       "frozen_model_vs_pinned_code": frozen_breaks[:3],
                       "hypothesis_violations": tie["hypothesis_violations"][:5]}, no_input=True)


def report_failures(ctx, R, failures):
    """one VIOLATION per distinct (file, first differing column) signature; shrunk for generated projects"""
    seen = set()
    for P, base, other, diffs in failures:
        d = diffs[0]
        sig = (d.get("file"), d.get("column"), d.get("what"))
        if sig in seen:
            continue
        seen.add(sig)
        va, vb = describe(base), describe(other)
        proj = P["proj"]
        simple = other["seed"] != "random"
        if simple and len(seen) <= 2:
            try:
                small = shrink_project(R, proj, lambda c: pair_fails(R, c, va, vb, d.get("file"))[0])
                ok, sd = pair_fails(R, small, va, vb, d.get("file"))
                if ok:
                    proj, d = small, sd[0]
            except Exception:
                pass
        fid = known_match(ctx, proj, d)
        if fid:
            ctx.known(fid, f"{d.get('file')} differs between {va['label']} and {vb['label']} ({d.get('column')})")
            continue
        ctx.violation({"what": "two runs of lian on the same project produced different output",
                       "project": proj, "variation_a": va, "variation_b": vb,
                       "file": d.get("file"), "first_difference": {k: v for k, v in d.items() if k not in ("row_a", "row_b")},
                       "row_a": d.get("row_a"), "row_b": d.get("row_b"),
                       "all_differing_files": sorted({x.get("file") for x in diffs})})


def known_match(ctx, proj, d):
    """open known findings of C14: none at present (all reproduced defects are repaired)."""
    return None


def replay(rp):
    common.use_repo()
    if rp.get("no_failing_input_found") or "project" not in rp:
        print(json.dumps({"note": "no concrete input in this replay file", "broken": rp.get("broken_theorems")}))
        return 1
    scratch = os.path.join(common.SCRATCH_ROOT, "lv-%d" % os.getpid())
    os.makedirs(scratch, exist_ok=True)
    try:
        R = Runner(scratch)
        P = R.prepare("replay", rp["project"])
        va, vb = rp["variation_a"], rp["variation_b"]
        ja = R.execute_one(job_from_desc(R, P, "a", va))
        jb = R.execute_one(job_from_desc(R, P, "b", vb))
        diffs, _, _ = compare_jobs(ja, jb)
        print(json.dumps({"violates": bool(diffs),
                          "differences": [{k: v for k, v in d.items() if k not in ("row_a", "row_b")} for d in diffs[:5]]}))
        return 1 if diffs else 0
    finally:
        shutil.rmtree(scratch, ignore_errors=True)
