"""C17 — event handlers run in registration order under the documented blocking rules.

Correspondence: a real EventManager (from $LIAN_REPO/src as it is now, built on a stub options
object) vs the Lean model "events" (LianVerif.Events.runOps: register / notify / sync) on the same
histories of registrations and notifications.  Independent oracle: the C17 statement restated over
the *observed* calls of the real run (oracle() below) — it never looks at the model.

Parts of one run
  corpus    corpus/C17/*.json (quirk witnesses), run first
  flags     exhaustive: 0..N handlers for one event x {matching, non-matching language set}
            x 10 return values x {assigns out_data, does not}                (N = 3 quick, 4 thorough)
  regs      exhaustive: 0..N registrations x {2 known events, unknown event} x language-set forms
            (list / str / set / tuple / default, empty, any-marker) x {SUCCESS, SUCCESS|STOP_OTHER},
            then notifications for every event x language                    (N = 3 quick, 4 thorough)
  random    long interleaved register / notify histories, wide return values, data-dependent returns
  default   the real DefaultEventHandlerManager table: registration order vs the list handed to
            register_list (and vs the source text of event_registers.py), then every event kind x
            every language with the real handlers replaced by recording stubs
  plugin    an optional handler file loaded through options.event_handlers registers after the defaults
"""
import ast, hashlib, inspect, itertools, json, multiprocessing, os, shutil, subprocess, sys, time, types
import common
from common import drv_batch, drv_ok

RETS = [None, 0, 1, 2, 3, 4, 5, 8, 9, 16]
CHUNK = 20000


# --------------------------------------------------------------------------------------------
# real code
# --------------------------------------------------------------------------------------------
class _Sink:
    """stands in for sys.stdout while real code runs: counts the 'Unknown event' warnings"""
    def __init__(self):
        self.unknown = 0
        self.other = 0
    def write(self, s):
        if "Unknown event" in s:
            self.unknown += 1
        elif s.strip():
            self.other += 1
    def flush(self):
        pass


def stub_options(paths=()):
    return types.SimpleNamespace(event_handlers=list(paths), debug=False)


class Real:
    """One live EventManager built by the real constructor on a stub options object."""
    _inst = None

    @classmethod
    def get(cls):
        if cls._inst is None:
            cls._inst = Real()
        return cls._inst

    def __init__(self):
        common.use_repo()
        from lian.events.event_manager import EventManager
        from lian.events.handler_template import EventData
        from lian.config import config
        from lian.config.constants import EVENT_KIND
        self.EventManager = EventManager
        self.EventData = EventData
        self.em = EventManager(stub_options())
        self.any = config.ANY_LANG
        self.keys = list(self.em.event_handlers.keys())
        self.all_kinds = sorted(EVENT_KIND._reverse_lookup.keys())

    def params(self):
        return {"any": self.any, "keys": self.keys}

    def run(self, sc):
        """Run a scenario {"beh": […], "ops": […], "data": "int"|"obj", "ck": callable kinds} on the real code.
        Each trace entry is [h, in_data seen, out_data seen, return, out_data left, serial of the
        registration or None when the callable is shared between registrations].  In "obj" mode the data
        values are tokens of Python objects, resolved by *identity* (World)."""
        em = self.em
        for lst in em.event_handlers.values():        # back to the constructor's empty table
            del lst[:]
        world = World(sc.get("data") == "obj")
        factory = Callables(sc["beh"], sc.get("ck", "c"), world)
        outs = []
        kinds = {}
        serial = 0
        sink = _Sink()
        old = sys.stdout
        sys.stdout = sink
        try:
            for op in sc["ops"]:
                if op[0] == "r":
                    _, ev, h, kind, langs = op
                    fn = factory.make(h, serial)
                    before = sink.unknown
                    if kind == "d":
                        em.register(ev, fn)
                    elif kind == "s":
                        em.register(ev, fn, langs)
                    elif kind == "t":
                        em.register(ev, fn, set(langs))
                    elif kind == "u":
                        em.register(ev, fn, tuple(langs))
                    else:
                        em.register(ev, fn, list(langs))
                    warned = sink.unknown > before
                    outs.append(["r", warned])
                    if not warned:
                        kinds.setdefault(ev, []).append(kind)
                    serial += 1
                else:
                    _, ev, lang, d = op
                    del factory.cur[:]
                    obj = world.obj(d)
                    data = self.EventData(lang, ev, obj)
                    if data.in_data is not obj:                # the constructor turns a dict into a namespace:
                        world.adopt(data.in_data, d)           # that object is the event's original in_data
                    r = em.notify(data)
                    outs.append(["n", r, world.tok(data.in_data), world.tok(data.out_data), [list(x) for x in factory.cur]])
        except Exception as e:                         # the real code raised: that is an output too
            outs.append(["exception", type(e).__name__, str(e)[:200]])
        finally:
            sys.stdout = old
        table = []
        for ev, lst in em.event_handlers.items():
            row = []
            ks = kinds.get(ev, [])
            for pos, (langs, fn) in enumerate(lst):
                ls = langs if isinstance(langs, (list, tuple, set, frozenset)) else ["<%s>" % type(langs).__name__, str(langs)]
                was_set = len(ks) == len(lst) and ks[pos] == "t"
                row.append([sorted(ls) if was_set else list(ls), handler_number(fn)])
            table.append([ev, row])
        return {"outs": outs, "table": table}


# ---- data values: tokens <-> Python objects, resolved by identity ---------------------------------
NS, NSING = 16, 5
SHAPE_NAMES = ["None", "0", "False", "''", "()", "{}", "dict_str_keys", "dict_nonstr_keys", "list", "tuple",
               "namespace", "obj_custom_eq_bool", "str", "big_int", "nested_dict", "float"]


class Weird:
    """equal to everything, falsy, unhashable-by-value: nothing in notify may depend on ==, bool or hash of the data"""
    def __init__(self, t):
        self.t = t
    def __eq__(self, other):
        return True
    def __ne__(self, other):
        return False
    def __bool__(self):
        return False
    def __hash__(self):
        return 0
    def __repr__(self):
        return "Weird(%d)" % self.t


def make_shape(t):
    k = t % NS
    if k == 0: return None
    if k == 1: return 0
    if k == 2: return False
    if k == 3: return ""
    if k == 4: return ()
    if k == 5: return {}
    if k == 6: return {"k": t, "lang": "x"}
    if k == 7: return {t: 1, (1, 2): 2, None: 3}
    if k == 8: return [t] if t % 32 >= NS else []
    if k == 9: return (t, "t", [t])
    if k == 10: return types.SimpleNamespace(v=t)
    if k == 11: return Weird(t)
    if k == 12: return "s" + str(t)
    if k == 13: return 10 ** 6 + t
    if k == 14: return {"a": {"b": [t]}, "in_data": t}
    return float(t) + 0.5


class World:
    """Token <-> object table of one scenario.  In "int" mode a data value is the int itself.  In "obj" mode
    token t denotes one Python object of shape t % 16, created once; a token whose shape is an interned
    singleton (None, 0, False, "", ()) is canonicalised to the shape index, so distinct tokens are distinct
    objects and `tok` (lookup by id) tells exactly WHICH object a handler was shown."""
    def __init__(self, objmode):
        self.objmode = objmode
        self.objs = {}
        self.toks = {}
        self.keep = []

    def canon(self, t):
        return t % NS if (self.objmode and t % NS < NSING) else t

    def obj(self, t):
        if not self.objmode:
            return t
        t = self.canon(t)
        if t not in self.objs:
            o = make_shape(t)
            self.objs[t] = o
            self.toks[id(o)] = t
        return self.objs[t]

    def adopt(self, o, t):
        self.keep.append(self.objs.get(t))
        self.objs[t] = o
        self.toks[id(o)] = t

    def tok(self, o):
        if not self.objmode:
            return o if (isinstance(o, int) and not isinstance(o, bool)) else "<%s %r>" % (type(o).__name__, o)
        t = self.toks.get(id(o))
        return t if t is not None else "<unknown object %s %.40r>" % (type(o).__name__, o)


# ---- handlers: behaviour beh[h], packaged as different kinds of callables --------------------------
class _Method:
    def __init__(self, factory, h):
        self.factory = factory
        self.h = h
    def handle(self, data):
        return self.factory.call(self.h, None, data)


class _EqCallable:
    """callables that are equal (and hash equal) whenever they stand for the same handler number, but are
    distinct objects per registration"""
    def __init__(self, factory, h, serial):
        self.factory = factory
        self.h = h
        self.serial = serial
    def __eq__(self, other):
        return isinstance(other, _EqCallable) and other.h == self.h
    def __hash__(self):
        return hash(("eq", self.h))
    def __call__(self, data):
        return self.factory.call(self.h, self.serial, data)


def handler_number(fn):
    if hasattr(fn, "__self__") and hasattr(fn.__self__, "h"):
        return fn.__self__.h
    return getattr(fn, "h", -1)


class Callables:
    """kind per handler number (string indexed by h, last char repeated):
       c  a fresh closure per registration (knows its registration serial)
       f  ONE function object per handler number, registered again and again
       m  bound methods `obj.handle` of ONE object per handler number (fresh, ==-equal bound methods)
       e  fresh callable objects that compare equal per handler number"""
    def __init__(self, beh, ck, world):
        self.beh = beh
        self.ck = ck or "c"
        self.world = world
        self.cur = []
        self.shared = {}

    def call(self, h, serial, data):
        w = self.world
        spec = self.beh[h] if h < len(self.beh) else [0, 0, 0]
        ret, mode, c = spec[0], spec[1], spec[2]
        i, o = w.tok(data.in_data), w.tok(data.out_data)
        r = spec[4] if (len(spec) == 5 and i == spec[3]) else ret
        ii = i if isinstance(i, int) else -1
        oo = o if isinstance(o, int) else -1
        if mode == 1:
            data.out_data = w.obj(ii * c + h + 1)
        elif mode == 2:
            data.out_data = w.obj(oo * c + h + 1)
        elif mode == 3:
            data.out_data = w.obj(c)
        elif mode == 4:
            data.out_data = data.in_data               # the very object it was shown
        self.cur.append((h, i, o, r, w.tok(data.out_data), serial))
        return r

    def make(self, h, serial):
        k = self.ck[min(h, len(self.ck) - 1)]
        if k == "f":
            if h not in self.shared:
                def shared_fn(data, _h=h):
                    return self.call(_h, None, data)
                shared_fn.h = h
                self.shared[h] = shared_fn
            return self.shared[h]
        if k == "m":
            if h not in self.shared:
                self.shared[h] = _Method(self, h)
            return self.shared[h].handle
        if k == "e":
            return _EqCallable(self, h, serial)
        def closure(data):
            return self.call(h, serial, data)
        closure.h = h
        return closure


def make_handler(beh, h, serial, kind, cur):
    """a single recording closure over int data (used for the stubbed default table)"""
    f = Callables(beh, "c", World(False))
    f.cur = cur
    return f.make(h, serial)


# --------------------------------------------------------------------------------------------
# model
# --------------------------------------------------------------------------------------------
def model_request(sc, params, variant="model"):
    ops = []
    for op in sc["ops"]:
        if op[0] == "r":
            _, ev, h, kind, langs = op
            if kind == "d":
                ops.append(["r", ev, h, "s", params["any"]])
            elif kind == "s":
                ops.append(["r", ev, h, "s", langs])
            elif kind == "t":
                ops.append(["r", ev, h, "t", sorted(set(langs))])
            else:
                ops.append(["r", ev, h, "l", list(langs)])
        else:
            ops.append(op)
    req = {"m": "events", "any": params["any"], "keys": params["keys"], "beh": sc["beh"], "ops": ops}
    if sc.get("data") == "obj":
        req["canon"] = [NS, NSING]
    if variant != "model":
        req["variant"] = variant
    return req


def strip_serial(real):
    outs = []
    for o in real["outs"]:
        if o[0] == "n":
            outs.append(["n", o[1], o[2], o[3], [t[:5] for t in o[4]]])
        else:
            outs.append(o)
    return {"outs": outs, "table": real["table"]}


# --------------------------------------------------------------------------------------------
# independent oracle: the statement of C17 over the observed calls (never consults the model)
# --------------------------------------------------------------------------------------------
def oracle(sc, real, keys, ANY):
    """None when the real run satisfies the statement, else the clause it violates."""
    regs, serial, outs = {k: [] for k in keys}, 0, real["outs"]
    if len(outs) != len(sc["ops"]) or any(o[0] == "exception" for o in outs):
        return "real code raised / produced no output: %s" % (outs[-1] if outs else None)
    blocks = lambda r: r is not None and (r & 2) != 0
    for op, out in zip(sc["ops"], outs):
        if op[0] == "r":
            _, ev, h, kind, langs = op
            L = [ANY] if kind == "d" else [langs] if kind == "s" else sorted(set(langs)) if kind == "t" else list(langs)
            if out != ["r", ev not in regs]:
                return "register: unknown-event warning %s for a %s event" % (out[1], "known" if ev in regs else "unknown")
            if ev in regs:
                regs[ev].append((L, h, serial))
            serial += 1
            continue
        (_, ev, lang, d), (_, flags, _fin, fout, trace) = op, out
        if ev not in regs:
            if (flags, fout, trace) != (0, d, []):
                return "unknown event is not a no-op"
            continue
        expected = [(h, s) for (L, h, s) in regs[ev] if lang in L or ANY in L]
        ran = [(t[0], t[5]) for t in trace]          # serial is None when one callable serves several registrations
        if len(ran) > len(expected) or any(rh != eh or (rs is not None and rs != es)
                                           for (rh, rs), (eh, es) in zip(ran, expected)):
            return "handlers run are not the matching registrations in registration order"
        if any(blocks(t[3]) for t in trace[:-1]):
            return "a handler ran after a handler that requested blocking"
        if len(ran) < len(expected) and not (trace and blocks(trace[-1][3])):
            return "a matching handler did not run although nobody requested blocking"
        # Where the statement is silent the oracle accepts either reading (the *model* pins what the code
        # does today; a change there is reported as a broken correspondence, not as a failing input):
        #   - a handler that returned None may or may not count as "successful" for the data hand-over;
        #   - a non-zero return without the SUCCESS bit may or may not contribute SUCCESS;
        #   - bits outside the four defined flags may be dropped or kept.
        may_see, prev_out, lo, nonzero, raw = {d}, d, 0, False, 0
        for t in trace:
            if t[1] not in may_see:
                return "in_data seen is not the out_data left by the previous successful handler"
            if t[2] != prev_out:
                return "out_data seen is not what the previous handler left"
            prev_out = t[4]
            if t[3] is None:
                may_see = {t[1], t[4]}
            elif t[3] != 0:                            # successful = processed = not UNPROCESSED
                may_see = {t[4]}
            else:
                may_see = {t[1]}
            if t[3] is not None:
                lo |= t[3] & 15
                raw |= t[3]
                nonzero = nonzero or t[3] != 0
        if (flags & 14) != (lo & 14) or (flags & 1) not in ({lo & 1, 1} if nonzero else {0}) or (flags >> 4) & ~(raw >> 4):
            return "combined return value is not the union of the flags returned"
        if fout != prev_out:
            return "out_data handed back is not what the last handler left"
    return None


# --------------------------------------------------------------------------------------------
# generators
# --------------------------------------------------------------------------------------------
def gen_flags(n, E1):
    """all registrations of exactly n handlers for one event"""
    opts = [(m, r, mode) for m in (True, False) for r in RETS for mode in (1, 0)]
    for combo in itertools.product(opts, repeat=n):
        yield {"beh": [[r, mode, 10] for (_, r, mode) in combo],
               "ops": [["r", E1, i, "l", ["python"] if m else ["javascript"]] for i, (m, _, _) in enumerate(combo)]
                      + [["n", E1, "python", 1]]}


def gen_flags_reduced(n, E1, rets):
    """n handlers; a non-matching handler has a single representative behaviour (it is never called)"""
    opts = [(True, r, mode) for r in rets for mode in (1, 0)] + [(False, 3, 1)]
    for combo in itertools.product(opts, repeat=n):
        yield {"beh": [[r, mode, 10] for (_, r, mode) in combo],
               "ops": [["r", E1, i, "l", ["python"] if m else ["javascript"]] for i, (m, _, _) in enumerate(combo)]
                      + [["n", E1, "python", 1]]}


RETS_WIDE = [None] + list(range(0, 18)) + [31, 32, 255]
RETS4_QUICK = [None, 0, 1, 2, 3, 4, 5, 16]


def gen_dataflow(n, E1):
    """n matching handlers x {None, 0, SUCCESS, blocking} x the four out_data modes; the last handler's
    return additionally depends on the in_data it sees (blocks iff it sees the original in_data)"""
    opts = [(r, mode) for r in (None, 0, 1, 3) for mode in (0, 1, 2, 3)]
    for combo in itertools.product(opts, repeat=n):
        beh = [[r, mode, 7] for (r, mode) in combo]
        if n:
            beh[-1] = beh[-1] + [1, 3 if beh[-1][0] != 3 else 1]
        yield {"beh": beh, "ops": [["r", E1, i, "d", None] for i in range(n)] + [["n", E1, "go", 1], ["n", E1, "go", 2]]}


LANG_FORMS_FULL = [("l", []), ("l", ["python"]), ("l", ["javascript"]), ("l", ["%"]), ("l", ["python", "%"]),
                   ("s", "python"), ("s", "%"), ("t", ["python"]), ("t", ["python", "%"]), ("t", []),
                   ("u", ["javascript", "python"]), ("d", None)]
LANG_FORMS_SMALL = [("l", ["python"]), ("l", ["javascript"]), ("s", "python"), ("t", ["python", "%"]), ("d", None), ("l", [])]


def gen_regs(n, forms, E1, E2, UNK):
    """all sequences of exactly n registrations over events x language forms x {SUCCESS, blocking}"""
    beh = [[1, 1, 10], [3, 1, 10]] * 4
    opts = [(ev, f, b) for ev in (E1, E2, UNK) for f in forms for b in (0, 1)]
    notes = [["n", E1, "python", 1], ["n", E1, "javascript", 1], ["n", E2, "python", 1], ["n", UNK, "python", 1], ["n", E1, "%", 1]]
    for combo in itertools.product(opts, repeat=n):
        yield {"beh": beh[:2 * max(n, 1)],
               "ops": [["r", ev, 2 * i + b, f[0], f[1]] for i, (ev, f, b) in enumerate(combo)] + notes}


def gen_callables(n, E1, ck):
    """every sequence of exactly n registrations of two handlers A (0) and B (1) for one event, where all
    registrations of a handler number use ONE callable (ck: f same function, m bound methods of one object,
    e equal-but-distinct callables), over 4 language sets, A / B succeeding or blocking; raised for three
    languages.  Handler identity is the registration, not the callable: A:[python] B:[%] A:[java] raised for
    java must run B then A."""
    langsets = [["python"], ["java"], ["%"], ["python", "java"]]
    opts = [(h, L) for h in (0, 1) for L in langsets]
    for combo in itertools.product(opts, repeat=n):
        if len({h for h, _ in combo}) == n and n > 1:
            continue                                   # no handler registered twice: covered by the other parts
        for ra, rb in ((1, 1), (1, 3), (3, 1), (3, 3)):
            yield {"beh": [[ra, 1, 10], [rb, 2, 10]], "ck": ck,
                   "ops": [["r", E1, h, "l", L] for h, L in combo]
                          + [["n", E1, "python", 1], ["n", E1, "java", 1], ["n", E1, "go", 1]]}


def gen_shapes(E1):
    """three any-language handlers over object data: the event's in_data has every shape (a dict is turned
    into a namespace by EventData itself; the non-str-key dict cannot be passed to EventData at all); handler 0
    leaves an object of every shape with every kind of return; handler 1 keeps out_data / re-assigns the very
    object it was shown / re-assigns the object handler 0 left / leaves a fresh object; handler 2 only looks."""
    for d in range(NS):
        if d == 7:
            continue
        for s1 in range(NS):
            for r0 in (1, 0, None, 3):
                for m1 in (0, 4, 3, 1):
                    for r1 in (1, 0):
                        yield {"data": "obj", "beh": [[r0, 3, s1], [r1, m1, s1 if m1 == 3 else 10], [1, 0, 0]],
                               "ops": [["r", E1, h, "d", None] for h in range(3)] + [["n", E1, "go", d]]}


def as_obj(scs):
    for sc in scs:
        sc = dict(sc)
        sc["data"] = "obj"
        yield sc


def gen_kinds(kinds):
    """every EVENT_KIND value (with or without a list), -1 (EventData's default) and 999: two handlers for
    it, one for its neighbour, then both are raised"""
    ks = list(kinds) + [-1, 999]
    for i, k in enumerate(ks):
        other = ks[(i + 1) % len(ks)]
        yield {"beh": [[1, 1, 10], [3, 1, 10], [5, 1, 10]],
               "ops": [["r", k, 0, "l", ["python"]], ["r", other, 2, "d", None], ["r", k, 1, "s", "%"], ["r", k, 2, "l", ["python"]],
                       ["n", k, "python", 1], ["n", k, "go", 1], ["n", other, "go", 1]]}


def gen_random(rng, keys, kinds, langs_pool):
    nb = rng.randint(1, 8)
    objmode = rng.random() < 0.5
    beh = []
    for _ in range(nb):
        r = rng.choice([None, 0, 1, 1, 1, 3, 5, 9, 2, 4, 8, 16, 17, 31, 255, 1 << 40, rng.randint(0, 31)])
        mode = rng.choice([0, 1, 1, 2, 3, 4])
        spec = [r, mode, rng.randrange(NS) if (objmode and mode == 3) else rng.choice([3, 10, 7])]
        if rng.random() < 0.3:
            spec += [rng.choice([1, 2, 11, 12, 3]), rng.choice([None, 0, 1, 3, 2])]
        beh.append(spec)
    evs = [rng.choice(keys) for _ in range(2)] + [rng.choice(kinds + [-1, 999])]
    ops = []
    def datum():
        return rng.choice([t for t in range(NS) if t != 7]) if objmode else rng.randint(1, 3)
    for _ in range(rng.randint(3, 24)):
        if rng.random() < 0.6:
            kind = rng.choice(["l", "l", "l", "s", "t", "u", "d"])
            if kind == "s":
                langs = rng.choice(langs_pool)
            elif kind == "d":
                langs = None
            else:
                langs = [rng.choice(langs_pool) for _ in range(rng.randint(0, 3))]
                if kind == "t":
                    langs = sorted(set(langs))
            ops.append(["r", rng.choice(evs), rng.randrange(nb), kind, langs])
        else:
            ops.append(["n", rng.choice(evs), rng.choice(langs_pool), datum()])
    ops.append(["n", evs[0], rng.choice(langs_pool), datum()])
    sc = {"beh": beh, "ops": ops, "ck": "".join(rng.choice("ccfme") for _ in range(nb))}
    if objmode:
        sc["data"] = "obj"
    return sc


# --------------------------------------------------------------------------------------------
# chunk runner (also used inside worker processes)
# --------------------------------------------------------------------------------------------
def classify(sc, real, keys, ANY, stats):
    """distribution statistics + non-triviality of one scenario, measured on the real output"""
    nontrivial = False
    nreg = {}
    ck = sc.get("ck", "c")
    for op, out in zip(sc["ops"], real["outs"]):
        if op[0] == "r":
            stats["reg_" + op[3]] = stats.get("reg_" + op[3], 0) + 1
            k = "callable_" + ck[min(op[2], len(ck) - 1)]
            stats[k] = stats.get(k, 0) + 1
            if out[0] == "r" and out[1]:
                stats["reg_unknown_event"] = stats.get("reg_unknown_event", 0) + 1
            else:
                nreg[op[1]] = nreg.get(op[1], 0) + 1
        elif out[0] == "n":
            trace = out[4]
            stats["notify"] = stats.get("notify", 0) + 1
            k = "ran_%d" % min(len(trace), 5)
            stats[k] = stats.get(k, 0) + 1
            if op[1] not in keys:
                stats["notify_unknown_event"] = stats.get("notify_unknown_event", 0) + 1
            cut = bool(trace) and trace[-1][3] is not None and (trace[-1][3] & 2) != 0
            if cut:
                stats["stopped_by_blocker"] = stats.get("stopped_by_blocker", 0) + 1
            if any(t[3] is None for t in trace):
                stats["none_return_ran"] = stats.get("none_return_ran", 0) + 1
            if any(t[3] is not None and t[3] > 15 for t in trace):
                stats["undefined_bits_returned"] = stats.get("undefined_bits_returned", 0) + 1
            if sc.get("data") == "obj":
                stats["notify_object_data"] = stats.get("notify_object_data", 0) + 1
                for t in trace:
                    if isinstance(t[4], int):
                        k = "left_" + SHAPE_NAMES[t[4] % NS]
                        stats[k] = stats.get(k, 0) + 1
                    if t[4] == t[1] and t[4] != t[2]:
                        stats["left_the_in_data_object_itself"] = stats.get("left_the_in_data_object_itself", 0) + 1
            hs = [t[0] for t in trace]
            if len(set(hs)) < len(hs):
                stats["same_handler_ran_twice"] = stats.get("same_handler_ran_twice", 0) + 1
            skipped = nreg.get(op[1], 0) - len(trace)
            if len(trace) >= 2 or (trace and (cut or skipped > 0)):
                nontrivial = True
    return nontrivial


def run_chunk(scs):
    """real + model + oracle on a list of scenarios.  Returns a summary dict."""
    real = Real.get()
    params = real.params()
    stats, failing, breaks, nontriv = {}, [], [], 0
    reals = [real.run(sc) for sc in scs]
    models = drv_batch([model_request(sc, params) for sc in scs])
    for sc, r, m in zip(scs, reals, models):
        if classify(sc, r, params["keys"], params["any"], stats):
            nontriv += 1
        v = oracle(sc, r, params["keys"], params["any"])
        if v is not None:
            if len(failing) < 20:
                failing.append((sc, r, v))
            stats["oracle_failures"] = stats.get("oracle_failures", 0) + 1
        if "ok" not in m or strip_serial(r) != m["ok"]:
            if len(breaks) < 20:
                breaks.append((sc, strip_serial(r), m))
            stats["correspondence_differences"] = stats.get("correspondence_differences", 0) + 1
    return {"n": len(scs), "nontrivial": nontriv, "stats": stats, "failing": failing, "breaks": breaks,
            "sample": [scs[len(scs) // 2], reals[len(scs) // 2]]}


def chunks(it, size):
    buf = []
    for x in it:
        buf.append(x)
        if len(buf) >= size:
            yield buf
            buf = []
    if buf:
        yield buf


class Acc:
    def __init__(self):
        self.n = 0
        self.nontrivial = 0
        self.stats = {}
        self.failing = []
        self.breaks = []
        self.samples = []
        self.per_part = {}

    def add(self, part, res):
        self.n += res["n"]
        self.nontrivial += res["nontrivial"]
        p = self.per_part.setdefault(part, {"scenarios": 0, "nontrivial": 0})
        p["scenarios"] += res["n"]
        p["nontrivial"] += res["nontrivial"]
        for k, v in res["stats"].items():
            self.stats[k] = self.stats.get(k, 0) + v
        self.failing += res["failing"][:max(0, 20 - len(self.failing))]
        self.breaks += res["breaks"][:max(0, 20 - len(self.breaks))]
        if len(self.samples) < 6 and not any(s[0] == part for s in self.samples):
            self.samples.append((part, res["sample"]))


def _work(args):
    part, scs = args
    return part, run_chunk(scs)


def run_parts(parts, acc, pool):
    """parts: list of (name, iterable of scenarios)."""
    def jobs():
        for name, it in parts:
            for ch in chunks(it, CHUNK):
                yield (name, ch)
    if pool is None:
        for job in jobs():
            part, res = _work(job)
            acc.add(part, res)
    else:
        for part, res in pool.imap_unordered(_work, jobs()):
            acc.add(part, res)


# --------------------------------------------------------------------------------------------
# the default registration table
# --------------------------------------------------------------------------------------------
def source_order_of_default_table():
    """Third, execution-independent view: the EventHandler(...) calls of event_registers.py in
    source order as (event name, handler dotted name, langs literal).  None if the file no longer
    has that literal shape (then this view is simply not used)."""
    try:
        path = os.path.join(common.REPO, "src", "lian", "events", "event_registers.py")
        tree = ast.parse(open(path, encoding="utf-8").read())
        out = []
        for node in ast.walk(tree):
            if isinstance(node, ast.Call) and getattr(node.func, "id", "") == "EventHandler":
                kw = {k.arg: k.value for k in node.keywords}
                ev = kw["event"].attr
                hd = ast.unparse(kw["handler"])
                langs = []
                for e in kw["langs"].elts:
                    langs.append(e.value if isinstance(e, ast.Constant) else "<ANY>" if ast.unparse(e) == "config.ANY_LANG" else "<?>")
                out.append((node.lineno, node.col_offset, ev, hd, langs))
        out.sort()
        return [(ev, hd, langs) for _, _, ev, hd, langs in out]
    except Exception:
        return None


def default_table_part(cov, acc):
    real = Real.get()
    EM = real.EventManager
    from lian.config.constants import EVENT_KIND
    from lian.config.lang_config import LANG_TABLE
    captured = []
    orig = EM.register_list

    def recording_register_list(self, handler_list):
        captured.extend(handler_list)
        return orig(self, handler_list)
    EM.register_list = recording_register_list
    try:
        em = EM(stub_options())
    finally:
        EM.register_list = orig
    params = real.params()
    names = []
    def hid(fn):
        n = fn.__module__ + "." + fn.__qualname__
        if n not in names:
            names.append(n)
        return names.index(n)
    # (1) registration order: list handed to register_list -> model registerList -> live table
    ops = []
    for el in captured:
        kind = "s" if isinstance(el.langs, str) else "t" if isinstance(el.langs, set) else "l"
        ops.append(["r", el.event, hid(el.handler), kind, el.langs if kind == "s" else sorted(el.langs) if kind == "t" else list(el.langs)])
    live = [[ev, [[sorted(l) if isinstance(l, set) else list(l), hid(fn)] for l, fn in lst]] for ev, lst in em.event_handlers.items()]
    problems = []
    # oracle for (1): per event, the live list is the sub-sequence of the captured list for that event
    want = [[ev, [[[o[4]] if o[3] == "s" else list(o[4]), o[2]] for o in ops if o[1] == ev]] for ev in params["keys"]]
    if live != want:                      # representation-level: reported as a broken correspondence unless (2) fails
        acc.breaks.append(({"default_table": True}, {"live_table": live}, {"expected_from_register_list_argument": want}))
    src = source_order_of_default_table()
    src_view = "unavailable"
    if src is not None and len(src) == len(captured):
        mine = [(EVENT_KIND[el.event], el.handler.__module__.split(".")[-1] + "." + el.handler.__qualname__,
                 ["<ANY>" if x == params["any"] else x for x in el.langs]) for el in captured]
        src_view = "agrees" if mine == src else "differs"      # informational only (enable() may legitimately compute its list)
    # (2) every event kind x every language, handlers replaced by recording stubs
    langs = [l.name for l in LANG_TABLE] + ["abc", "cpp", params["any"], "", "nosuchlang"]
    events = real.all_kinds + [-1, 999]
    nh = max(len(names), 1)
    behaviours = {"all_success": [[1, 1, 10] for _ in range(nh)], "all_none": [[None, 1, 10] for _ in range(nh)],
                  "all_unprocessed": [[0, 1, 10] for _ in range(nh)], "all_stop_requesters": [[4, 0, 0] for _ in range(nh)]}
    for k in range(nh):
        b = [[1, 1, 10] for _ in range(nh)]
        b[k] = [3, 1, 10]
        behaviours["blocker_%d" % k] = b
    scs = []
    for bname, beh in sorted(behaviours.items()):
        scs.append({"beh": beh, "ops": ops + [["n", ev, lang, 1] for ev in events for lang in langs], "note": bname})
    # the real side of (2) runs on `em` (the table built by the real DefaultEventHandlerManager), stubbed in place
    outs_real = []
    for sc in scs:
        cur = []
        serial_of = {}
        s = 0
        for o in ops:
            if o[1] in em.event_handlers:
                serial_of.setdefault(o[1], []).append(s)
            s += 1
        saved = {ev: list(lst) for ev, lst in em.event_handlers.items()}
        try:
            for ev, lst in em.event_handlers.items():
                for i, (l, fn) in enumerate(saved[ev]):
                    lst[i] = (l, make_handler(sc["beh"], hid(fn), serial_of[ev][i], "l", cur))
            outs = [["r", o[1] not in em.event_handlers] for o in ops]
            for op in sc["ops"][len(ops):]:
                del cur[:]
                data = real.EventData(op[2], op[1], op[3])
                r = em.notify(data)
                outs.append(["n", r, data.in_data, data.out_data, [list(x) for x in cur]])
        finally:
            for ev, lst in em.event_handlers.items():
                lst[:] = saved[ev]
        outs_real.append({"outs": outs, "table": live})
    models = drv_batch([model_request(sc, params) for sc in scs])
    stats = {}
    nontriv = 0
    for sc, r, m in zip(scs, outs_real, models):
        if classify(sc, r, params["keys"], params["any"], stats):
            nontriv += 1
        v = oracle(sc, r, params["keys"], params["any"])
        if v is not None:
            problems.append((v, {"behaviour": sc["note"]}))
        if "ok" not in m or strip_serial(r) != m["ok"]:
            acc.breaks.append((sc, strip_serial(r), m))
    n_notifies = sum(len(sc["ops"]) - len(ops) for sc in scs)
    acc.n += len(scs)
    acc.nontrivial += nontriv
    acc.per_part["default"] = {"scenarios": len(scs), "nontrivial": nontriv, "notifications": n_notifies}
    for k, v in stats.items():
        acc.stats[k] = acc.stats.get(k, 0) + v
    would_run = {}
    o0 = outs_real[sorted(behaviours).index("all_success")]["outs"][len(ops):]
    i = 0
    for ev in events:
        for lang in langs:
            if o0[i][4] and lang in ("python", "javascript", params["any"]):
                would_run.setdefault(EVENT_KIND[ev] if ev in EVENT_KIND else str(ev), {})[lang] = [names[t[0]].split("default_event_handlers.")[-1] for t in o0[i][4]]
            i += 1
    cov["default_table"] = {
        "registrations": len(captured), "handlers": len(names), "known_event_kinds": len(params["keys"]),
        "event_kinds_without_a_list": [EVENT_KIND[e] for e in real.all_kinds if e not in params["keys"]],
        "source_order_view": src_view, "events_x_languages": len(events) * len(langs),
        "behaviour_sets": len(behaviours), "would_run_sample": {k: would_run[k] for k in sorted(would_run)[:4]}}
    return problems


# --------------------------------------------------------------------------------------------
# optional handler files (options.event_handlers)
# --------------------------------------------------------------------------------------------
PLUGIN_SRC = '''
import sys
from lian.events.handler_template import EventHandlerManager
LOG = sys.modules["lv_c17_shared"].LOG
def mk(tag, ret):
    def handler(data):
        LOG.append((tag, data.in_data, data.out_data))
        data.out_data = data.in_data + [tag]
        return ret
    return handler
class LvPlugin(EventHandlerManager):
    def __init__(self, event_manager):
        super().__init__(event_manager)
        event_manager.register(event=%(ev)d, handler=mk("%(tag)s_a", 1), langs=["python"])
        event_manager.register(event=%(ev)d, handler=mk("%(tag)s_b", %(ret)d), langs="%%")
'''


def plugin_part(cov, acc):
    """An optional handler file is loaded after the defaults; its handlers therefore run after the
    default handlers of the same event, in file order then registration order."""
    real = Real.get()
    scratch = os.path.join(common.SCRATCH_ROOT, "lv-%d" % os.getpid())
    os.makedirs(scratch, exist_ok=True)
    shared = types.ModuleType("lv_c17_shared")
    shared.LOG = []
    sys.modules["lv_c17_shared"] = shared
    problems = []
    try:
        ev = 4                                             # GIR_LIST_GENERATED: default add_main_func (any language)
        if ev not in real.keys:
            return problems
        p1 = os.path.join(scratch, "plug1.py")
        p2 = os.path.join(scratch, "plug2.py")
        open(p1, "w").write(PLUGIN_SRC % {"ev": ev, "tag": "p1", "ret": 3})
        open(p2, "w").write(PLUGIN_SRC % {"ev": ev, "tag": "p2", "ret": 1})
        sink, old = _Sink(), sys.stdout
        sys.stdout = sink
        try:
            em = real.EventManager(stub_options([p1, p2]))
            lst = em.event_handlers[ev]
            defaults = [fn for _, fn in lst if not fn.__qualname__.startswith("mk.")]
            for i, (l, fn) in enumerate(list(lst)):
                if fn in defaults:                          # stub the default handler(s): SUCCESS, appends a tag
                    def stub(data, _n=fn.__qualname__):
                        shared.LOG.append(("default:" + _n, data.in_data, data.out_data))
                        data.out_data = data.in_data + ["default"]
                        return 1
                    lst[i] = (l, stub)
            registered = [getattr(fn, "__qualname__", "?") for _, fn in lst]
            data = real.EventData("python", ev, [])
            r = em.notify(data)
        finally:
            sys.stdout = old
        order = [t[0] for t in shared.LOG]
        want = ["default:" + fn.__qualname__ for fn in defaults] + ["p1_a", "p1_b"]     # p1_b returns 3: p2 never runs
        acc.n += 1
        acc.nontrivial += 1
        acc.per_part["plugin"] = {"scenarios": 1, "nontrivial": 1}
        cov["plugin_order"] = {"registered": len(registered), "ran": order, "return": r}
        if len(registered) != len(defaults) + 4 or order != want or r != 3:
            problems.append(("optional handler files are not registered after the defaults / do not run in registration order up to the blocker",
                             {"order": order, "expected": want, "return": r, "registered": registered}))
        elif data.out_data != ["default"] * len(defaults) + ["p1_a", "p1_b"]:
            problems.append(("data not handed from handler to handler across default and optional handlers",
                             {"out_data": data.out_data}))
    finally:
        sys.modules.pop("lv_c17_shared", None)
        shutil.rmtree(scratch, ignore_errors=True)
    return problems


# --------------------------------------------------------------------------------------------
# known findings (none open for C17 today) and shrinking
# --------------------------------------------------------------------------------------------
def match_known(ctx, sc, real, clause):
    """C17 has no open finding: nothing is ever suppressed."""
    return None


def violates(sc):
    real = Real.get()
    r = real.run(sc)
    return oracle(sc, r, real.keys, real.any)


def shrink(sc):
    ops = common.shrink_list(sc["ops"], lambda c: len(c) > 0 and violates(dict(sc, ops=c)) is not None)
    return dict(sc, ops=ops)


def fingerprints():
    import lian.events.event_manager as em
    import lian.events.event_return as er
    import lian.events.event_registers as rg
    fns = {"EventManager.notify": em.EventManager.notify, "EventManager.register": em.EventManager.register,
           "EventManager.add_handler": em.EventManager.add_handler, "EventManager.register_list": em.EventManager.register_list,
           "EventManager.__init__": em.EventManager.__init__, "sync_event_return": er.sync_event_return,
           "should_block_other_event_handlers": er.should_block_other_event_handlers,
           "is_event_successfully_processed": er.is_event_successfully_processed,
           "DefaultEventHandlerManager.enable": rg.DefaultEventHandlerManager.enable}
    return {k: hashlib.sha256(inspect.getsource(v).encode()).hexdigest()[:16] for k, v in fns.items()}


def _audit_inconclusive(audit):
    """The audit said nothing about the theorems: every listed theorem is reported missing although the
    library built, or a Lean process died at start-up.  That is what an environment problem looks like
    (e.g. `lean` aborting with 'failed to create thread' under an address-space limit)."""
    fails = audit["failures"]
    if not fails or any(f["theorem"] == "lake build" for f in fails):
        return False
    if any("failed to create thread" in str(f["reason"]) for f in fails):
        return True
    missing = [f for f in fails if f["reason"] == "missing or does not elaborate"]
    return not audit["axioms"] and len(missing) >= audit["obligations"] - 3


def _diagnose():
    """Run the audit file ourselves and look at how Lean ended: 'crashed' (no verdict possible),
    'present' (all theorems elaborate) or 'missing' (Lean ran normally and some theorem is not there)."""
    import re
    obl = json.load(open(os.path.join(common.LEAN, "obligations", "C17.json")))
    adir = os.path.join(common.LEAN, ".lake", "audit")
    os.makedirs(adir, exist_ok=True)
    f = os.path.join(adir, "DiagC17_%d.lean" % os.getpid())
    with open(f, "w") as fh:
        fh.write("import %s\n" % obl["module"] + "".join("#print axioms %s\n" % n for n in obl["theorems"]))
    try:
        p = subprocess.run(["lake", "env", "lean", f], cwd=common.LEAN, capture_output=True, text=True)
    finally:
        os.unlink(f)
    out = p.stdout + p.stderr
    if "failed to create thread" in out or p.returncode not in (0, 1) or not out.strip():
        return "crashed"
    seen = re.findall(r"'([^']+)' (?:depends on axioms|does not depend on any axioms)", out)
    return "present" if all(n in seen for n in obl["theorems"]) else "missing"


def proofs(ctx):
    """ctx.proofs(), retried while the audit is inconclusive.  A Lean that crashes at start-up is a harness
    error (exit 2), never a verdict about the property; theorems that are really missing are a verdict."""
    ok = ctx.proofs()
    tries = 0
    while not ok and _audit_inconclusive(ctx.audit):
        d = _diagnose()
        if d == "missing":
            break
        tries += 1
        if tries > 5:
            raise RuntimeError("the Lean audit keeps crashing in this environment (%s; e.g. 'failed to create thread' "
                               "under an address-space limit): no verdict" % d)
        time.sleep(2 * tries)
        ok = ctx.proofs()
    return ok


# --------------------------------------------------------------------------------------------
def run(ctx):
    common.use_repo()
    proofs_ok = proofs(ctx)
    tier = ctx.tier
    real = Real.get()
    params = real.params()
    from lian.events import event_return as er
    from lian.config.lang_config import LANG_TABLE
    # parameters extracted from the live modules; the theorems are stated for these named flag values
    flags_live = [er.EventHandlerReturnKind.UNPROCESSED, er.EventHandlerReturnKind.SUCCESS,
                  er.EventHandlerReturnKind.STOP_OTHER_EVENT_HANDLERS, er.EventHandlerReturnKind.STOP_REQUESTERS,
                  er.EventHandlerReturnKind.INTERRUPTION_CALL]
    ctx.cov["params"] = {"ANY_LANG": params["any"], "known_event_kinds": params["keys"], "flags": flags_live}
    ctx.cov["fingerprints"] = fingerprints()
    param_mismatch = flags_live != [0, 1, 2, 4, 8]

    E1, E2 = params["keys"][0], params["keys"][-1]
    unk = [k for k in real.all_kinds if k not in params["keys"] and k != 0]
    UNK = unk[-1] if unk else 999
    nmax = 3 if tier == "quick" else 4
    small_forms = 6 if tier == "quick" else 5          # language-set forms used for the longest registration sequences
    acc = Acc()

    corpus_dir = os.path.join(common.VERIF, "corpus", "C17")
    corpus = []
    if os.path.isdir(corpus_dir):
        for f in sorted(os.listdir(corpus_dir)):
            if f.endswith(".json"):
                j = json.load(open(os.path.join(corpus_dir, f)))
                corpus.append({k: j[k] for k in ("beh", "ops", "data", "ck") if k in j})
    n_rand = 4000 if tier == "quick" else 120000
    pool_langs = [l.name for l in LANG_TABLE] + ["abc", params["any"], params["any"]]
    rnd = [gen_random(ctx.rng, params["keys"], real.all_kinds, pool_langs) for _ in range(n_rand)]

    seen = set()
    def distinct(scs):
        out = []
        for sc in scs:
            k = json.dumps(sc, sort_keys=True)
            if k not in seen:
                seen.add(k)
                out.append(sc)
        return out
    corpus = distinct(corpus)
    rnd = distinct(rnd)
    parts = [("corpus", corpus), ("kinds", gen_kinds(real.all_kinds))]
    for n in range(0, nmax + 1):
        parts.append(("flags", gen_flags(n, E1)))
    if tier == "quick":
        parts.append(("flags4_reduced", gen_flags_reduced(4, E1, RETS4_QUICK)))
    else:
        parts.append(("flags5_reduced", gen_flags_reduced(5, E1, [None, 0, 1, 3, 4, 16])))
    for n in range(1, nmax):
        parts.append(("flags_wide_returns", gen_flags_reduced(n, E1, RETS_WIDE)))
    for n in range(1, 5):
        parts.append(("dataflow", gen_dataflow(n, E1)))
    for n in range(1, nmax + 2):
        for ck in "fme":
            parts.append(("callables", gen_callables(n, E1, ck)))
    parts.append(("shapes", gen_shapes(E1)))
    for n in range(1, 4):
        parts.append(("dataflow_objects", as_obj(gen_dataflow(n, E1))))
    parts.append(("flags_objects", as_obj(gen_flags(2, E1))))
    for n in range(0, nmax + 1):
        forms = LANG_FORMS_FULL if n <= nmax - 1 else LANG_FORMS_SMALL[:small_forms]
        parts.append(("regs", gen_regs(n, forms, E1, E2, UNK)))
    parts.append(("random", rnd))

    workers = min(os.cpu_count() or 1, int(os.environ.get("LV_WORKERS", "8")))
    pool = multiprocessing.get_context("fork").Pool(workers) if workers > 1 else None
    try:
        run_parts(parts, acc, pool)
    finally:
        if pool is not None:
            pool.close()
            pool.join()
    # second, structurally different evaluation of the statement's vocabulary (fullRun / takeThrough /
    # unionNorm, `variant: spec`) against the real code on corpus + random histories
    sub = corpus + rnd[:2000]
    spec_out = drv_batch([model_request(sc, params, "spec") for sc in sub])
    spec_diff = [(sc, strip_serial(real.run(sc)), m) for sc, m in zip(sub, spec_out)
                 if "ok" not in m or strip_serial(real.run(sc)) != m["ok"]]
    default_problems = default_table_part(ctx.cov, acc)
    plugin_problems = plugin_part(ctx.cov, acc)

    ctx.cov["evaluations"] = acc.n
    ctx.cov["distinct_nontrivial"] = acc.nontrivial
    ctx.cov["exhaustive"] = True
    extra_slice = (f"the 4-handler slice over returns {RETS4_QUICK}" if tier == "quick"
                   else "a 5-handler slice over returns [None, 0, 1, 3, 4, 16]")
    ctx.cov["rule"] = (
        f"scenario = registrations + notifications on a real EventManager. corpus ({len(corpus)}); kinds: one scenario per "
        f"EVENT_KIND value, -1 and 999; flags: every "
        f"registration of 0..{nmax} handlers for one event x {{matching, non-matching}} x returns {RETS} x "
        f"{{assigns out_data, keeps it}} (+ {extra_slice} with one representative non-matching behaviour); "
        f"flags_wide_returns: 1..{nmax - 1} handlers x {len(RETS_WIDE)} return values; dataflow: 1..4 handlers x 4 returns x 4 out_data modes with a data-dependent last return; callables: every sequence of 1..{nmax + 1} registrations of 2 handlers "
        f"where a handler number is ONE callable (same function / bound methods of one object / equal-but-distinct callables) x 4 language sets x success-or-blocking, raised for 3 languages; "
        f"shapes: object data resolved by identity (tokens of {NS} Python shapes: {', '.join(SHAPE_NAMES)}): {NS - 1} initial in_data x {NS} shapes left x 4 returns x "
        f"4 ways the next handler treats out_data x 2 returns; dataflow/flags slices repeated over object data; regs: every sequence of 0..{nmax} registrations over {{2 known events, an "
        f"EVENT_KIND without list}} x {len(LANG_FORMS_FULL)} language-set forms ({small_forms} for the longest length) x "
        f"{{SUCCESS, SUCCESS|STOP_OTHER}}, each followed by 5 notifications; {n_rand} random interleaved histories (seeded); "
        "default table x every event kind x every language x stubbed behaviours; one optional handler file run. "
        "Exhaustive parts enumerate distinct scenarios by construction, corpus and random ones are de-duplicated; non-trivial = some notification called >=2 "
        "handlers, or called >=1 and was cut by a blocker or skipped a non-matching registration (counted on the real output)")
    ctx.cov["per_part"] = acc.per_part
    ctx.cov["distribution"] = dict(sorted(acc.stats.items()))
    ctx.cov["samples"] = [{"part": p, "scenario": s[0], "real": s[1]} for p, s in acc.samples]
    ctx.cov["correspondence"] = {"compared": acc.n, "differences": max(len(acc.breaks), acc.stats.get("correspondence_differences", 0)),
                                 "spec_variant_compared": len(sub), "spec_variant_differences": len(spec_diff)}
    ctx.assumptions += [
        "handler contract: a handler returns None or a non-negative int, assigns at most data.out_data, does not raise, does not re-enter notify",
        "'successful' is read as the code reads it: return != UNPROCESSED (None counts); 'union of flags' is the union of normalised returns (non-zero carries SUCCESS; only flags 1,2,4,8 kept)",
    ]

    if acc.failing:
        sc, r, clause = acc.failing[0]
        small = shrink(sc) if len(sc["ops"]) <= 64 else sc
        rr = real.run(small)
        clause2 = oracle(small, rr, real.keys, real.any) or clause
        known = match_known(ctx, small, rr, clause2)
        if known:
            ctx.known(known, clause2)
        else:
            ctx.violation({"what": "real EventManager violates the C17 statement: " + clause2, "scenario": small,
                           "real": rr, "failing_scenarios_in_run": acc.stats.get("oracle_failures", len(acc.failing))})
    elif default_problems or plugin_problems:
        what, detail = (default_problems + plugin_problems)[0]
        ctx.violation({"what": "real EventManager violates the C17 statement on the default table / optional handler files: " + what,
                       "detail": detail, "scenario": {"default_table": True}})
    elif acc.breaks or spec_diff or not proofs_ok or param_mismatch:
        sc, r, m = (acc.breaks + spec_diff)[0] if (acc.breaks or spec_diff) else (None, None, None)
        ctx.violation({"what": "proof obligation or correspondence broken; the statement-level oracle passed on every scenario of this run",
                       "broken_theorems": ctx.audit["failures"],
                       "param_mismatch": flags_live if param_mismatch else None,
                       "correspondence": {"model": "LianVerif.Events.runOps", "scenario": sc, "real": r, "model_out": m}},
                      no_input=True)


def replay(rp):
    common.use_repo()
    real = Real.get()
    sc = rp.get("scenario") or {}
    if sc.get("default_table"):
        probs = default_table_part({}, Acc()) + plugin_part({}, Acc())
        print(json.dumps({"problems": [p[0] for p in probs]}))
        return 1 if probs else 0
    if "ops" not in sc:
        print(json.dumps({"note": "replay file names a broken proof obligation / correspondence, not a failing input; re-run ./check C17 quick"}))
        return 0
    r = real.run(sc)
    v = oracle(sc, r, real.keys, real.any)
    print(json.dumps({"real": r, "violates": v}))
    return 1 if v is not None else 0
