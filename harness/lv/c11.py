"""C11 — every reported taint flow is justified by rules and by a data dependence.
See taint_common.py (shared with C10) for the machinery; NOTES-C10C11.md for what is proved and what is monitored."""
import atexit, shutil
import common, taint_common


def run(ctx):
    atexit.register(lambda: shutil.rmtree(taint_common.scratch_dir(), ignore_errors=True))
    taint_common.run_check(ctx, "C11")


def replay(rp):
    return taint_common.replay_check(rp, "C11")
