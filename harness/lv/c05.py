"""C05 — names are bound to the declaration selected by the language's lexical scoping.

Real side : one packed lian run (lang + P1 basic analysis, the real classes, in a subprocess) over
            generated scope-heavy Python / JavaScript programs and small multi-file import projects;
            read frontend/gir.bundle*, semantic_p1/{scope_hierarchy,scope_to_available_scope_ids,
            scope_to_symbol_info,symbol_name_to_scope_ids,s2space_p1}.bundle*, stmt_id_to_scope_id.
Model side: Lean `Scopes.scopeTable/closure` + `Resolver.bind` applied to the REAL GIR rows of every
            unit (model "scopes"), and `Resolver.bind` applied to the REAL summary tables (model
            "resolver"); every table and every binding must be equal.
Oracle    : independent of lian and of the model — CPython `symtable` (owner scope of every name)
            + `ast` (binding lines) for Python; the generator's own scope tags for JavaScript and
            for imports.  The oracle decides whether a binding is a property violation.
"""
import ast, glob, json, os, random, shutil, subprocess, sys, symtable, time

if __name__ == "__main__" and len(sys.argv) > 1 and sys.argv[1] == "--lian-p1":
    # ------------------------------------------------------------------ subprocess entry
    # argv: --lian-p1 <repo> <workspace> <langs> <inputs...>
    repo, ws, langs = sys.argv[2], sys.argv[3], sys.argv[4]
    inputs = sys.argv[5:]
    src = os.path.join(repo, "src")
    sys.path.insert(0, src)
    sys.path.insert(1, os.path.join(src, "lian"))
    sys.argv = ["lian", "semantic", "-l", langs, "-w", ws, "-f", "-q"] + inputs
    import lian
    if not os.path.realpath(lian.__file__).startswith(os.path.realpath(src) + os.sep):
        # the /venv editable install points at /repo/src; never analyse with another tree than asked
        sys.stderr.write(f"lian imported from {lian.__file__}, expected under {src}\n")
        sys.exit(3)
    import lian.main as lm
    l = lm.Lian()
    l.parse_cmds().init_submodules()
    l.lang_analysis()
    lm.P1BasicSemanticAnalysis(l).run()
    l.loader.export()
    sys.exit(0)

import common
from common import drv_batch, drv_ok

PROP = "C05"
INTERNAL_PREFIX = "%"


# ====================================================================== running lian

def run_lian_p1(scratch, tag, langs, inputs, timeout=1500):
    """Run lang analysis + P1 of the real lian (as it is in $LIAN_REPO now) on `inputs`.
    Returns the workspace directory (…/lian_workspace)."""
    ws = os.path.join(scratch, "ws_" + tag)
    os.makedirs(ws, exist_ok=True)
    cmd = ["/venv/bin/python", os.path.abspath(__file__), "--lian-p1", common.REPO, ws, langs] + list(inputs)
    env = dict(os.environ)
    env["PYTHONPATH"] = os.path.join(common.REPO, "src") + (os.pathsep + env["PYTHONPATH"] if env.get("PYTHONPATH") else "")
    p = subprocess.run(cmd, capture_output=True, text=True, timeout=timeout, cwd=scratch, env=env)
    out = os.path.join(ws, "lian_workspace")
    if p.returncode != 0 or not glob.glob(os.path.join(out, "semantic_p1", "s2space_p1.bundle*")):
        raise LianRunError(f"lian P1 run failed (rc={p.returncode}): {(p.stdout + p.stderr)[-1500:]}")
    return out


class LianRunError(RuntimeError):
    pass


def _read_bundles(out, rel):
    import pandas as pd
    files = glob.glob(os.path.join(out, rel + ".bundle*"))
    files.sort(key=lambda f: int(f.rsplit("bundle", 1)[1]))
    if not files:
        return None
    return pd.concat([pd.read_feather(f) for f in files], ignore_index=True)


def _nan(x):
    return x is None or (isinstance(x, float) and x != x)


def _optint(x):
    if _nan(x):
        return None
    if isinstance(x, str):
        return None
    if float(x) != int(x):
        raise ValueError(f"non-integral id {x!r}")
    return int(x)


def _optstr(x):
    if _nan(x):
        return None
    return str(x)


class Workspace:
    """Everything C05 reads from one lian workspace, grouped per unit."""

    def __init__(self, out):
        import pandas as pd
        self.out = out
        gir = _read_bundles(out, "frontend/gir")
        cols = set(gir.columns)
        self.units = {}          # unit_id -> list of row dicts (table order)
        self.row_by_id = {}      # stmt_id -> first row dict
        recs = gir.to_dict("records")
        for r in recs:
            d = {"op": r["operation"], "id": int(r["stmt_id"]), "parent": int(r["parent_stmt_id"]),
                 "unit": int(r["unit_id"])}
            for k in ("name", "alias", "attrs", "target", "source", "default_value"):
                d[k] = _optstr(r[k]) if k in cols else None
            for k in ("fields", "methods", "nested", "parameters", "init_body", "body", "start_row"):
                d[k] = _optint(r[k]) if k in cols else None
            self.units.setdefault(d["unit"], []).append(d)
            if d["id"] not in self.row_by_id:
                self.row_by_id[d["id"]] = d
        mods = pd.read_feather(os.path.join(out, "frontend", "module_symbols"))
        self.unit_path = {}
        self.unit_lang = {}
        self.unit_extern = {}
        for r in mods.to_dict("records"):
            if not _nan(r.get("unit_id")):
                self.unit_path[int(r["module_id"])] = str(r["unit_path"])
                self.unit_lang[int(r["module_id"])] = str(r["lang"])
                self.unit_extern[int(r["module_id"])] = bool(r["is_extern"])
        self.module_ids = {int(r["module_id"]): r for r in mods.to_dict("records")}

        sh = _read_bundles(out, "semantic_p1/scope_hierarchy")
        self.scope_rows = {}     # unit -> [(stmt, scope, parent, kind)]
        for r in sh.to_dict("records"):
            self.scope_rows.setdefault(int(r["unit_id"]), []).append(
                (int(r["stmt_id"]), int(r["scope_id"]), int(r["parent_stmt_id"]), int(r["scope_kind"])))
        av = _read_bundles(out, "semantic_p1/scope_to_available_scope_ids")
        self.avail = {}          # unit -> {scope: sorted ids}
        for r in av.to_dict("records"):
            self.avail.setdefault(int(r["unit_id"]), {})[int(r["scope_id"])] = sorted(int(x) for x in r["available_scope_ids"])
        si = _read_bundles(out, "semantic_p1/scope_to_symbol_info")
        self.symbol_info = {}    # unit -> {scope: {name: stmt}}
        if si is not None:
            for r in si.to_dict("records"):
                self.symbol_info.setdefault(int(r["unit_id"]), {})[int(r["scope_id"])] = {
                    str(n): int(s) for n, s in zip(r["symbol_names"], r["symbol_stmt_ids"])}
        ns = _read_bundles(out, "semantic_p1/symbol_name_to_scope_ids")
        self.name_scopes = {}    # unit -> {name: sorted scopes}
        if ns is not None:
            for r in ns.to_dict("records"):
                self.name_scopes.setdefault(int(r["unit_id"]), {})[str(r["symbol_name"])] = sorted(int(x) for x in r["scope_ids"])
        ss = pd.read_feather(os.path.join(out, "semantic_p1", "stmt_id_to_scope_id"))
        self.stmt_scope = {int(a): int(b) for a, b in zip(ss["stmt_id"], ss["scope_id"])}
        s2 = _read_bundles(out, "semantic_p1/s2space_p1")
        self.stmt_method = {}    # stmt -> method whose def-use pass analysed it
        self.method_order = {}   # unit -> method ids in the order their results were saved (= analysed)
        for mid_, st_ in zip(s2["method_id"], s2["stmt_id"]):
            st = self.row_by_id.get(int(st_))
            if st is None:
                continue
            self.stmt_method.setdefault(int(st_), int(mid_))
            order = self.method_order.setdefault(st["unit"], [])
            if int(mid_) not in order:
                order.append(int(mid_))
        s2 = s2[s2["symbol_or_state"] == 0]
        self.symbols = {}        # unit -> [(stmt, name, symbol_id, source_unit)]
        for r in s2[["stmt_id", "name", "symbol_id", "source_unit_id"]].to_dict("records"):
            st = self.row_by_id.get(int(r["stmt_id"]))
            if st is None:
                continue
            self.symbols.setdefault(st["unit"], []).append(
                (int(r["stmt_id"]), str(r["name"]), int(r["symbol_id"]),
                 None if _nan(r["source_unit_id"]) else int(r["source_unit_id"])))


# ====================================================================== live parameters

def live_params():
    """Operation classes and kind numbering, read from the live modules (never copied)."""
    from lian.config import constants as C
    ops = {"import": sorted(C.IMPORT_OPERATION), "var": sorted(C.VARIABLE_DECL_OPERATION),
           "case": sorted(C.CASE_AS_OPERATION), "param": sorted(C.PARAMETER_DECL_OPERATION),
           "export": sorted(C.EXPORT_STMT_OPERATION), "method": sorted(C.METHOD_DECL_OPERATION),
           "for": sorted(C.FOR_STMT_OPERATION), "with": sorted(C.WITH_STMT_OPERATION),
           "class": sorted(C.CLASS_DECL_OPERATION), "ns": sorted(C.NAMESPACE_DECL_OPERATION)}
    kinds = {}
    for k in ("UNIT_KIND", "PACKAGE_STMT", "IMPORT_STMT", "VARIABLE_DECL", "PARAMETER_DECL", "EXPORT_STMT",
              "METHOD_KIND", "FOR_KIND", "WITH_KIND", "CLASS_KIND", "NAMESPACE_KIND", "BLOCK_KIND"):
        kinds[int(getattr(C.LIAN_SYMBOL_KIND, k))] = k
    return ops, kinds


DECL_OPS_CACHE = {}


def decl_ops(ops):
    key = id(ops)
    if key not in DECL_OPS_CACHE:
        DECL_OPS_CACHE[key] = set(ops["var"]) | set(ops["param"]) | set(ops["method"]) | set(ops["class"]) | set(ops["ns"])
    return DECL_OPS_CACHE[key]


# ====================================================================== model requests

def unit_queries(wsp, unit, ops):
    """The occurrences of `unit` whose symbol_id comes from the resolver, with the mode the def-use
    pass uses. Returns [(stmt, name, mode, real_symbol_id, real_source_unit)]."""
    res = []
    dops = decl_ops(ops)
    imports = set(ops["import"])
    for stmt, name, sid, su in wsp.symbols.get(unit, []):
        if name.startswith(INTERNAL_PREFIX) or name in ("this", "object"):
            continue
        row = wsp.row_by_id[stmt]
        op = row["op"]
        if op in imports or op in ("export_stmt",):
            continue                      # symbol ids of import statements come from the import graph
        if op in dops and row["name"] == name:
            mode = "decl"
        elif op == "global_stmt":
            mode = "global"
        else:
            mode = "use"
        res.append((stmt, name, mode, sid, su))
    return res


def scopes_request(wsp, unit, ops, queries):
    rows = [[r["op"], r["id"], r["parent"], r["name"], r["alias"], r["fields"], r["methods"], r["nested"],
             r["parameters"], r["init_body"], r["body"]] for r in wsp.units[unit]]
    return {"m": "scopes", "ops": ops, "rows": rows, "variant": os.environ.get("C05_MODEL_VARIANT", "current"),
            "queries": [[s, n, m] for s, n, m, _, _ in queries if m != "decl"]}


def resolver_request(wsp, unit, kinds, queries):
    """Summary tables as lian saved them -> request for the resolver model."""
    kind_of = {s: kinds.get(k, str(k)) for s, _, _, k in wsp.scope_rows.get(unit, [])}
    decls = []
    for scope, m in sorted(wsp.symbol_info.get(unit, {}).items()):
        for n, s in m.items():
            decls.append([n, scope, s, kind_of.get(s) == "IMPORT_STMT"])
    implicit = [s for s, sc, _, k in wsp.scope_rows.get(unit, []) if sc == 0 and kinds.get(k) == "BLOCK_KIND"]
    stmts = sorted({s for s, _, m, _, _ in queries if m != "decl"})
    ss = []
    scope_of = {s: sc for s, sc, _, _ in wsp.scope_rows.get(unit, [])}
    for s in stmts:
        v = wsp.stmt_scope.get(s, -1)
        if v == -1 and s > 0 and s in scope_of:
            v = scope_of[s]
        ss.append([s, v])
    return {"m": "resolver", "decls": decls,
            "avail": [[k, v] for k, v in sorted(wsp.avail.get(unit, {}).items())],
            "implicit": implicit, "stmt_scope": ss,
            "queries": [[s, n, m] for s, n, m, _, _ in queries if m != "decl"]}


def canon_real(sid):
    return sid if sid > 0 else None


def compare_unit(wsp, unit, ops, kinds, queries, rep_s, rep_r):
    """Diff every table of one unit. Returns list of difference dicts (empty = equal)."""
    diffs = []

    def d(what, real, model):
        diffs.append({"table": what, "unit": unit, "path": wsp.unit_path.get(unit), "real": real, "model": model})

    real_recs = [[s, sc, p, kinds.get(k, str(k))] for s, sc, p, k in wsp.scope_rows.get(unit, [])]
    if real_recs != rep_s["recs"]:
        bad = next((i for i, (a, b) in enumerate(zip(real_recs, rep_s["recs"])) if a != b), min(len(real_recs), len(rep_s["recs"])))
        d("scope_hierarchy", real_recs[bad:bad + 3], rep_s["recs"][bad:bad + 3])
    ids = {r["id"] for r in wsp.units[unit]}
    real_cache = {s: v for s, v in wsp.stmt_scope.items() if s in ids}
    model_cache = {s: v for s, v in rep_s["cache"]}
    if real_cache != model_cache:
        keys = sorted(k for k in set(real_cache) | set(model_cache) if real_cache.get(k) != model_cache.get(k))[:5]
        d("stmt_id_to_scope_id", {k: real_cache.get(k) for k in keys}, {k: model_cache.get(k) for k in keys})
    real_av = wsp.avail.get(unit, {})
    model_av = {k: v for k, v in rep_s["avail"]}
    if real_av != model_av:
        keys = sorted(k for k in set(real_av) | set(model_av) if real_av.get(k) != model_av.get(k))[:5]
        d("scope_to_available_scope_ids", {k: real_av.get(k) for k in keys}, {k: model_av.get(k) for k in keys})
    if not rep_s["closure_ok"]:
        d("closure_fuel", "terminated", "model ran out of fuel")
    if not rep_s["ops_default"]:
        d("operation_classes", ops, "differ from LianVerif.Scopes.defaultOps (the witness theorems are stated for those)")
    m_info, m_ns = {}, {}
    for n, sc, s, _ in rep_s["decls"]:
        m_info.setdefault(sc, {})[n] = s
        m_ns.setdefault(n, set()).add(sc)
    m_ns = {n: sorted(v) for n, v in m_ns.items()}
    if wsp.symbol_info.get(unit, {}) != m_info:
        d("scope_to_symbol_info", wsp.symbol_info.get(unit, {}), m_info)
    real_ns = {n: v for n, v in wsp.name_scopes.get(unit, {}).items() if n != ""}
    if real_ns != m_ns:
        keys = sorted(k for k in set(real_ns) | set(m_ns) if real_ns.get(k) != m_ns.get(k))[:5]
        d("symbol_name_to_scope_ids", {k: real_ns.get(k) for k in keys}, {k: m_ns.get(k) for k in keys})
    real_impl = sorted(s for s, sc, _, k in wsp.scope_rows.get(unit, []) if sc == 0 and kinds.get(k) == "BLOCK_KIND")
    if real_impl != sorted(rep_s["implicit"]):
        d("implicit_roots", real_impl, rep_s["implicit"])
    # bindings
    qi = 0
    for stmt, name, mode, sid, su in queries:
        if mode == "decl":
            if sid != stmt:
                d("binding(decl)", [stmt, name, sid], [stmt, name, stmt])
            continue
        for which, rep in (("scopes", rep_s), ("resolver", rep_r)):
            b = rep["bind"][qi]
            real = canon_real(sid)
            if b is None:
                ok = real is None
            elif b[1]:          # nearest declaration is an import statement: redirected through the import graph
                ok = (real == b[0] and su == -1) or (real is not None and su is not None and su != unit) \
                     or (real is None)
            else:
                ok = real == b[0]
            if not ok:
                d(f"binding({which})", [stmt, name, mode, sid, su], b)
        qi += 1
    return diffs


# ====================================================================== Python programs (trees)
# A program is a JSON-able tree: list of statements; see `py_render`.

PY_VARS = ["a", "b", "c", "x", "y", "z"]
PYKIND = {"assign": "var", "def": "func", "class": "class", "param": "param", "import": "import"}
JSKIND = {"var": "var", "let": "var", "const": "var", "param": "param", "func": "func"}
OPKIND = {"variable_decl": "var", "parameter_decl": "param", "method_decl": "func", "class_decl": "class",
          "import_stmt": "import", "from_import_stmt": "import"}


class PyGen:
    """Scope-heavy Python programs: nested functions, classes with fields/methods/nested classes,
    shadowing, global/nonlocal, parameters shadowing globals, assignments inside nested blocks,
    (rarely) def/class inside nested blocks."""

    def __init__(self, rng, max_depth=3, imports=None, budget=45):
        self.rng = rng
        self.max_depth = max_depth
        self.budget = budget              # total number of statements still to be produced
        self.nest = 0                     # current nesting of compound statements (any kind)
        self.nf = 0
        self.nc = 0
        self.funcs = []
        self.imports = imports or []      # names made available by import lines (multi-file projects)

    def name(self):
        r = self.rng
        if self.imports and r.random() < 0.25:
            return r.choice(self.imports)
        if self.funcs and r.random() < 0.15:
            return r.choice(self.funcs)
        return r.choice(PY_VARS)

    def expr(self):
        r = self.rng
        k = r.random()
        if k < 0.35:
            return {"k": "name", "n": self.name()}
        if k < 0.5:
            return {"k": "const", "v": r.randint(0, 9)}
        if k < 0.8:
            return {"k": "bin", "l": self.name(), "r": self.name() if r.random() < 0.6 else r.randint(0, 9)}
        return {"k": "call", "f": r.choice(self.funcs) if self.funcs and r.random() < 0.7 else self.name(),
                "args": [self.name() for _ in range(r.randint(0, 2))]}

    def block(self, depth, n, ctx, in_block):
        """ctx: dict(kind=module|function|class, bound=set of names bound so far in the enclosing
        FUNCTION scopes (list of sets, innermost last), params=set)."""
        self.nest += 1
        res = [self.stmt(depth, ctx, in_block) for _ in range(max(1, min(n, self.budget)))]
        self.nest -= 1
        return res

    def stmt(self, depth, ctx, in_block):
        r = self.rng
        self.budget -= 1
        kinds = [("assign", 30), ("use", 18)]
        if self.nest < 5 and self.budget > 2:
            kinds += [("if", 9), ("while", 3), ("for", 6), ("try", 3), ("with", 3)]
        if ctx["kind"] == "function":
            kinds.append(("ret", 5))
        if depth < self.max_depth and self.nest < 6 and self.budget > 3:
            kinds.append(("def", 4 if in_block else 14))
            kinds.append(("class", 1 if in_block else 6))
        tot = sum(w for _, w in kinds)
        x = r.uniform(0, tot)
        for k, w in kinds:
            x -= w
            if x <= 0:
                break
        if k == "assign":
            t = r.choice(PY_VARS)
            ctx["bound"][-1].add(t)
            return {"k": "assign", "t": t, "e": self.expr()}
        if k == "use":
            return {"k": "use", "names": [self.name() for _ in range(r.randint(1, 3))]}
        if k == "ret":
            return {"k": "ret", "e": self.expr()}
        if k == "if":
            s = {"k": "if", "c": self.name(), "body": self.block(depth, r.randint(1, 3), ctx, True), "else": []}
            if r.random() < 0.4:
                s["else"] = self.block(depth, r.randint(1, 2), ctx, True)
            return s
        if k == "while":
            return {"k": "while", "c": self.name(), "body": self.block(depth, r.randint(1, 3), ctx, True)}
        if k == "for":
            t = r.choice(PY_VARS)
            ctx["bound"][-1].add(t)
            return {"k": "for", "t": t, "it": self.name(), "body": self.block(depth, r.randint(1, 3), ctx, True)}
        if k == "try":
            return {"k": "try", "body": self.block(depth, r.randint(1, 2), ctx, True),
                    "handler": self.block(depth, r.randint(1, 2), ctx, True)}
        if k == "with":
            t = r.choice(PY_VARS)
            ctx["bound"][-1].add(t)
            return {"k": "with", "e": self.name(), "as": t, "body": self.block(depth, r.randint(1, 2), ctx, True)}
        if k == "def":
            return self.funcdef(depth, ctx)
        return self.classdef(depth, ctx)

    def funcdef(self, depth, ctx, method=False):
        r = self.rng
        self.nf += 1
        name = f"f{self.nf}" if r.random() < 0.85 else r.choice(PY_VARS)
        if name.startswith("f"):
            self.funcs.append(name)
        ctx["bound"][-1].add(name)
        params = (["self"] if method else []) + r.sample(PY_VARS, r.randint(0, 2))
        body = []
        declared = set()
        enclosing = set()
        for s in ctx["fbound"]:
            enclosing |= s
        if r.random() < 0.3:
            g = [n for n in r.sample(PY_VARS, r.randint(1, 2)) if n not in params]
            if g:
                body.append({"k": "global", "names": g})
                declared |= set(g)
        cand = sorted(n for n in enclosing if n not in params and n not in declared and n in PY_VARS)
        if cand and r.random() < 0.35:
            nl = r.sample(cand, min(len(cand), r.randint(1, 2)))
            body.append({"k": "nonlocal", "names": nl})
        mine = set(params)
        nctx = {"kind": "function", "bound": [mine], "fbound": ctx["fbound"] + [mine]}
        body += self.block(depth + 1, r.randint(2, 5), nctx, False)
        return {"k": "def", "name": name, "params": params, "body": body}

    def classdef(self, depth, ctx):
        r = self.rng
        self.nc += 1
        name = f"C{self.nc}"
        ctx["bound"][-1].add(name)
        body = []
        mine = set()
        cctx = {"kind": "class", "bound": [mine], "fbound": ctx["fbound"]}
        self.nest += 1
        for _ in range(r.randint(2, 5)):
            self.budget -= 1
            k = r.random()
            if k < 0.45:
                t = r.choice(PY_VARS)
                mine.add(t)
                body.append({"k": "assign", "t": t, "e": self.expr()})
            elif k < 0.85:
                body.append(self.funcdef(depth, cctx, method=True))
            elif k < 0.93 and depth + 1 < self.max_depth:
                body.append(self.classdef(depth + 1, cctx))
            else:
                body.append({"k": "use", "names": [self.name()]})
        self.nest -= 1
        return {"k": "class", "name": name, "body": body}

    def module(self, n=None):
        mine = set()
        ctx = {"kind": "module", "bound": [mine], "fbound": []}
        res = []
        self.nest = 0
        while self.budget > 0 and len(res) < (n or 12):
            res.append(self.stmt(0, ctx, False))
        return res


def py_expr(e):
    k = e["k"]
    if k == "name":
        return e["n"]
    if k == "const":
        return str(e["v"])
    if k == "bin":
        return f"{e['l']} + {e['r']}"
    return f"{e['f']}({', '.join(e['args'])})"


def py_render(stmts, ind=0, out=None):
    """One statement per line; returns list of lines."""
    out = [] if out is None else out
    pad = "    " * ind
    if not stmts:
        out.append(pad + "pass")
    for s in stmts:
        k = s["k"]
        if k == "assign":
            out.append(f"{pad}{s['t']} = {py_expr(s['e'])}")
        elif k == "use":
            out.append(f"{pad}sink({', '.join(s['names'])})")
        elif k == "ret":
            out.append(f"{pad}return {py_expr(s['e'])}")
        elif k == "if":
            out.append(f"{pad}if {s['c']}:")
            py_render(s["body"], ind + 1, out)
            if s.get("else"):
                out.append(f"{pad}else:")
                py_render(s["else"], ind + 1, out)
        elif k == "while":
            out.append(f"{pad}while {s['c']}:")
            py_render(s["body"], ind + 1, out)
        elif k == "for":
            out.append(f"{pad}for {s['t']} in {s['it']}:")
            py_render(s["body"], ind + 1, out)
        elif k == "try":
            out.append(f"{pad}try:")
            py_render(s["body"], ind + 1, out)
            out.append(f"{pad}except Exception:")
            py_render(s["handler"], ind + 1, out)
        elif k == "with":
            out.append(f"{pad}with {s['e']} as {s['as']}:")
            py_render(s["body"], ind + 1, out)
        elif k == "def":
            out.append(f"{pad}def {s['name']}({', '.join(s['params'])}):")
            py_render(s["body"], ind + 1, out)
        elif k == "class":
            out.append(f"{pad}class {s['name']}:")
            py_render(s["body"], ind + 1, out)
        elif k == "global":
            out.append(f"{pad}global {', '.join(s['names'])}")
        elif k == "nonlocal":
            out.append(f"{pad}nonlocal {', '.join(s['names'])}")
        elif k in ("raw", "imp"):
            out.append(pad + s["text"])
        elif k == "tryf":
            out.append(f"{pad}try:")
            py_render(s["body"], ind + 1, out)
            out.append(f"{pad}except Exception:")
            py_render(s["handler"], ind + 1, out)
            out.append(f"{pad}finally:")
            py_render(s["final"], ind + 1, out)
        else:
            raise ValueError(k)
    return out


def py_source(stmts):
    return "\n".join(py_render(stmts)) + "\n"


def py_valid(src):
    try:
        symtable.symtable(src, "m.py", "exec")
        return True
    except SyntaxError:
        return False


# ====================================================================== Python oracle (symtable + ast)

class PyOracle:
    """Expected binding of every identifier occurrence of one module, from CPython's own symbol
    tables. Independent of lian and of the Lean model.

    occ[(line, name)] = None (no declaration visible in this file: unresolved / builtin)
                      | {"owner": scope key, "decls": [(binding line, kind, inside a nested block?,
                                                        bound in another scope under `global`?)]}
    scope key = ("module", 0) | ("function", def line) | ("class", class line)
    """

    def __init__(self, src):
        self.src = src
        self.tree = ast.parse(src)
        top = symtable.symtable(src, "m.py", "exec")
        self.tab = {}            # key -> symtable
        self.parent = {}         # key -> parent key
        self._tabs(top, None)
        self.binds = {}          # key -> name -> set(lines)
        self.kind_of_bind = {}   # (key, name, line) -> 'assign'|'def'|'class'|'import'|'param'
        self.in_block = {}       # (key, line) -> True when the binding statement sits in a nested block of its scope
        self.uses = []           # (line, name, key)
        self.globals_decl = {}   # key -> set(names declared global)
        self.scope_lines = {}    # key -> (first line, last line)
        self._walk(self.tree.body, ("module", 0), False)
        self.occ = {}
        for line, name, key in self.uses:
            self.occ[(line, name)] = self.expected(key, name)
        self.scope_at = {}
        for line, name, key in self.uses:
            self.scope_at[(line, name)] = key

    def _key(self, t):
        ty = t.get_type()
        ty = getattr(ty, "value", ty)
        if ty == "module":
            return ("module", 0)
        return (str(ty), t.get_lineno())

    def _tabs(self, t, parent):
        k = self._key(t)
        self.tab[k] = t
        self.parent[k] = parent
        for c in t.get_children():
            self._tabs(c, k)

    def _bind(self, key, name, line, kind, in_block):
        self.binds.setdefault(key, {}).setdefault(name, set()).add(line)
        self.kind_of_bind[(key, name, line)] = kind
        self.in_block[(key, name, line)] = in_block
        self.uses.append((line, name, key))

    def _names(self, node, key, in_block):
        for n in ast.walk(node):
            if isinstance(n, ast.Name):
                if isinstance(n.ctx, ast.Store):
                    self._bind(key, n.id, n.lineno, "assign", in_block)
                else:
                    self.uses.append((n.lineno, n.id, key))

    def _walk(self, body, key, in_block):
        for s in body:
            if isinstance(s, (ast.FunctionDef, ast.AsyncFunctionDef)):
                self._bind(key, s.name, s.lineno, "def", in_block)
                fk = ("function", s.lineno)
                self.scope_lines[fk] = (s.lineno, s.end_lineno)
                for a in s.args.posonlyargs + s.args.args + s.args.kwonlyargs:
                    self._bind(fk, a.arg, a.lineno, "param", False)
                self._walk(s.body, fk, False)
            elif isinstance(s, ast.ClassDef):
                self._bind(key, s.name, s.lineno, "class", in_block)
                ck = ("class", s.lineno)
                self.scope_lines[ck] = (s.lineno, s.end_lineno)
                self._walk(s.body, ck, False)
            elif isinstance(s, ast.Global):
                self.globals_decl.setdefault(key, set()).update(s.names)
                for n in s.names:
                    self.uses.append((s.lineno, n, key))
            elif isinstance(s, ast.Nonlocal):
                for n in s.names:
                    self.uses.append((s.lineno, n, key))
            elif isinstance(s, ast.Import):
                for a in s.names:
                    self._bind(key, a.asname or a.name.split(".")[0], s.lineno, "import", in_block)
            elif isinstance(s, ast.ImportFrom):
                for a in s.names:
                    if a.name != "*":
                        self._bind(key, a.asname or a.name, s.lineno, "import", in_block)
            elif isinstance(s, (ast.If, ast.While)):
                self._names(s.test, key, in_block)
                self._walk(s.body, key, True)
                self._walk(s.orelse, key, True)
            elif isinstance(s, ast.For):
                self._names(s.target, key, in_block)
                self._names(s.iter, key, in_block)
                self._walk(s.body, key, True)
                self._walk(s.orelse, key, True)
            elif isinstance(s, ast.Try):
                self._walk(s.body, key, True)
                for h in s.handlers:
                    if h.type is not None:
                        self._names(h.type, key, True)
                    if h.name:
                        self._bind(key, h.name, h.lineno, "assign", True)
                    self._walk(h.body, key, True)
                self._walk(s.orelse, key, True)
                self._walk(s.finalbody, key, True)
            elif isinstance(s, ast.With):
                for it in s.items:
                    self._names(it.context_expr, key, in_block)
                    if it.optional_vars is not None:
                        self._names(it.optional_vars, key, in_block)
                self._walk(s.body, key, True)
            else:
                self._names(s, key, in_block)

    def module_binding(self, name):
        """'strong': bound by a statement of the module itself; 'weak': only bound inside functions
        that declare it `global`; None: not bound in this file."""
        try:
            if self.tab[("module", 0)].lookup(name).is_local():
                return "strong"
        except KeyError:
            pass
        for k, names in self.globals_decl.items():
            if name in names and self.binds.get(k, {}).get(name):
                return "weak"
        return None

    def owner(self, key, name):
        """The scope whose variable `name` denotes when used in scope `key` (None: not bound in this file)."""
        t = self.tab[key]
        try:
            sym = t.lookup(name)
        except KeyError:
            return None
        if key == ("module", 0):
            return key if self.module_binding(name) else None
        if sym.is_global():
            return ("module", 0) if self.module_binding(name) else None
        if sym.is_free():
            p = self.parent[key]
            while p is not None and p != ("module", 0):
                if p[0] == "function":
                    try:
                        ps = self.tab[p].lookup(name)
                        if ps.is_local() and not ps.is_free():
                            return p
                    except KeyError:
                        pass
                p = self.parent[p]
            return None
        if sym.is_local():
            return key
        return None

    def expected(self, key, name):
        o = self.owner(key, name)
        if o is None:
            return None
        decls = set()
        for k2, m in self.binds.items():
            if name in m and self.owner(k2, name) == o:
                for l in m[name]:
                    decls.add((l, PYKIND[self.kind_of_bind[(k2, name, l)]], bool(self.in_block[(k2, name, l)]),
                               k2 != o))
        res = {"owner": list(o), "decls": sorted(decls)}
        if o == ("module", 0) and self.module_binding(name) == "weak":
            # a module variable that only functions create (`global n; n = …`): lian drops those
            # declarations, "unresolved" is accepted as well
            res["weak"] = True
        return res


# ====================================================================== JavaScript programs (trees)

JS_VARS = ["a", "b", "c", "v", "w", "x"]


class JsGen:
    """Scope-heavy JavaScript: nested function declarations (closures), parameters, `var` in nested
    blocks (function-scoped), `let`/`const` in nested blocks (block-scoped), `for (let|var …)`,
    bare blocks, assignments to declared, closure and undeclared names.  Only programs without
    early errors are produced (no duplicate lexical declarations, no let/var clashes)."""

    def __init__(self, rng, max_depth=3, budget=45):
        self.rng = rng
        self.max_depth = max_depth
        self.budget = budget
        self.nest = 0
        self.nf = 0
        self.funcs = []

    def name(self):
        r = self.rng
        if self.funcs and r.random() < 0.12:
            return r.choice(self.funcs)
        return r.choice(JS_VARS)

    def expr(self):
        r = self.rng
        k = r.random()
        if k < 0.35:
            return {"k": "name", "n": self.name()}
        if k < 0.5:
            return {"k": "const", "v": r.randint(0, 9)}
        if k < 0.8:
            return {"k": "bin", "l": self.name(), "r": self.name() if r.random() < 0.6 else r.randint(0, 9)}
        return {"k": "call", "f": r.choice(self.funcs) if self.funcs and r.random() < 0.7 else self.name(),
                "args": [self.name() for _ in range(r.randint(0, 2))]}

    # fn = {"vars": set (params, var, function names of this function), "lex_chain": [set, …] block chain}
    def can_lex(self, n, fn, blk):
        return n not in blk["lex"] and n not in blk["vars_sub"] and not (blk is fn["body"] and n in fn["vars"]) \
            and n not in blk.get("used", ())

    def mark(self, chain, *names):
        """names used so far in each open block of the current function (a later let/const of such a
        name in that block would put the use in its temporal dead zone)"""
        for b in chain:
            b.setdefault("used", set()).update(n for n in names if isinstance(n, str))

    def can_var(self, n, fn, chain):
        return all(n not in b["lex"] for b in chain)

    def stmts(self, depth, n, fn, chain, top):
        self.nest += 1
        res = [s for s in (self.stmt(depth, fn, chain, top) for _ in range(max(1, min(n, self.budget)))) if s is not None]
        self.nest -= 1
        return res

    def stmt(self, depth, fn, chain, top):
        r = self.rng
        blk = chain[-1]
        self.budget -= 1
        kinds = [("decl", 26), ("assign", 14), ("use", 18)]
        if self.nest < 5 and self.budget > 2:
            kinds += [("if", 10), ("while", 3), ("for", 6), ("block", 4)]
        if fn["kind"] == "function":
            kinds.append(("ret", 5))
        if top and depth < self.max_depth and self.budget > 3:
            kinds.append(("func", 16))
        tot = sum(w for _, w in kinds)
        x = r.uniform(0, tot)
        for k, w in kinds:
            x -= w
            if x <= 0:
                break
        if k == "decl":
            kind = r.choice(["let", "let", "const", "var", "var"])
            n = r.choice(JS_VARS)
            if kind == "var":
                if not self.can_var(n, fn, chain):
                    return None
                fn["vars"].add(n)
                for b in chain:
                    b["vars_sub"].add(n)
            else:
                if not self.can_lex(n, fn, blk):
                    return None
            e = self.expr()
            if kind != "var":
                if n in expr_names(e):
                    return None          # `let x = x` is a TDZ error
                blk["lex"].add(n)
            self.mark(chain, n, *expr_names(e))
            return {"k": "decl", "kind": kind, "n": n, "e": e}
        if k == "assign":
            s = {"k": "assign", "t": r.choice(JS_VARS), "e": self.expr()}
            self.mark(chain, s["t"], *expr_names(s["e"]))
            return s
        if k == "use":
            s = {"k": "use", "names": [self.name() for _ in range(r.randint(1, 3))]}
            self.mark(chain, *s["names"])
            return s
        if k == "ret":
            s = {"k": "ret", "e": self.expr()}
            self.mark(chain, *expr_names(s["e"]))
            return s
        if k == "if":
            c = self.name()
            self.mark(chain, c)
            s = {"k": "if", "c": c, "body": self.sub(depth, fn, chain, r.randint(1, 3)), "else": None}
            if r.random() < 0.35:
                s["else"] = self.sub(depth, fn, chain, r.randint(1, 2))
            return s
        if k == "while":
            c = self.name()
            self.mark(chain, c)
            return {"k": "while", "c": c, "body": self.sub(depth, fn, chain, r.randint(1, 3))}
        if k == "block":
            return {"k": "block", "body": self.sub(depth, fn, chain, r.randint(1, 3))}
        if k == "for":
            kind = r.choice(["let", "let", "var"])
            n = r.choice(JS_VARS)
            loop = {"lex": set(), "vars_sub": set()}
            if kind == "var":
                if not self.can_var(n, fn, chain):
                    return None
                fn["vars"].add(n)
                for b in chain:
                    b["vars_sub"].add(n)
            else:
                loop["lex"].add(n)
            body = {"lex": set(), "vars_sub": set()}
            inner = self.stmts(depth, r.randint(1, 3), fn, chain + [loop, body], False)
            for b in chain:
                b["vars_sub"] |= loop["vars_sub"] | body["vars_sub"]
            # a `let` loop variable may not be redeclared by `var` in the body, nor by let directly in it
            return {"k": "for", "kind": kind, "v": n, "body": inner}
        # function declaration (only directly in a function body or at module level)
        self.nf += 1
        name = f"f{self.nf}" if r.random() < 0.85 else r.choice(JS_VARS)
        if not self.can_var(name, fn, chain) or name in blk["lex"]:
            return None
        fn["vars"].add(name)
        for b in chain:
            b["vars_sub"].add(name)
        if name.startswith("f"):
            self.funcs.append(name)
        params = r.sample(JS_VARS, r.randint(0, 2))
        body = {"lex": set(), "vars_sub": set()}
        nfn = {"kind": "function", "vars": set(params), "body": body}
        inner = self.stmts(depth + 1, r.randint(2, 5), nfn, [body], True)
        return {"k": "func", "name": name, "params": params, "body": inner}

    def sub(self, depth, fn, chain, n):
        b = {"lex": set(), "vars_sub": set()}
        inner = self.stmts(depth, n, fn, chain + [b], False)
        for c in chain:
            c["vars_sub"] |= b["vars_sub"]
        return inner

    def module(self, n=None):
        body = {"lex": set(), "vars_sub": set()}
        fn = {"kind": "module", "vars": set(), "body": body}
        res = []
        self.nest = 1
        while self.budget > 0 and len(res) < (n or 14):
            st = self.stmt(0, fn, [body], True)
            if st is not None:
                res.append(st)
        return res


def expr_names(e):
    k = e["k"]
    if k == "name":
        return [e["n"]]
    if k == "bin":
        return [e["l"]] + ([e["r"]] if isinstance(e["r"], str) else [])
    if k == "call":
        return [e["f"]] + list(e["args"])
    return []


def js_expr(e):
    k = e["k"]
    if k == "name":
        return e["n"]
    if k == "const":
        return str(e["v"])
    if k == "bin":
        return f"{e['l']} + {e['r']}"
    return f"{e['f']}({', '.join(e['args'])})"


def js_render(stmts, ind=0, out=None):
    out = [] if out is None else out
    pad = "  " * ind
    for s in stmts:
        k = s["k"]
        if k == "decl":
            out.append(f"{pad}{s['kind']} {s['n']} = {js_expr(s['e'])};")
        elif k == "assign":
            out.append(f"{pad}{s['t']} = {js_expr(s['e'])};")
        elif k == "use":
            out.append(f"{pad}sink({', '.join(s['names'])});")
        elif k == "ret":
            out.append(f"{pad}return {js_expr(s['e'])};")
        elif k == "if":
            out.append(f"{pad}if ({s['c']}) {{")
            js_render(s["body"], ind + 1, out)
            if s.get("else") is not None:
                out.append(f"{pad}}} else {{")
                js_render(s["else"], ind + 1, out)
            out.append(f"{pad}}}")
        elif k == "while":
            out.append(f"{pad}while ({s['c']}) {{")
            js_render(s["body"], ind + 1, out)
            out.append(f"{pad}}}")
        elif k == "block":
            out.append(f"{pad}{{")
            js_render(s["body"], ind + 1, out)
            out.append(f"{pad}}}")
        elif k == "for":
            out.append(f"{pad}for ({s['kind']} {s['v']} = 0; {s['v']} < 3; {s['v']}++) {{")
            js_render(s["body"], ind + 1, out)
            out.append(f"{pad}}}")
        elif k == "func":
            out.append(f"{pad}function {s['name']}({', '.join(s['params'])}) {{")
            js_render(s["body"], ind + 1, out)
            out.append(f"{pad}}}")
        elif k == "raw":
            out.append(pad + s["text"])
        else:
            raise ValueError(k)
    return out


def js_source(stmts):
    return "\n".join(js_render(stmts)) + "\n"


class JsOracle:
    """Expected bindings of a generated JavaScript program, computed from the TREE by the language
    rules: `var`, parameters and function declarations belong to the enclosing function (or the
    script), `let`/`const` to the enclosing block, a `for (let …)` variable to the loop; lookup
    walks blocks outwards, then the function, then the blocks enclosing the function declaration.
    TDZ is ignored (binding is static).  Independent of lian and of the Lean model.

    occ[(line, name)] = None | {"decls": [(declaration line, "var|let|const|param|func"), …]}
    implicit[name] = lines of assignments to `name` with no declaration in scope (sloppy-mode
                     implicit global creation)."""

    def __init__(self, tree):
        self.occ = {}
        self.implicit = {}
        self.declared_assign = {}    # name -> lines of assignments whose target HAS a declaration in scope
        self.assign_sites = {}       # name -> [(line, id of the function scope containing the assignment)]
        self.cur_fn = None
        self.bare = {}               # line of a let/const placed directly in a bare block -> (first, last line of the block)
        self.tdz = False
        self.root_fn = None
        self.line = 0
        self.blocks_at = {}          # line -> chain ids, for matchers
        root_fn = {"decls": {}, "parent": None, "kind": "module"}
        self.root_fn = root_fn
        self._hoist(tree, root_fn, 1)
        self.line = 0
        self._walk(tree, [root_fn, {"decls": {}, "fn": root_fn}], root_fn)

    # ---- pass 1: var / function hoisting (needs line numbers => same traversal order as render)
    def _hoist(self, stmts, fn, line):
        for s in stmts:
            k = s["k"]
            if k in ("decl",):
                if s["kind"] == "var":
                    fn["decls"].setdefault(s["n"], []).append((line, "var"))
                line += 1
            elif k in ("assign", "use", "ret", "raw"):
                line += 1
            elif k == "if":
                line = self._hoist(s["body"], fn, line + 1)
                if s.get("else") is not None:
                    line = self._hoist(s["else"], fn, line + 1)
                line += 1
            elif k in ("while", "block"):
                line = self._hoist(s["body"], fn, line + 1) + 1
            elif k == "for":
                if s["kind"] == "var":
                    fn["decls"].setdefault(s["v"], []).append((line, "var"))
                line = self._hoist(s["body"], fn, line + 1) + 1
            elif k == "func":
                fn["decls"].setdefault(s["name"], []).append((line, "func"))
                sub = {"decls": {p: [(line, "param")] for p in s["params"]}, "parent": fn, "kind": "function"}
                s["_fn"] = sub
                line = self._hoist(s["body"], sub, line + 1) + 1
        return line

    # ---- pass 2: resolve
    def _lookup(self, chain, n):
        """chain: [function-scope, block, block, …, function-scope, block …] innermost LAST."""
        crossed = False
        for sc in reversed(chain):
            if n in sc["decls"]:
                self._found = sc
                return sc["decls"][n], crossed
            if "fn" not in sc and sc.get("kind") == "function":
                crossed = True
        self._found = None
        return None, crossed

    def _occ(self, n, chain, assign=False):
        d, crossed = self._lookup(chain, n)
        self.occ[(self.line, n)] = None if d is None else {"decls": sorted(d), "global_var": self._found is self.root_fn,
                                                           "owner_fn": id(self._found) if "fn" not in self._found else None}
        if d is not None and not crossed and any(k in ("let", "const") and l > self.line for l, k in d):
            self.tdz = True          # use before a let/const of the same function: not a sensible program
        if assign:
            if d is None:
                self.implicit.setdefault(n, []).append(self.line)
            else:
                self.declared_assign.setdefault(n, []).append(self.line)
            self.assign_sites.setdefault(n, []).append((self.line, id(self.cur_fn)))

    def _expr(self, e, chain):
        k = e["k"]
        if k == "name":
            self._occ(e["n"], chain)
        elif k == "bin":
            self._occ(e["l"], chain)
            if isinstance(e["r"], str):
                self._occ(e["r"], chain)
        elif k == "call":
            self._occ(e["f"], chain)
            for a in e["args"]:
                self._occ(a, chain)

    def _walk(self, stmts, chain, fn):
        blk = chain[-1]
        self.cur_fn = fn
        # lexical declarations of this block are visible in the whole block (TDZ ignored)
        line = self.line
        for s in stmts:
            line += 1
            if s["k"] == "decl" and s["kind"] in ("let", "const"):
                blk["decls"][s["n"]] = [(line, s["kind"])]
            line += _js_lines(s) - 1
        for s in stmts:
            self.line += 1
            k = s["k"]
            if k == "decl":
                self._expr(s["e"], chain)
                self._occ(s["n"], chain)
            elif k == "assign":
                self._expr(s["e"], chain)
                self._occ(s["t"], chain, assign=True)
            elif k == "use":
                self._occ("sink", chain)
                for n in s["names"]:
                    self._occ(n, chain)
            elif k == "ret":
                self._expr(s["e"], chain)
            elif k == "if":
                self._occ(s["c"], chain)
                self._walk(s["body"], chain + [{"decls": {}, "fn": fn}], fn)
                if s.get("else") is not None:
                    self.line += 1
                    self._walk(s["else"], chain + [{"decls": {}, "fn": fn}], fn)
                self.line += 1
            elif k == "while":
                self._occ(s["c"], chain)
                self._walk(s["body"], chain + [{"decls": {}, "fn": fn}], fn)
                self.line += 1
            elif k == "block":
                first = self.line
                last = first + _js_lines(s) - 1
                ln = first
                for x in s["body"]:
                    ln += 1
                    if x["k"] == "decl" and x["kind"] in ("let", "const"):
                        self.bare[ln] = (first, last)
                    ln += _js_lines(x) - 1
                self._walk(s["body"], chain + [{"decls": {}, "fn": fn}], fn)
                self.line += 1
            elif k == "for":
                loop = {"decls": {}, "fn": fn}
                if s["kind"] == "let":
                    loop["decls"][s["v"]] = [(self.line, "let")]
                self._occ(s["v"], chain + [loop])
                self._walk(s["body"], chain + [loop, {"decls": {}, "fn": fn}], fn)
                self.line += 1
            elif k == "func":
                sub = s["_fn"]
                self._walk(s["body"], chain + [sub, {"decls": {}, "fn": sub}], sub)
                self.cur_fn = fn
                self.line += 1


def _js_lines(s):
    k = s["k"]
    if k in ("decl", "assign", "use", "ret", "raw"):
        return 1
    if k == "if":
        n = 2 + sum(_js_lines(x) for x in s["body"])
        if s.get("else") is not None:
            n += 1 + sum(_js_lines(x) for x in s["else"])
        return n
    return 2 + sum(_js_lines(x) for x in s["body"])


def js_valid(tree):
    """Early errors of the generated fragment: duplicate let/const in one block; a let/const clashing
    with a `var` declared anywhere in that block's subtree (nested functions excluded), with a function
    declared in the block, or (in a function body) with a parameter; a `var` in the body of a
    `for (let x …)` redeclaring x; `let x = … x …`.  Used for shrink candidates — the generator avoids
    these by construction."""
    ok = [True]

    def block(stmts, params, is_fn_body):
        """returns the var-declared names of the subtree (nested functions excluded)"""
        lex, varsub, fnames = [], set(), set()
        for s in stmts:
            k = s["k"]
            if k == "decl":
                if s["kind"] == "var":
                    varsub.add(s["n"])
                else:
                    if s["n"] in expr_names(s["e"]):
                        ok[0] = False
                    lex.append(s["n"])
            elif k == "if":
                varsub |= block(s["body"], (), False)
                if s.get("else") is not None:
                    varsub |= block(s["else"], (), False)
            elif k in ("while", "block"):
                varsub |= block(s["body"], (), False)
            elif k == "for":
                sub = block(s["body"], (), False)
                if s["kind"] == "let" and s["v"] in sub:
                    ok[0] = False
                if s["kind"] == "var":
                    varsub.add(s["v"])
                varsub |= sub
            elif k == "func":
                fnames.add(s["name"])
                block(s["body"], tuple(s["params"]), True)
        if len(lex) != len(set(lex)) or set(lex) & varsub or set(lex) & fnames or (is_fn_body and set(lex) & set(params)):
            ok[0] = False
        return varsub

    block(tree, (), True)
    return ok[0]


def js_strip(tree):
    """remove oracle annotations before serialising a tree"""
    if isinstance(tree, list):
        return [js_strip(x) for x in tree]
    if isinstance(tree, dict):
        return {k: js_strip(v) for k, v in tree.items() if not k.startswith("_")}
    return tree


# ====================================================================== cases, evaluation, verdicts
# case = {"id", "lang": "python"|"javascript", "files": {relpath: source}, "trees": {relpath: tree},
#         "imports": {relpath: {local name: [target relpath, target name | None]}}   (projects only)}

def make_py_case(cid, tree):
    return {"id": cid, "lang": "python", "files": {"m.py": py_source(tree)}, "trees": {"m.py": tree}}


def make_js_case(cid, tree):
    return {"id": cid, "lang": "javascript", "files": {"m.js": js_source(tree)}, "trees": {"m.js": js_strip(tree)}}


def write_cases(root, cases):
    for c in cases:
        for rel, src in c["files"].items():
            path = os.path.join(root, c["id"], rel)
            os.makedirs(os.path.dirname(path), exist_ok=True)
            with open(path, "w") as f:
                f.write(src)


def unit_index(wsp, root_name):
    """(case id, relpath) -> unit id, from the unit paths of the workspace."""
    idx = {}
    marker = "/src/" + root_name + "/"
    for u, p in wsp.unit_path.items():
        if marker in p:
            rest = p.split(marker, 1)[1]
            cid, rel = rest.split("/", 1)
            idx[(cid, rel)] = u
    # package directories: (case id, "dir/") -> module id
    for mid, r in wsp.module_ids.items():
        p = str(r.get("unit_path"))
        if mid not in wsp.unit_path and marker in p:
            rest = p.split(marker, 1)[1]
            if "/" in rest:
                cid, rel = rest.split("/", 1)
                idx[(cid, rel.rstrip("/") + "/")] = mid
    return idx


def decl_name(row):
    if row["op"] in ("import_stmt", "from_import_stmt", "from_export_stmt"):
        return row["alias"] or (row["name"] or "").split(".")[-1]
    return row["name"]


def real_binding(wsp, sid):
    if sid <= 0:
        return None
    d = wsp.row_by_id.get(sid)
    if d is None:
        return {"symbol": sid, "unit_symbol": sid in wsp.unit_path}
    return {"id": sid, "unit": d["unit"], "line": None if d["start_row"] is None else d["start_row"] + 1,
            "op": d["op"], "kind": OPKIND.get(d["op"], d["op"]), "name": decl_name(d), "attrs": d["attrs"] or "",
            "parent": d["parent"]}


def ancestors(wsp, stmt):
    res = []
    seen = set()
    cur = wsp.row_by_id.get(stmt)
    while cur is not None and cur["parent"] not in seen and cur["parent"] != 0:
        seen.add(cur["parent"])
        res.append(cur["parent"])
        cur = wsp.row_by_id.get(cur["parent"])
    return res


def scope_of_decl(wsp, unit, sid):
    for s, sc, _, _ in wsp.scope_rows.get(unit, []):
        if s == sid:
            return sc
    return None


def judge(lang, oracle, name, exp, real, unit):
    """True when the real binding is what the language selects."""
    if exp is None:
        if real is None:
            return True
        if lang == "javascript" and "id" in real and "global" in real["attrs"] and real["name"] == name \
                and real["unit"] == unit and oracle.implicit.get(name):
            return True      # sloppy mode: assignment to an undeclared name creates the global variable
        return False
    if real is None and exp.get("weak"):
        return True
    if real is None or "id" not in real or real["unit"] != unit or real["name"] != name:
        return False
    if lang == "javascript" and exp.get("global_var") and "global" in real["attrs"] and real["kind"] == "var" \
            and all(d[1] == "var" for d in exp["decls"]):
        # a script-level `var` is a property of the global object, exactly what the frontend's
        # synthetic `global` declaration (emitted for an earlier script-level assignment) stands for
        return wsp_parent_is_root(real)
    # a Python assignment made under a `global` declaration in some function is a binding line of the
    # module variable, but it must not be a declaration row (lian drops those on purpose): only
    # def/class/import statements made under `global` are acceptable declaration sites
    return any(real["line"] == d[0] and real["kind"] == JSKIND.get(d[1], d[1])
               and not (len(d) > 3 and d[3] and d[1] == "var") for d in exp["decls"])


def wsp_parent_is_root(real):
    return real.get("parent") == 0


def classify(wsp, unit, lang, oracle, stmt, line, name, exp, real):
    """Narrow matchers of the OPEN known findings (ids of known_findings.json). Returns a finding id
    or None; None means the mis-binding is reported as a VIOLATION."""
    in_unit = real is not None and "id" in real and real["unit"] == unit
    dscope = scope_of_decl(wsp, unit, real["id"]) if in_unit else None       # lian scope of the real declaration
    implicit_roots = {s for s, sc, _, k in wsp.scope_rows.get(unit, []) if sc == 0 and k == KIND_BLOCK[0]}
    leaks_from_root_block = in_unit and dscope in implicit_roots and dscope not in ancestors(wsp, stmt)
    if lang == "python":
        return classify_py(wsp, unit, oracle, stmt, line, name, exp, real, in_unit, dscope, leaks_from_root_block)
    return classify_js(wsp, unit, oracle, stmt, line, name, exp, real, in_unit, dscope, leaks_from_root_block)


def classify_py(wsp, unit, oracle, stmt, line, name, exp, real, in_unit, dscope, leaks_from_root_block):
    key = oracle.scope_at.get((line, name))
    # K2: a function G on the scope path of the occurrence (the function itself or an enclosing one)
    # declares `global name`, a scope enclosing G binds the same name, and the occurrence is bound to
    # that outer binding instead of the module's.
    if key is not None and in_unit and (exp is None or exp["owner"] == ["module", 0]):
        p = key
        seen_global = False
        while p is not None and p != ("module", 0):
            if seen_global and real["line"] in oracle.binds.get(p, {}).get(name, set()):
                return "C05/py-global-decl-ignored-by-uses"
            if name in oracle.globals_decl.get(p, set()):
                seen_global = True
            p = oracle.parent.get(p)
    # K1: bound to a member (field / method / nested class) of a class C although the occurrence sits
    # in a function or class nested INSIDE C (Python skips class scopes there).
    drow = wsp.row_by_id.get(dscope) if dscope else None
    if drow is not None and drow["op"] == "class_decl":
        inner = None
        for a in ancestors(wsp, stmt):
            r = wsp.row_by_id.get(a)
            if r and r["op"] in ("method_decl", "class_decl") and not (r["name"] or "").startswith("%"):
                inner = a
                break
        if inner is not None and inner != dscope and dscope in ancestors(wsp, inner):
            return "C05/py-class-scope-visible-from-nested-scopes"
    # K4: bound to a def/class/import placed in a top-level block (an "implicit root scope", visible
    # everywhere and preferred by the max-id rule when it comes later in the file) although a
    # function/class-local binding of the same name is the one Python selects.
    if leaks_from_root_block and exp is not None and exp["owner"] != ["module", 0]:
        return "C05/py-toplevel-block-def-shadows-locals"
    # K3: the only bindings of the expected variable in its owner scope are def / class / import
    # statements placed inside a nested block (if/for/while/try/with): lian keeps them block-scoped.
    own = [d for d in exp["decls"] if not d[3]] if exp is not None else []
    if own and all(d[1] in ("func", "class", "import") and d[2] for d in own):
        # … and the occurrence is OUTSIDE every block that holds one of these statements (inside the
        # block the declaration is visible to lian as well: a failure there is something else)
        # (a `global` statement consults the unit root only: block-scoped there wherever it stands)
        anc = set() if wsp.row_by_id[stmt]["op"] == "global_stmt" else set(ancestors(wsp, stmt))
        holders = [r["parent"] for r in wsp.units[unit]
                   if r["start_row"] is not None and OPKIND.get(r["op"]) in ("func", "class", "import")
                   and any(r["start_row"] + 1 == d[0] and OPKIND[r["op"]] == d[1] for d in own)
                   and (decl_name(r) == name)]
        if holders and not any(h in anc for h in holders):
            return "C05/py-def-in-nested-block-is-block-scoped"
    return None


def classify_js(wsp, unit, oracle, stmt, line, name, exp, real, in_unit, dscope, leaks_from_root_block):
    # J2: bound to a declaration living in a top-level block (an "implicit root scope") although the
    # occurrence is outside that block.
    if leaks_from_root_block:
        return "C05/js-toplevel-block-declarations-leak"
    rows = wsp.units[unit]

    def decl_row(l):
        return next((r for r in rows if r["op"] == "variable_decl" and r["name"] == name and r["start_row"] == l - 1), None)

    if exp is not None:
        edecls = [tuple(d) for d in exp["decls"]]
        dropped = not any(decl_row(d[0]) is not None for d in edecls)
        # J9: inside a function an assignment to the NAME `n` (whatever it is bound to at that point)
        # textually precedes the function's first `var n`; the frontend has by then emitted a synthetic
        # global declaration and marked `n` as declared, so the function-level `var` declaration is
        # dropped and `n` resolves outside the function.
        if dropped and not exp.get("global_var") and all(d[1] == "var" for d in edecls) and exp.get("owner_fn") and \
                any(fnid == exp["owner_fn"] and l < min(d[0] for d in edecls)
                    for l, fnid in oracle.assign_sites.get(name, [])):
            return "C05/js-assignment-before-var-drops-the-var"
        # J10 (third form): the expected `var` declaration was dropped as a duplicate of a let/const of
        # the same name that sits, earlier, directly in a bare block — in JavaScript that let/const has
        # ended with its block, but the frontend inlined the block so the name is still marked.
        if dropped and all(d[1] == "var" for d in edecls) and \
                any(l < min(d[0] for d in edecls) and decl_row(l) is not None for l in oracle.bare):
            return "C05/js-bare-block-is-not-a-scope"
        # J11: a let/const that shadows a let/const of the same name declared EARLIER (an enclosing
        # block of the same function: the `variables` dict is shared with enclosing blocks) is dropped
        # as a "duplicate"; the inner occurrences are bound to whatever the enclosing scopes offer.
        if dropped and len(edecls) == 1 and edecls[0][1] in ("let", "const") and \
                any(r["op"] == "variable_decl" and r["name"] == name and r["start_row"] is not None
                    and r["start_row"] + 1 < edecls[0][0] and ("let" in (r["attrs"] or "") or "const" in (r["attrs"] or ""))
                    for r in rows):
            return "C05/js-shadowing-let-in-nested-block-dropped"
    if in_unit:
        # J10: bound to a let/const placed directly in a bare block statement `{ … }` although the
        # occurrence is outside that block (the frontend inlines bare blocks into the enclosing list).
        if real["line"] in oracle.bare and ("let" in real["attrs"] or "const" in real["attrs"]):
            first, last = oracle.bare[real["line"]]
            if not (first <= line <= last):
                return "C05/js-bare-block-is-not-a-scope"
        # J10 (second form): the expected let/const sits directly in a bare block; because the block is
        # inlined it shares the lian scope of the enclosing list, where another declaration of the
        # same name wins.
        if exp is not None and len(exp["decls"]) == 1 and exp["decls"][0][0] in oracle.bare and real["name"] == name:
            erow = decl_row(exp["decls"][0][0])
            if erow is not None and scope_of_decl(wsp, unit, erow["id"]) == dscope:
                return "C05/js-bare-block-is-not-a-scope"
        # J8: bound to the synthetic `global` declaration that the frontend emits for an assignment
        # whose target actually HAS a declaration in scope (closure variable, later var, …), in a
        # program that never assigns the name without a declaration in scope.
        if "global" in real["attrs"] and real["kind"] == "var" and dscope == 0 and exp is None \
                and real["line"] in oracle.declared_assign.get(name, []) and not oracle.implicit.get(name):
            return "C05/js-spurious-global-decl-for-declared-target"
    return None


KIND_BLOCK = [9]


def eval_case(wsp, case, idx, ops, stats):
    """Oracle comparison of one case. Returns list of mismatch dicts."""
    mism = []
    for rel in sorted(case["files"]):
        unit = idx.get((case["id"], rel))
        if unit is None:
            stats["missing_units"] += 1
            continue
        if case["lang"] == "python":
            oracle = PyOracle(case["files"][rel])
        else:
            oracle = JsOracle(json.loads(json.dumps(case["trees"][rel])))
        seen = set()
        imp_tags = case.get("imports", {}).get(rel, {})
        sim = ImportEdgeSim(wsp, unit, imp_tags, ops) if imp_tags and case["lang"] == "python" else None
        order = wsp.method_order.get(unit, [])
        queries = sorted(unit_queries(wsp, unit, ops),
                         key=lambda q: (order.index(wsp.stmt_method[q[0]]) if wsp.stmt_method.get(q[0]) in order else len(order), q[0]))
        for stmt, name, mode, sid, su in queries:
            pred, predicted_i2 = None, False
            if mode == "decl":
                continue
            row = wsp.row_by_id[stmt]
            if row["start_row"] is None:
                continue
            line = row["start_row"] + 1
            if (line, name) not in oracle.occ:
                stats["untagged"] += 1
                continue
            exp = oracle.occ[(line, name)]
            imp = case.get("imports", {}).get(rel, {})
            tag0 = imp.get(name)
            star_tag = tag0 is not None and (tag0[0][2] if isinstance(tag0[0], list) else tag0[2]) == "star"
            # bound by an import statement in the occurrence's scope chain (symtable), or only reachable
            # through a module-level `import *` (which symtable cannot see)
            via_import = name in imp and ((exp is None and star_tag) or
                                          (exp is not None and any(d[1] == "import" for d in exp["decls"])))
            if via_import:
                ok, real = judge_import(wsp, case, idx, unit, sid, su, imp[name])
                stats["import_occurrences"] += 1
                pred = sim.predicted_resolved(wsp, stmt, name, imp[name]) if sim is not None else None
                if pred is not None:
                    stats["import_edge_predictions"] = stats.get("import_edge_predictions", 0) + 1
                    if not ok and pred is False and (real is None or real.get("kind") == "import"):
                        predicted_i2 = True
                if exp is None:
                    exp = {"owner": ["module", 0], "decls": [], "import": imp[name]}
            else:
                real = real_binding(wsp, sid)
                ok = judge(case["lang"], oracle, name, exp, real, unit)
            seen.add((line, name))
            stats["occurrences"] += 1
            stats["resolved" if exp is not None else "unresolved"] += 1
            if not ok:
                if via_import and pred is not None:
                    # the finding is claimed only where the model of the unchanged code predicts it
                    fid = "C05/py-same-target-imported-under-two-names" if predicted_i2 else \
                        classify(wsp, unit, case["lang"], oracle, stmt, line, name, exp, real)
                elif via_import:
                    fid = classify_import(imp[name], real, imp, name, case, rel) or \
                        classify(wsp, unit, case["lang"], oracle, stmt, line, name, exp, real)
                else:
                    fid = classify(wsp, unit, case["lang"], oracle, stmt, line, name, exp, real)
                mism.append({"case": case["id"], "file": rel, "line": line, "name": name, "stmt": stmt, "mode": mode,
                             "expected": exp, "real": real, "finding": fid,
                             "text": case["files"][rel].split("\n")[line - 1].strip()})
        stats["unobserved"] += len(set(oracle.occ) - seen)
    return mism


def judge_import(wsp, case, idx, unit, sid, su, target):
    """target = [relpath of the exporting file, name in it | None for the module itself, kind], or a
    list of such targets when two branches import the same name from different modules"""
    if target and isinstance(target[0], list):
        res = [judge_import(wsp, case, idx, unit, sid, su, t) for t in target]
        return any(ok for ok, _ in res), res[0][1]
    real = real_binding(wsp, sid)
    tunit = idx.get((case["id"], target[0]))
    if real is None or tunit is None:
        return False, real
    if target[1] is None:
        if target[0].endswith("/"):
            # a package: its directory module or its __init__ unit
            return (real.get("symbol") in (tunit, idx.get((case["id"], target[0] + "__init__.py")))), real
        return (real.get("symbol") == tunit), real
    if "id" not in real or real["unit"] != tunit or real["name"] != target[1]:
        return False, real
    # must be a top-level declaration of the exporting unit
    d = wsp.row_by_id[real["id"]]
    return d["parent"] == 0, real


def proj_on_cycle(proj, rel):
    """is file `rel` on a cycle of the project's import statements (importer -> module named in the statement)?"""
    edges = {}
    for r, f in proj["files"].items():
        tgt = set()
        for i in list(f["imports"]) + body_imports(f.get("body")):
            v = i.get("via")
            if not v:
                continue
            tgt.add(v)
            # resolving the path also analyses every module that merely shares a name with a package on
            # the path (`helpers.py` beside `helpers/`)
            parts = v.split("/")
            for n in range(1, len(parts)):
                beside = "/".join(parts[:n]) + ".py"
                if beside in proj["files"]:
                    tgt.add(beside)
        edges[r] = tgt
    seen, todo = set(), list(edges.get(rel, ()))
    while todo:
        x = todo.pop()
        if x == rel:
            return True
        if x not in seen:
            seen.add(x)
            todo += list(edges.get(x, ()))
    return False


class ImportEdgeSim:
    """Finding I2 (one import-graph edge per (unit, target): the import analysed LAST decides under
    which local name the target can be reached) as a MODEL-PREDICTED matcher.  The unchanged code
    analyses the import statements of a unit in this order: all scope-0 imports (ascending id), all
    other imports (ascending id) — the import phase — and then, during the def-use pass, every import
    statement inside a method again when the pass reaches it (methods in analysis order, statements
    ascending).  A use of local name L (denoting target T) is redirected iff the edge of T currently
    carries L.  Only names whose target is imported under >= 2 local names in the unit are predicted."""

    def __init__(self, wsp, unit, tags, ops):
        self.ok = True
        imports = set(ops["import"])
        rows = [r for r in wsp.units[unit] if r["op"] in imports]
        scope = {s: sc for s, sc, _, _ in wsp.scope_rows.get(unit, [])}

        def targets_of(row):
            """[(target key, local name)] of one import row"""
            if row["name"] == "*":
                src = (row.get("source") or "")
                return [((tuple(t[:2]) if not isinstance(t[0], list) else None), l) for l, t in tags.items()
                        if not isinstance(t[0], list) and t[2] == "star"]
            l = decl_name(row)
            t = tags.get(l)
            if t is None:
                return []
            if isinstance(t[0], list):
                # conditional re-import: pick the branch by the module named in the statement
                src = (row.get("source") or "").strip(".").split(".")[-1]
                cand = [x for x in t if x[0].rsplit("/", 1)[-1][:-3] == src]
                t = cand[0] if len(cand) == 1 else None
                if t is None:
                    self.ok = False
                    return []
            return [(tuple(t[:2]), l)]

        self.row_targets = {r["id"]: targets_of(r) for r in rows}
        names_of = {}
        for lst in self.row_targets.values():
            for t, l in lst:
                names_of.setdefault(t, set()).add(l)
        self.shared = {t for t, ls in names_of.items() if len(ls) >= 2}
        self.state = {}
        for r in sorted((r for r in rows if scope.get(r["id"]) == 0), key=lambda r: r["id"]):
            self._apply(r["id"])
        for r in sorted((r for r in rows if scope.get(r["id"]) != 0), key=lambda r: r["id"]):
            self._apply(r["id"])
        # def-use pass: events in (method order, statement id) order
        self.import_rows_by_method = {}
        for r in rows:
            m = wsp.stmt_method.get(r["id"])
            if m is not None:
                self.import_rows_by_method.setdefault(m, []).append(r["id"])
        self.order = wsp.method_order.get(unit, [])
        self.cursor = None       # (index of method, stmt) up to which the def-use events were replayed

    def _apply(self, rid):
        for t, l in self.row_targets.get(rid, []):
            self.state[t] = l

    def predicted_resolved(self, wsp, stmt, name, tag):
        """None = no prediction (name not shared / cannot tell); True / False otherwise.
        Must be called with uses in (method order, statement id) order."""
        tg = [tuple(x[:2]) for x in tag] if isinstance(tag[0], list) else [tuple(tag[:2])]
        if not self.ok or not any(t in self.shared for t in tg):
            return None
        if not isinstance(tag[0], list) and tag[2] in ("star", "chain"):
            return None       # never looked up on the edge (finding I1) / depends on another unit's edges
        m = wsp.stmt_method.get(stmt)
        if m is None or m not in self.order:
            return None
        pos = (self.order.index(m), stmt)
        if self.cursor is not None and pos < self.cursor:
            return None
        # replay the import re-analyses between the cursor and this use
        events = sorted((self.order.index(mm), rid) for mm, rids in self.import_rows_by_method.items()
                        if mm in self.order for rid in rids)
        for ev in events:
            if (self.cursor is None or ev > self.cursor) and ev < pos:
                self._apply(ev[1])
        self.cursor = pos
        return any(self.state.get(t) == name for t in tg)


def classify_import(target, real, tags=None, name=None, case=None, rel=None):
    if target and isinstance(target[0], list):
        target = target[0]
    # I4: the imported name denotes a package (directory) and a module file of the same name lies in the
    # same directory: Python takes the package, lian matches both graph nodes and the first one wins
    # (or, when the importer is that very module, gives up).
    if target[1] is None and target[0].endswith("/") and case is not None and \
            target[0].rstrip("/") + ".py" in case["files"]:
        return "C05/py-package-beside-same-named-module"
    # I3: a name re-exported by a module (`from .b import f` in a, `from .a import f` elsewhere) is
    # followed through the import graph, but when the importer sits on an import cycle the
    # intermediate module's imports are analysed while the importer's own are still in progress (or
    # vice versa) and the chain stops at the import statement.
    via = None
    if case is not None and case.get("proj") and rel in case["proj"]["files"]:
        via = next((i.get("via") for i in case["proj"]["files"][rel]["imports"] if name in i["locals"]), None)
    if target[2] == "chain" and via is not None and via in case["proj"]["files"]:
        # the intermediate module imports the final target under two names: I2 breaks the chain there
        vt = [t for i in case["proj"]["files"][via]["imports"] for t in i["locals"].values()]
        if sum(1 for t in vt if t[0] == target[0] and t[1] == target[1]) >= 2 and (real is None or real.get("kind") == "import"):
            return "C05/py-same-target-imported-under-two-names"
    if target[2] == "chain" and via is not None and (proj_on_cycle(case["proj"], rel) or proj_on_cycle(case["proj"], via)) \
            and (real is None or real.get("kind") == "import"):
        return "C05/py-reexport-through-import-cycle"
    # I1: a name that is only available through `from m import *` is never looked up in the import
    # graph by resolve_symbol_source_decl: it stays unresolved.
    if target[2] == "star" and real is None:
        return "C05/py-wildcard-import-not-consulted"
    # I2: the same module / symbol is imported twice under different local names; the import graph is
    # a DiGraph with ONE edge per (unit, target) pair, the later import overwrites `real_name`, and the
    # other local name can no longer be redirected: unresolved.
    if real is None and tags is not None and any(n != name and t[0] == target[0] and t[1] == target[1]
                                                 for n, t in tags.items()):
        return "C05/py-same-target-imported-under-two-names"
    return None


# ====================================================================== multi-file import projects

def lib_module(rng, prefix):
    """A small library file: top-level variables, functions and classes with unique names.
    Returns (source, [exported names])."""
    lines, names = [], []
    for i in range(rng.randint(3, 5)):
        k = rng.random()
        n = f"{prefix}{i}"
        names.append(n)
        if k < 0.35:
            lines.append(f"{n} = {rng.randint(0, 9)}")
        elif k < 0.8:
            lines.append(f"def {n}(a):")
            lines.append(f"    b = a + {rng.randint(0, 9)}")
            lines.append("    return b")
        else:
            lines.append(f"class {n}:")
            lines.append(f"    fld = {rng.randint(0, 9)}")
    return "\n".join(lines) + "\n", names


def gen_import_case(rng, cid):
    """main.py importing from util.py and pkg/lib.py with the forms of the property's quantifier:
    plain, alias, from-import, from-import-as, package member, wildcard."""
    files = {"pkg/__init__.py": ""}
    files["util.py"], unames = lib_module(rng, "u")
    files["pkg/lib.py"], lnames = lib_module(rng, "l")
    tags, lines = {}, []
    forms = ["plain", "plain_as", "from", "from_as", "pkg_member", "pkg_from", "star"]
    rng.shuffle(forms)
    forms = forms[:rng.randint(3, 6)]
    star_target = None
    for f in forms:
        if f == "plain":
            lines.append("import util")
            tags["util"] = ["util.py", None, "plain"]
        elif f == "plain_as":
            lines.append("import util as ua")
            tags["ua"] = ["util.py", None, "alias"]
        elif f == "from":
            n = rng.choice(unames)
            lines.append(f"from util import {n}")
            tags[n] = ["util.py", n, "from"]
        elif f == "from_as":
            n = rng.choice(unames)
            lines.append(f"from util import {n} as fa")
            tags["fa"] = ["util.py", n, "from_as"]
        elif f == "pkg_member":
            lines.append("from pkg import lib")
            tags["lib"] = ["pkg/lib.py", None, "package_member"]
        elif f == "pkg_from":
            n = rng.choice(lnames)
            lines.append(f"from pkg.lib import {n} as pf")
            tags["pf"] = ["pkg/lib.py", n, "package_from"]
        elif f == "star":
            star_target = "pkg/lib.py"
    if star_target:
        lines.append("from pkg.lib import *")
        for n in lnames:
            if n not in tags:
                tags[n] = ["pkg/lib.py", n, "star"]
    while True:
        g = PyGen(random.Random(rng.getrandbits(64)), max_depth=2, imports=sorted(tags), budget=22)
        body = g.module()
        tree = [{"k": "raw", "text": l} for l in lines] + body
        files["main.py"] = py_source(tree)
        if py_valid(files["main.py"]):
            break
    return {"id": cid, "lang": "python", "files": files, "trees": {}, "imports": {"main.py": tags}}


# ====================================================================== package projects (relative imports)
# A project is a JSON-able structure, rendered by `proj_render`:
#   proj = {"root": name, "files": {relpath: {"decls": [[kind, name]…], "imports": [imp…], "uses": [local…]}}}
#   imp  = {"text": import line, "locals": {local name: [target relpath | "dir/", decl name | None, kind]}}
# The tags are the oracle: Python's relative import is path arithmetic on the package layout.

PKG_MODS = ["helpers", "util", "m", "n"]
PKG_SUBS = ["a", "b", "m", "helpers"]
PKG_DECLS = ["f", "g", "v", "K"]


def proj_render(proj):
    files = {}
    for rel, f in proj["files"].items():
        lines = [i["text"] for i in f["imports"]]
        for kind, n in f["decls"]:
            if kind == "def":
                lines += [f"def {n}(a):", "    return a"]
            elif kind == "var":
                lines.append(f"{n} = 1")
            else:
                lines += [f"class {n}:", "    fld = 1"]
        if f.get("body"):
            lines += py_render(f["body"])
        live = {l for i in f["imports"] for l in i["locals"]}
        uses = [u for u in f["uses"] if u in live]
        for u in uses:
            lines.append(f"sink({u})")
        if uses:
            lines.append("def user():")
            for u in uses:
                lines.append(f"    sink({u})")
        files[rel] = "\n".join(lines) + ("\n" if lines else "")
    return files


def body_imports(stmts):
    """the `imp` statements of a body tree, any depth"""
    res = []
    for st in stmts or []:
        if st["k"] == "imp":
            res.append(st)
        for key in ("body", "else", "handler", "final"):
            if isinstance(st.get(key), list):
                res += body_imports(st[key])
    return res


def proj_tags(proj):
    """file -> local name -> tag [target, decl, kind]; a name bound by imports of DIFFERENT targets
    (conditional re-import) gets the tag [[target, decl, kind], …] (any of them is right)"""
    res = {}
    for rel, f in proj["files"].items():
        tags = {}
        for i in list(f["imports"]) + body_imports(f.get("body")):
            for l, t in i["locals"].items():
                if l in tags and tags[l][:2] != t[:2]:
                    prev = tags[l] if isinstance(tags[l][0], list) else [tags[l]]
                    tags[l] = prev + [t]
                elif l not in tags:
                    tags[l] = t
        if tags:
            res[rel] = tags
    return res


def make_proj_case(cid, proj):
    return {"id": cid, "lang": "python", "files": proj_render(proj), "trees": {}, "imports": proj_tags(proj), "proj": proj}


def gen_pkg_project(rng, cid):
    """Package directories of depth 1–4 with __init__.py; modules with the same names at neighbouring
    levels (decoys); sub-packages named like modules elsewhere; imports: relative with 1–4 leading dots
    (`from . import m`, `from .. import m`, `from ...x.y import f as l`, `from .m import *`), absolute from
    the (case-unique) root package, of modules, of packages, of re-exported names (chains), circular."""
    root = "r" + cid
    dirs = [[root]]
    cur = [root]
    for _ in range(rng.randint(1, 4) - 1):
        cur = cur + [rng.choice(PKG_SUBS)]
        dirs.append(cur)
    for _ in range(rng.randint(0, 2)):
        d = rng.choice(dirs) + [rng.choice(PKG_SUBS)]
        if d not in dirs and len(d) <= 4:
            dirs.append(d)
    files = {}
    order = []
    for d in dirs:
        files["/".join(d) + "/__init__.py"] = {"decls": [], "imports": [], "uses": [], "pkg": d, "init": True}
        subs = {x[-1] for x in dirs if x[:-1] == d}
        for m in rng.sample(PKG_MODS, rng.randint(1, 3)):
            if m in subs and rng.random() < 0.8:
                continue          # a module beside a package of the same name: rare
            rel = "/".join(d + [m]) + ".py"
            kinds = {"f": "def", "g": "def", "v": "var", "K": "class"}
            files[rel] = {"decls": [[kinds[n], n] for n in sorted(rng.sample(PKG_DECLS, rng.randint(2, 3)))],
                          "imports": [], "uses": [], "pkg": d, "init": False, "mod": m}
            order.append(rel)
    nloc = [0]
    # "leaf" modules are never imported from; only they use `import *` (a star import into a module
    # that is itself imported from re-exports everything and collides with its own definitions)
    leaves = {r for r in order if rng.random() < 0.3}
    if len(leaves) == len(order):
        leaves = set()

    def exports(rel, modules=False):
        """name -> final [file, decl] of everything `from rel import name` can denote; with `modules`
        also the imported modules / packages (a star import takes those along as well)"""
        f = files[rel]
        res = {n: [rel, n] for _, n in f["decls"]}
        for i in f["imports"]:
            for l, t in i["locals"].items():
                if t[2] != "star" and (t[1] is not None or modules):
                    res.setdefault(l, [t[0], t[1]])
        return res

    def spec(P, Q, k):
        """relative module path from package P to package path Q through the common ancestor P[:k]"""
        return "." * (len(P) - k + 1) + ".".join(Q[k:])

    def add_import(rel, force_dots=None):
        f = files[rel]
        P = f["pkg"]
        cands = [r for r in order if r != rel and r not in leaves]
        if not cands:
            return
        tgt = rng.choice(cands)
        if force_dots is not None:
            deep = [r for r in cands if len(P) - force_dots + 1 >= 1 and files[r]["pkg"][:len(P) - force_dots + 1] == P[:len(P) - force_dots + 1]]
            if not deep:
                return
            tgt = rng.choice(deep)
        Q, m = files[tgt]["pkg"], files[tgt]["mod"]
        common = 0
        while common < min(len(P), len(Q)) and P[common] == Q[common]:
            common += 1
        k = rng.randint(1, common) if force_dots is None else len(P) - force_dots + 1
        dots = len(P) - k + 1
        nloc[0] += 1
        local = f"l{nloc[0]}"
        form = rng.choice(["mod", "decl", "decl", "decl", "star", "abs_decl", "abs_mod", "pkgdir", "chain"])
        kind = f"rel{dots}"
        if form == "mod":
            base = spec(P, Q, k)
            text = f"from {base} import {m} as {local}"
            # `from pkg import x`: a package `x/` beside `x.py` wins in Python
            t = ["/".join(Q + [m]) + "/", None, kind] if Q + [m] in dirs else [tgt, None, kind]
            locs = {local: t}
        elif form in ("decl", "chain"):
            ex = exports(tgt)
            own = {n for _, n in files[tgt]["decls"]}
            ex = {n: t for n, t in ex.items() if t[0] != rel}       # not the importer's own symbol through a chain
            names = sorted(n for n in ex if (n not in own) == (form == "chain")) or sorted(ex)
            if not names:
                return
            n = rng.choice(names)
            base = spec(P, Q + [m], k)
            text = f"from {base} import {n} as {local}"
            locs = {local: ex[n] + [kind if n in own else "chain"]}
        elif form == "star":
            if rel not in leaves or any("import *" in i["text"] for i in f["imports"]) or \
                    any(i.get("via") == tgt or t[0] == tgt for i in f["imports"] for t in i["locals"].values()):
                return
            base = spec(P, Q + [m], k)
            text = f"from {base} import *"
            mine = {n for _, n in f["decls"]} | {l for i in f["imports"] for l in i["locals"]}
            # everything public in the target comes along: its definitions AND the names it imported
            locs = {n: t + ["star"] for n, t in exports(tgt, modules=True).items() if n not in mine and t[0] != rel}
            if not locs or len(locs) != len(exports(tgt, modules=True)):
                return
        elif form == "abs_decl":
            n = rng.choice([x for _, x in files[tgt]["decls"]])
            text = f"from {'.'.join(Q + [m])} import {n} as {local}"
            locs = {local: [tgt, n, "abs"]}
        elif form == "abs_mod":
            text = f"from {'.'.join(Q)} import {m} as {local}"
            t = ["/".join(Q + [m]) + "/", None, "abs"] if Q + [m] in dirs else [tgt, None, "abs"]
            locs = {local: t}
        else:   # a sub-package (directory) imported relatively
            subs = [d for d in dirs if len(d) > 1 and d[:-1][:1] == P[:1]]
            if not subs:
                return
            D = rng.choice(subs)
            Qd = D[:-1]
            c2 = 0
            while c2 < min(len(P), len(Qd)) and P[c2] == Qd[c2]:
                c2 += 1
            if c2 < 1:
                return
            k2 = rng.randint(1, c2)
            d2 = len(P) - k2 + 1
            text = f"from {spec(P, Qd, k2)} import {D[-1]} as {local}"
            locs = {local: ["/".join(D) + "/", None, f"rel{d2}"]}
        have = {(t[0], t[1]) for i in f["imports"] for t in i["locals"].values()}
        starred = {i.get("via") for i in f["imports"] if "import *" in i["text"]}
        if any((t[0], t[1]) in have or (t[0] in starred and t[1] is not None) for t in locs.values()) or \
                (form in ("decl", "chain", "abs_decl") and tgt in starred):
            return                # the same target under two local names is a finding of its own (I2)
        f["imports"].append({"text": text, "locals": locs, "via": "/".join(D) + "/__init__.py" if form == "pkgdir" else tgt})
        f["uses"] += sorted(locs)

    for rel in order:
        for _ in range(rng.randint(0, 3)):
            add_import(rel)
    # make sure deep relative imports occur: one import with the maximal number of dots possible
    deepest = max(order, key=lambda r: len(files[r]["pkg"]))
    for dots in range(len(files[deepest]["pkg"]), 1, -1):
        add_import(deepest, force_dots=dots)
    # a circular pair
    inner = [r for r in order if r not in leaves]
    if len(inner) >= 2 and rng.random() < 0.6:
        a, b = rng.sample(inner, 2)
        for x, y in ((a, b), (b, a)):
            P, Q, m = files[x]["pkg"], files[y]["pkg"], files[y]["mod"]
            c = 0
            while c < min(len(P), len(Q)) and P[c] == Q[c]:
                c += 1
            nloc[0] += 1
            have = {(t[0], t[1]) for i in files[x]["imports"] for t in i["locals"].values()}
            free = [z for _, z in files[y]["decls"] if (y, z) not in have]
            if not free or any("import *" in i["text"] and i.get("via") == y for i in files[x]["imports"]):
                continue
            n = rng.choice(free)
            files[x]["imports"].append({"text": f"from {spec(P, Q + [m], c)} import {n} as l{nloc[0]}",
                                        "locals": {f"l{nloc[0]}": [y, n, f"rel{len(P) - c + 1}"]}, "via": y})
            files[x]["uses"].append(f"l{nloc[0]}")
    # star imports see the FINAL contents of their target: recompute their tags now; drop a star import
    # that would bring a symbol the importer also imports under another name (finding I2)
    for rel in order:
        f = files[rel]
        for im in list(f["imports"]):
            if "import *" not in im["text"]:
                continue
            mine = {n for _, n in f["decls"]} | {l for i in f["imports"] if i is not im for l in i["locals"]}
            others = {(t[0], t[1]) for i in f["imports"] if i is not im for t in i["locals"].values()}
            ex = exports(im["via"], modules=True)
            locs = {n: t + ["star"] for n, t in ex.items() if n not in mine and t[0] != rel}
            finals = [(t[0], t[1]) for t in locs.values()]
            if len(locs) != len(ex) or any(x in others for x in finals) or len(set(finals)) != len(finals):
                f["imports"].remove(im)
                f["uses"] = [u for u in f["uses"] if u not in im["locals"]]
            else:
                f["uses"] = [u for u in f["uses"] if u not in im["locals"]] + sorted(locs)
                im["locals"] = locs
    proj = {"root": root, "files": {r: {k: v for k, v in f.items() if k in ("decls", "imports", "uses")} for r, f in files.items()}}
    return make_proj_case(cid, proj)


IMPORT_POSITIONS = ["top", "fn_first", "fn_after", "nested_fn", "class_body", "method",
                    "m_if", "m_ifelse", "m_try", "m_tryf", "m_with", "m_for", "m_while",
                    "f_if", "f_ifelse", "f_try", "f_tryf", "f_with", "f_for", "f_while"]
IMPORT_FORMS = ["import", "import_as", "from", "from_as", "rel_mod", "rel_mod_as", "rel_from_as", "abs_from_as", "star"]


def gen_pos_project(rng, cid, n_scen=9):
    """Import statements in every statement position.  A package `r<cid>` with library modules m1…m5
    (unique declaration names), a top-level module `t<cid>.py`, and two importing modules whose bodies
    are made of scenarios: one (position, form) pair each, the import statement placed there, uses of
    the imported name before / after it in the same scope, from an inner scope, and from a scope where
    it is NOT visible.  Every target is imported under one local name only per file.  Python treats an
    import as an assignment of the enclosing function / class / module scope: the oracle is symtable
    for the scope and the generator tag for the target."""
    root, top = "r" + cid, "t" + cid
    libs = {f"{root}/m{i}.py": [f"f{i}", f"g{i}", f"v{i}", f"K{i}"] for i in range(1, 6)}
    libs[f"{top}.py"] = ["f0", "g0", "v0", "K0"]
    kinds = {"f": "def", "g": "def", "v": "var", "K": "class"}
    files = {f"{root}/__init__.py": {"decls": [], "imports": [], "uses": []}}
    for rel, names in libs.items():
        files[rel] = {"decls": [[kinds[n[0]], n] for n in names], "imports": [], "uses": []}
    counter = [0]

    def fresh(pfx):
        counter[0] += 1
        return f"{pfx}{counter[0]}"

    for mi in range(2):
        free_decl = [(rel, n) for rel, names in libs.items() for n in names]
        free_mod = list(libs)
        rng.shuffle(free_decl)
        rng.shuffle(free_mod)
        body = []
        positions = rng.sample(IMPORT_POSITIONS, min(n_scen, len(IMPORT_POSITIONS)))

        def mod_name(rel):
            return rel.rsplit("/", 1)[-1][:-3]

        def take_decl(inside_pkg=None):
            for i, (rel, n) in enumerate(free_decl):
                if rel in free_mod or True:
                    if inside_pkg is None or (rel.startswith(root + "/") == inside_pkg):
                        return free_decl.pop(i)
            return None

        def take_mod(inside_pkg=None):
            for i, rel in enumerate(free_mod):
                if inside_pkg is None or (rel.startswith(root + "/") == inside_pkg):
                    # a module imported as a whole must not also give single names (one edge per target is
                    # fine, but keep things simple): remove nothing, modules and their decls are distinct nodes
                    return free_mod.pop(i)
            return None

        def make_import(module_level):
            """returns an `imp` statement (fresh target) or None"""
            forms = [f for f in IMPORT_FORMS if f != "star" or module_level]
            form = rng.choice(forms)
            if form == "import":
                rel = take_mod(inside_pkg=False)
                if rel is None:
                    return None
                return {"k": "imp", "text": f"import {mod_name(rel)}", "locals": {mod_name(rel): [rel, None, "import"]}, "via": rel}
            if form == "import_as":
                rel = take_mod(inside_pkg=False)
                if rel is None:
                    return None
                l = fresh("l")
                return {"k": "imp", "text": f"import {mod_name(rel)} as {l}", "locals": {l: [rel, None, "import_as"]}, "via": rel}
            if form == "from":
                t = take_decl(inside_pkg=False)
                if t is None:
                    return None
                return {"k": "imp", "text": f"from {mod_name(t[0])} import {t[1]}", "locals": {t[1]: [t[0], t[1], "from"]}, "via": t[0]}
            if form == "from_as":
                t = take_decl(inside_pkg=False)
                if t is None:
                    return None
                l = fresh("l")
                return {"k": "imp", "text": f"from {mod_name(t[0])} import {t[1]} as {l}", "locals": {l: [t[0], t[1], "from_as"]}, "via": t[0]}
            if form in ("rel_mod", "rel_mod_as"):
                rel = take_mod(inside_pkg=True)
                if rel is None:
                    return None
                if form == "rel_mod":
                    return {"k": "imp", "text": f"from . import {mod_name(rel)}", "locals": {mod_name(rel): [rel, None, "rel_mod"]}, "via": rel}
                l = fresh("l")
                return {"k": "imp", "text": f"from . import {mod_name(rel)} as {l}", "locals": {l: [rel, None, "rel_mod_as"]}, "via": rel}
            if form == "rel_from_as":
                t = take_decl(inside_pkg=True)
                if t is None:
                    return None
                l = fresh("l")
                return {"k": "imp", "text": f"from .{mod_name(t[0])} import {t[1]} as {l}", "locals": {l: [t[0], t[1], "rel_from_as"]}, "via": t[0]}
            if form == "abs_from_as":
                t = take_decl(inside_pkg=True)
                if t is None:
                    return None
                l = fresh("l")
                return {"k": "imp", "text": f"from {root}.{mod_name(t[0])} import {t[1]} as {l}", "locals": {l: [t[0], t[1], "abs_from_as"]}, "via": t[0]}
            # star: takes a whole library of the package that nothing else in this file touches
            rel = next((r for r in free_mod if r.startswith(root + "/") and all((r, n) in free_decl for n in libs[r])), None)
            if rel is None:
                return None
            free_mod.remove(rel)
            for n in libs[rel]:
                free_decl.remove((rel, n))
            return {"k": "imp", "text": f"from .{mod_name(rel)} import *", "locals": {n: [rel, n, "star"] for n in libs[rel]}, "via": rel}

        def use(names):
            return {"k": "use", "names": list(names)}

        def pair(module_level):
            """two imports of ONE local name from different modules (for the two branches)"""
            a, b = take_decl(inside_pkg=True), take_decl(inside_pkg=True)
            if a is None or b is None or a[0] == b[0]:
                return None
            x = fresh("x")
            mk = lambda t: {"k": "imp", "text": f"from .{mod_name(t[0])} import {t[1]} as {x}", "locals": {x: [t[0], t[1], "cond"]}, "via": t[0]}
            return mk(a), mk(b), x

        for pos in positions:
            ml = pos == "top" or pos.startswith("m_")
            fn = fresh("h")
            if pos.endswith("ifelse"):
                pr = pair(ml)
                if pr is None:
                    continue
                i1, i2, x = pr
                blk = [{"k": "if", "c": "cnd", "body": [i1, use([x])], "else": [i2]}, use([x]),
                       {"k": "def", "name": fresh("h"), "params": [], "body": [use([x])]}]
                names = [x]
            else:
                im = make_import(ml)
                if im is None:
                    continue
                names = sorted(im["locals"])[:2]
                inner = {"k": "def", "name": fresh("h"), "params": [], "body": [use(names)]}
                kind = pos.split("_", 1)[1] if "_" in pos and pos[0] in "mf" and pos[1] == "_" else pos
                if kind == "if":
                    blk = [{"k": "if", "c": "cnd", "body": [im, use(names)], "else": []}, use(names), inner]
                elif kind == "try":
                    blk = [{"k": "try", "body": [im, use(names)], "handler": [use(["cnd"])]}, use(names), inner]
                elif kind == "tryf":
                    where = rng.choice(["body", "handler", "final"])
                    t = {"k": "tryf", "body": [use(["cnd"])], "handler": [use(["cnd"])], "final": [use(["cnd"])]}
                    t[where] = [im, use(names)]
                    blk = [t, use(names), inner]
                elif kind == "with":
                    blk = [{"k": "with", "e": "cnd", "as": fresh("w"), "body": [im, use(names)]}, use(names), inner]
                elif kind == "for":
                    blk = [{"k": "for", "t": fresh("i"), "it": "cnd", "body": [im, use(names)]}, use(names), inner]
                elif kind == "while":
                    blk = [{"k": "while", "c": "cnd", "body": [im, use(names)]}, use(names), inner]
                elif pos == "top":
                    blk = [use(names), im, use(names), inner]
                elif pos == "fn_first":
                    blk = [im, use(names), inner]
                elif pos == "fn_after":
                    blk = [{"k": "assign", "t": fresh("q"), "e": {"k": "const", "v": 1}}, use(names), im, use(names), inner]
                elif pos == "nested_fn":
                    blk = [{"k": "def", "name": fresh("h"), "params": [], "body": [im, use(names), inner]}, use(names)]
                elif pos == "class_body":
                    blk = [{"k": "class", "name": fresh("C"), "body": [im, {"k": "def", "name": fresh("h"), "params": ["self"], "body": [use(names)]}]}]
                else:   # method
                    blk = [{"k": "class", "name": fresh("C"), "body": [{"k": "def", "name": fresh("h"), "params": ["self"], "body": [im, use(names), inner]}]}]
            for st in body_imports(blk):
                st["pos"] = pos
            if ml or pos in ("class_body", "method"):
                body += blk
            else:
                body.append({"k": "def", "name": fn, "params": [], "body": blk})
            # a use from a scope where a function-level import is not visible
            if not ml:
                body.append(use(names))
        # the same target under TWO local names (finding I2, model-predicted): which of the two names
        # is redirected at a given use depends on the import analysed last before it — the import phase
        # first, then every function-level import again when the def-use pass reaches it
        for shape in rng.sample(["top_fn", "fn_fn", "abs_fn_fn", "fn_top"], 2):
            t = take_decl(inside_pkg=True)
            if t is None:
                break
            la, lb = fresh("l"), fresh("l")
            rel_spec, abs_spec = f".{mod_name(t[0])}", f"{root}.{mod_name(t[0])}"

            def mk(spec, local, kind, alias=True):
                text = f"from {spec} import {t[1]} as {local}" if alias else f"from {spec} import {t[1]}"
                return {"k": "imp", "text": text, "locals": {local if alias else t[1]: [t[0], t[1], kind]}, "via": t[0], "pos": "dup_" + shape}
            hA, hB, hC = fresh("h"), fresh("h"), fresh("h")
            if shape == "top_fn":
                body += [mk(rel_spec, la, "dup"),
                         {"k": "def", "name": hA, "params": [], "body": [mk(rel_spec, lb, "dup"), use([lb]), use([la])]},
                         {"k": "def", "name": hB, "params": [], "body": [use([la])]}, use([la])]
            elif shape == "fn_fn":
                body += [{"k": "def", "name": hA, "params": [], "body": [mk(rel_spec, la, "dup"), use([la])]},
                         {"k": "def", "name": hB, "params": [], "body": [mk(rel_spec, lb, "dup"), use([lb]), {"k": "assign", "t": fresh("q"), "e": {"k": "name", "n": lb}}]},
                         {"k": "def", "name": hC, "params": [], "body": [mk(rel_spec, la, "dup"), use([la])]}]
            elif shape == "abs_fn_fn":
                body += [{"k": "def", "name": hA, "params": ["v"], "body": [mk(abs_spec, None, "dup", alias=False), {"k": "ret", "e": {"k": "call", "f": t[1], "args": ["v"]}}]},
                         {"k": "def", "name": hB, "params": ["v"], "body": [mk(abs_spec, lb, "dup"), {"k": "assign", "t": fresh("q"), "e": {"k": "call", "f": lb, "args": ["v"]}}, use([lb])]}]
            else:
                body += [{"k": "def", "name": hA, "params": [], "body": [mk(rel_spec, la, "dup"), use([la])]},
                         {"k": "if", "c": "cnd", "body": [mk(rel_spec, lb, "dup"), use([lb])], "else": []},
                         {"k": "def", "name": hB, "params": [], "body": [use([lb])]}]
        files[f"{root}/main{mi}.py"] = {"decls": [], "imports": [], "uses": [], "body": body}
    proj = {"root": root, "top": top, "files": files}
    return make_proj_case(cid, proj)


def proj_candidates(proj, keep_file):
    """single-step reductions: drop one import entry (anywhere), drop one non-__init__ file other than
    `keep_file` (with the imports that target it)."""
    res = []
    all_imports = [(r2, im) for r2, g in proj["files"].items() for im in list(g["imports"]) + body_imports(g.get("body"))]
    for rel, f in proj["files"].items():
        for i in range(len(f["imports"])):
            # an import whose local name another module re-imports (a chain) has to stay
            if any(r2 != rel and im2.get("via") == rel and any(f" import {l} as " in im2["text"] + " as " for l in f["imports"][i]["locals"])
                   for r2, im2 in all_imports):
                continue
            p2 = json.loads(json.dumps(proj))
            del p2["files"][rel]["imports"][i]
            res.append(p2)
        for i in range(len(f["decls"])):
            p2 = json.loads(json.dumps(proj))
            del p2["files"][rel]["decls"][i]
            if any(t[0] == rel and t[1] == f["decls"][i][1] for g in p2["files"].values()
                   for im in list(g["imports"]) + body_imports(g.get("body")) for t in im["locals"].values()):
                continue
            res.append(p2)
    for rel, f in proj["files"].items():
        if f.get("body"):
            for t in tree_candidates(f["body"]):
                p2 = json.loads(json.dumps(proj))
                p2["files"][rel]["body"] = t
                res.append(p2)
    for rel in proj["files"]:
        if rel == keep_file or rel.endswith("__init__.py"):
            continue
        # never remove a file an import still refers to (the import has to go first): an import of a
        # missing file is unresolved for a different reason
        refs = {x for r2, g in proj["files"].items() if r2 != rel
                for im in list(g["imports"]) + body_imports(g.get("body"))
                for x in [im.get("via")] + [t[0] for t in im["locals"].values()]}
        if rel in refs or rel.rsplit("/", 1)[0] + "/" in refs:
            continue
        p2 = json.loads(json.dumps(proj))
        del p2["files"][rel]
        res.append(p2)
    return res


def proj_size(proj):
    return sum(3 + len(f["imports"]) * 2 + len(f["decls"]) + len(json.dumps(f.get("body") or [])) // 40
               for f in proj["files"].values())


def shrink_proj(scratch, case, rel, signature, ops, kinds, rounds=10, width=60):
    cur = case
    for rnd in range(rounds):
        cands = []
        for p2 in proj_candidates(cur["proj"], rel):
            c = make_proj_case(f"s{rnd}_{len(cands):03d}", p2)
            if all(py_valid(src) for src in c["files"].values()):
                cands.append(c)
        if not cands:
            break
        cands.sort(key=lambda c: proj_size(c["proj"]))
        cands = cands[:width]
        # candidates must not see each other's modules: one packed run, one root directory per candidate;
        # the project root package keeps its (case-unique) name, so rename it per candidate
        for c in cands:
            new_root = "r" + c["id"]
            blob = json.dumps(c["proj"]).replace(cur["proj"]["root"], new_root)
            if cur["proj"].get("top"):
                blob = blob.replace(cur["proj"]["top"], "t" + c["id"])
            c2 = make_proj_case(c["id"], json.loads(blob))
            c.update(c2)
            c["rel"] = rel.replace(cur["proj"]["root"], new_root, 1)
        try:
            b = Batch(scratch, f"shp{rnd}", cands, ops, kinds).run()
        except LianRunError:
            break
        good = {m["case"] for m in b.mism if (m["name"], m["finding"]) == signature}
        best = next((c for c in cands if c["id"] in good), None)
        if best is None:
            break
        cur, rel = best, best["rel"]
    return cur


# ====================================================================== hoisting correspondence
# Real `adjust_variable_decls` (in-process) vs the Lean model `Hoist.hoist` on synthetic GIR trees.

HVARS = ["a", "b", "c", "v"]


def gen_gir_tree(rng, lang, budget=30):
    """Unflattened GIR statement list (dicts, the handler's input format) without %vv temporaries."""
    state = {"budget": budget, "n": 0}

    def block(depth, fn_depth, n):
        return [stmt(depth, fn_depth) for _ in range(max(0, min(n, state["budget"])))]

    def stmt(depth, fn_depth):
        state["budget"] -= 1
        state["n"] += 1
        kinds = [("decl", 30), ("assign", 12), ("global", 4), ("call", 6)]
        if depth < 4 and state["budget"] > 1:
            kinds += [("if", 10), ("while", 4), ("for", 5), ("try", 6)]
            if fn_depth < 3:
                kinds += [("method", 10), ("class", 4)]
        tot = sum(w for _, w in kinds)
        x = rng.uniform(0, tot)
        for k, w in kinds:
            x -= w
            if x <= 0:
                break
        n = rng.choice(HVARS)
        if k == "decl":
            if lang == "python":
                attrs = []
            else:
                attrs = rng.choice([["var"], ["var"], ["let"], ["const"], ["global"], [], ["let", "export"]])
            v = {"name": n}
            if attrs or rng.random() < 0.5:
                v["attrs"] = attrs
            return {"variable_decl": v}
        if k == "assign":
            return {"assign_stmt": {"target": n, "operand": rng.choice(HVARS)}}
        if k == "global":
            return {rng.choice(["global_stmt", "nonlocal_stmt"]): {"name": n}}
        if k == "call":
            return {"call_stmt": {"target": "t", "name": "f", "positional_args": [n]}}
        if k == "if":
            v = {"condition": n, "then_body": block(depth + 1, fn_depth, rng.randint(0, 3))}
            if rng.random() < 0.5:
                v["else_body"] = block(depth + 1, fn_depth, rng.randint(0, 2))
            return {"if_stmt": v}
        if k == "while":
            return {"while_stmt": {"condition": n, "body": block(depth + 1, fn_depth, rng.randint(0, 3))}}
        if k == "for":
            return {"for_stmt": {"init_body": block(depth + 1, fn_depth, rng.randint(0, 2)), "condition": n,
                                 "update_body": block(depth + 1, fn_depth, rng.randint(0, 1)),
                                 "body": block(depth + 1, fn_depth, rng.randint(0, 3))}}
        if k == "try":
            clauses = [{"catch_clause": {"body": block(depth + 1, fn_depth, rng.randint(0, 3))}}
                       for _ in range(rng.randint(0, 2))]
            v = {"body": block(depth + 1, fn_depth, rng.randint(0, 2)), "catch_body": clauses}
            if rng.random() < 0.4:
                v["final_body"] = block(depth + 1, fn_depth, rng.randint(0, 2))
            return {"try_stmt": v}
        if k == "method":
            params = [{"parameter_decl": {"name": p}} for p in rng.sample(HVARS, rng.randint(0, 2))]
            return {"method_decl": {"name": "m", "parameters": params,
                                    "body": block(depth + 1, fn_depth + 1, rng.randint(0, 4))}}
        v = {"name": "C"}
        order = ["fields", "methods", "nested"]
        rng.shuffle(order)
        for f in order:
            if rng.random() < 0.7:
                v[f] = block(depth + 1, fn_depth + 1, rng.randint(0, 3))
        return {"class_decl": v}

    res = []
    while state["budget"] > 0 and len(res) < 10:
        res.append(stmt(0, 0))
    return res


def gir_abstract(tree, tags):
    """statement list -> the encoding of Drv/Hoist.lean; tags = {id(value dict): tag}"""
    out = []
    for st in tree:
        key = list(st.keys())[0]
        val = st[key]
        name = val.get("name")
        attrs = val.get("attrs", [])
        subs = []
        for sk, sv in val.items():
            if sk != "attrs" and isinstance(sv, list) and all(isinstance(x, dict) for x in sv) and \
                    (sv or sk.endswith("body") or sk in ("fields", "methods", "nested", "parameters")):
                subs.append([sk, gir_abstract(sv, tags)])
        out.append({"k": key, "n": name if isinstance(name, str) else None,
                    "a": [a for a in attrs if isinstance(a, str)] if isinstance(attrs, list) else [],
                    "s": subs, "t": tags[id(val)]})
    return out


def gir_tag(tree, tags):
    for st in tree:
        key = list(st.keys())[0]
        val = st[key]
        tags[id(val)] = len(tags) + 1
        for sk, sv in val.items():
            if isinstance(sv, list) and all(isinstance(x, dict) for x in sv):
                gir_tag(sv, tags)
    return tags


def hoist_real(tree, lang):
    """Run the real handler on a deep copy; returns (abstract input, abstract output)."""
    import copy
    from lian.events.default_event_handlers import add_var_decl
    from lian.events.handler_template import EventData
    t = copy.deepcopy(tree)
    tags = gir_tag(t, {})
    before = gir_abstract(t, tags)
    data = EventData(lang, 0, t)
    import contextlib, io
    with contextlib.redirect_stdout(io.StringIO()), contextlib.redirect_stderr(io.StringIO()):
        add_var_decl.adjust_variable_decls(data)
    after = gir_abstract(data.out_data, tags)
    return before, after


def hoist_correspondence(rng, n, corpus_trees):
    """Returns (number compared, list of differences)."""
    items = list(corpus_trees)
    for i in range(n):
        lang = "python" if i % 2 == 0 else "javascript"
        items.append((lang, gen_gir_tree(random.Random(rng.getrandbits(64)), lang)))
    reqs, reals = [], []
    for lang, tree in items:
        before, after = hoist_real(tree, lang)
        reqs.append({"m": "hoist", "py": lang in ("python", "abc"), "variant": os.environ.get("C05_MODEL_VARIANT", "current"),
                     "tree": before})
        reals.append(after)
    reps = drv_ok(drv_batch(reqs))
    diffs = []
    changed = 0
    for (lang, tree), req, real, rep in zip(items, reqs, reals, reps):
        if real != req["tree"]:
            changed += 1
        if rep != real:
            diffs.append({"table": "adjust_variable_decls", "lang": lang, "tree": tree,
                          "real": real, "model": rep})
    return len(items), changed, diffs


# ====================================================================== batches

def gen_cases(rng, n_py, n_js, depth, prefix, n_imp=0, n_pkg=0, n_pos=0):
    cases = [gen_import_case(random.Random(rng.getrandbits(64)), f"{prefix}imp{i:03d}") for i in range(n_imp)]
    cases += [gen_pos_project(random.Random(rng.getrandbits(64)), f"{prefix}pos{i:03d}") for i in range(n_pos)]
    cases += [gen_pkg_project(random.Random(rng.getrandbits(64)), f"{prefix}pkg{i:03d}") for i in range(n_pkg)]
    tries = 0
    while len([c for c in cases if c["lang"] == "python"]) < n_py and tries < n_py * 5:
        tries += 1
        t = PyGen(random.Random(rng.getrandbits(64)), max_depth=depth).module()
        if py_valid(py_source(t)):
            cases.append(make_py_case(f"{prefix}py{len(cases):04d}", t))
    tries = 0
    njs = 0
    while njs < n_js and tries < n_js * 5:
        tries += 1
        t = JsGen(random.Random(rng.getrandbits(64)), max_depth=depth).module()
        if not t or JsOracle(json.loads(json.dumps(t))).tdz:
            continue
        cases.append(make_js_case(f"{prefix}js{njs:04d}", t))
        njs += 1
    return cases


class Batch:
    """One packed lian run over a set of cases + full evaluation."""

    def __init__(self, scratch, tag, cases, ops, kinds):
        self.scratch, self.tag, self.cases, self.ops, self.kinds = scratch, tag, cases, ops, kinds
        self.root_name = "cases_" + tag
        self.stats = {k: 0 for k in ("occurrences", "resolved", "unresolved", "untagged", "unobserved",
                                     "missing_units", "import_occurrences", "import_edge_predictions", "units", "units_id_order",
                                     "units_avail_ok", "units_lex_eq_bind", "queries", "rows")}
        self.diffs = []
        self.mism = []
        self.wall = {}

    def run(self):
        t0 = time.time()
        root = os.path.join(self.scratch, self.root_name)
        write_cases(root, self.cases)
        langs = sorted({c["lang"] for c in self.cases})
        out = run_lian_p1(self.scratch, self.tag, ",".join(langs), [root])
        self.wall["lian"] = round(time.time() - t0, 1)
        t1 = time.time()
        self.wsp = wsp = Workspace(out)
        self.idx = unit_index(wsp, self.root_name)
        # ---- correspondence: every unit of the workspace (generated + lian's own extern mocks)
        reqs, meta = [], []
        for unit in sorted(wsp.units):
            q = unit_queries(wsp, unit, self.ops)
            reqs.append(scopes_request(wsp, unit, self.ops, q))
            reqs.append(resolver_request(wsp, unit, self.kinds, q))
            meta.append((unit, q))
        reps = drv_ok(drv_batch(reqs))
        for i, (unit, q) in enumerate(meta):
            rs, rr = reps[2 * i], reps[2 * i + 1]
            self.diffs += compare_unit(wsp, unit, self.ops, self.kinds, q, rs, rr)
            self.stats["units"] += 1
            self.stats["rows"] += len(wsp.units[unit])
            self.stats["queries"] += len(q)
            self.stats["units_id_order"] += bool(rs["id_order"])
            self.stats["units_avail_ok"] += bool(rs["avail_ok"])
            self.stats["units_lex_eq_bind"] += rs["lex"] == rs["bind"]
        self.wall["model"] = round(time.time() - t1, 1)
        t2 = time.time()
        for c in self.cases:
            self.mism += eval_case(wsp, c, self.idx, self.ops, self.stats)
        self.wall["oracle"] = round(time.time() - t2, 1)
        return self


# ====================================================================== shrinking

def tree_candidates(tree):
    """All trees obtained by deleting one statement or unwrapping one compound statement."""
    res = []

    def rec(stmts, rebuild):
        for i, s in enumerate(stmts):
            res.append(rebuild(stmts[:i] + stmts[i + 1:]))
            for key in ("body", "else", "handler", "final"):
                sub = s.get(key)
                if isinstance(sub, list):
                    if s["k"] not in ("def", "class", "func", "tryf"):
                        res.append(rebuild(stmts[:i] + sub + stmts[i + 1:]))

                    def rb(new, i=i, s=s, key=key, stmts=stmts):
                        s2 = dict(s)
                        s2[key] = new
                        return rebuild(stmts[:i] + [s2] + stmts[i + 1:])
                    rec(sub, rb)
    rec(tree, lambda x: x)
    return res


def shrink_case(scratch, case, rel, signature, ops, kinds, rounds=6, width=80):
    """Greedy tree shrinking: each round evaluates up to `width` single-step reductions of the
    failing file in ONE packed lian run; keeps the smallest that still shows a mismatch with the
    same (name, finding) signature."""
    cur = case
    for rnd in range(rounds):
        tree = cur["trees"][rel]
        cands = []
        for t in tree_candidates(tree):
            if cur["lang"] == "python":
                src = py_source(t)
                if not py_valid(src):
                    continue
            else:
                if not js_valid(t) or JsOracle(json.loads(json.dumps(t))).tdz:
                    continue
                src = js_source(t)
            c = json.loads(json.dumps({k: v for k, v in cur.items()}))
            c["id"] = f"s{rnd}_{len(cands):03d}"
            c["files"][rel] = src
            c["trees"][rel] = js_strip(t)
            cands.append(c)
        if not cands:
            break
        cands.sort(key=lambda c: len(c["files"][rel]))
        cands = cands[:width]
        try:
            b = Batch(scratch, f"shr{rnd}", cands, ops, kinds).run()
        except LianRunError:
            break
        good = {}
        for m in b.mism:
            if (m["name"], m["finding"]) == signature:
                good.setdefault(m["case"], m)
        best = next((c for c in cands if c["id"] in good), None)
        if best is None:
            break
        cur = best
    return cur


# ====================================================================== corpus

def load_corpus():
    d = os.path.join(common.VERIF, "corpus", PROP)
    res = []
    if os.path.isdir(d):
        for f in sorted(os.listdir(d)):
            if f.endswith(".json"):
                c = json.load(open(os.path.join(d, f)))
                c["id"] = "corpus_" + f[:-5].replace("-", "_")
                c.setdefault("trees", {})
                if c.get("proj"):
                    # a package project: files and tags are rendered from the structure
                    c.update({k: v for k, v in make_proj_case(c["id"], c["proj"]).items() if k in ("files", "imports")})
                res.append(c)
    return res


# ====================================================================== run / replay

def run(ctx):
    common.use_repo()
    proofs_ok = ctx.proofs()
    ops, kinds = live_params()
    from lian.config import constants as C
    KIND_BLOCK[0] = int(C.LIAN_SYMBOL_KIND.BLOCK_KIND)
    scratch = os.path.join(common.SCRATCH_ROOT, f"lv-{os.getpid()}")
    os.makedirs(scratch, exist_ok=True)
    try:
        _run(ctx, proofs_ok, ops, kinds, scratch)
    finally:
        shutil.rmtree(scratch, ignore_errors=True)


def _run(ctx, proofs_ok, ops, kinds, scratch):
    tier = ctx.tier
    corpus = load_corpus()
    if tier == "quick":
        plan = [(100, 100, 3, 25, 30, 20)]
        n_hoist = 3000
    else:
        plan = [(150, 150, 3, 40, 80, 50)] * 4 + [(120, 120, 4, 40, 80, 50)] * 4
        n_hoist = 20000
    batches = []
    for i, (npy, njs, depth, nimp, npkg, npos) in enumerate(plan):
        cases = gen_cases(ctx.rng, npy, njs, depth, f"b{i}", n_imp=nimp, n_pkg=npkg, n_pos=npos)
        if i == 0:
            cases = corpus + cases
        batches.append(Batch(scratch, f"b{i}", cases, ops, kinds))
    from concurrent.futures import ThreadPoolExecutor
    with ThreadPoolExecutor(max_workers=8) as ex:
        futs = [ex.submit(b.run) for b in batches]
        # meanwhile: hoisting model vs the real handler, in-process
        t0 = time.time()
        h_n, h_changed, h_diffs = hoist_correspondence(ctx.rng, n_hoist, [])
        h_wall = round(time.time() - t0, 1)
        for f in futs:
            f.result()

    stats = {k: sum(b.stats[k] for b in batches) for k in batches[0].stats}
    diffs = [d for b in batches for d in b.diffs] + h_diffs
    mism = [(b, m) for b in batches for m in b.mism]
    open_ids = set(ctx.finding_ids("open"))
    known, unknown = [], []
    for b, m in mism:
        (known if m["finding"] in open_ids else unknown).append((b, m))
    by_finding = {}
    for _, m in known:
        by_finding.setdefault(m["finding"], []).append(m)
    for fid, ms in sorted(by_finding.items()):
        m = ms[0]
        ctx.known(fid, f"{len(ms)} occurrence(s), e.g. {m['case']}/{m['file']}:{m['line']} `{m['text']}` name {m['name']} "
                       f"expected {fmt_exp(m['expected'])} got {fmt_real(m['real'])}")
        for _ in ms[1:]:
            ctx.known_hits[fid] += 1

    ncases = sum(len(b.cases) for b in batches)
    ctx.cov["evaluations"] = stats["occurrences"]
    ctx.cov["distinct_nontrivial"] = stats["resolved"]
    ctx.cov["rule"] = (f"corpus ({len(corpus)} cases) + {ncases - len(corpus)} generated programs "
                       f"(Python: nested functions/classes/shadowing/global/nonlocal/blocks; JavaScript: var/let/const in nested "
                       f"blocks, closures, parameters, for-loops; multi-file Python projects with plain/alias/from/from-as/package/"
                       f"wildcard imports) packed into {len(batches)} lian run(s) (lang + P1); "
                       "evaluation = one identifier occurrence compared with the oracle (CPython symtable+ast / generator "
                       "scope tags); non-trivial = occurrence for which the oracle selects a declaration (not 'unresolved'); "
                       "every table of every unit of the workspace is also diffed against the Lean model")
    ctx.cov["exhaustive"] = False
    ctx.cov["cases"] = ncases
    ctx.cov["stats"] = stats
    ctx.cov["fragment"] = {"units": stats["units"], "units_satisfying_IdOrder": stats["units_id_order"],
                           "units_with_avail_equal_to_ancestor_chain": stats["units_avail_ok"],
                           "units_where_resolver_equals_lexical_spec": stats["units_lex_eq_bind"]}
    ctx.cov["correspondence"] = {"units_compared": stats["units"], "bindings_compared": stats["queries"],
                                 "hoist_trees_compared": h_n, "hoist_trees_changed_by_handler": h_changed,
                                 "hoist_wall_s": h_wall, "differences": len(diffs)}
    ctx.cov["oracle_mismatches"] = {"known": {k: len(v) for k, v in by_finding.items()}, "unknown": len(unknown)}
    ctx.cov["wall"] = [b.wall for b in batches]
    ctx.cov["samples"] = [{"case": c["id"], "source": c["files"][sorted(c["files"])[0]][:400]}
                          for c in (batches[0].cases[len(corpus):len(corpus) + 1] + batches[0].cases[-1:])]
    ctx.cov["fingerprints"] = fingerprints()

    if unknown:
        b, m = unknown[0]
        case = next(c for c in b.cases if c["id"] == m["case"])
        small = case
        if case.get("proj"):
            try:
                small = shrink_proj(scratch, case, m["file"], (m["name"], m["finding"]), ops, kinds)
            except Exception as e:      # shrinking is best-effort
                small = case
        elif case.get("trees", {}).get(m["file"]) is not None and "imports" not in case:
            try:
                small = shrink_case(scratch, case, m["file"], (m["name"], m["finding"]), ops, kinds,
                                    rounds=8 if tier == "quick" else 14)
            except Exception as e:      # shrinking is best-effort
                small = case
        ctx.violation({"what": "an identifier occurrence is bound to a declaration the language's scoping rules do not select "
                               "(oracle: CPython symtable / generator scope tags)",
                       "lang": case["lang"], "files": small["files"], "trees": small.get("trees", {}),
                       "imports": small.get("imports"), "proj": small.get("proj"),
                       "first_mismatch_in_original": m, "unknown_mismatches_in_run": len(unknown),
                       "original_files": case["files"] if small is not case else None})
    elif diffs or not proofs_ok:
        ctx.violation({"what": "proof obligation or correspondence broken; the oracle found no mis-bound occurrence outside "
                               "the recorded known findings in this run",
                       "broken_theorems": ctx.audit["failures"],
                       "correspondence": {"models": ["LianVerif.Scopes.scopeTable", "LianVerif.Scopes.closure",
                                                     "LianVerif.Resolver.bind"],
                                          "differences": len(diffs), "first": [shorten(d) for d in diffs[:3]]}},
                      no_input=True)


def shorten(d):
    return json.loads(json.dumps(d, default=str)[:4000] + '"') if False else {k: (v if len(json.dumps(v, default=str)) < 1500 else json.dumps(v, default=str)[:1500] + "…") for k, v in d.items()}


def fmt_exp(e):
    if e is None:
        return "unresolved"
    return "decl@" + ",".join(f"L{d[0]}:{d[1]}" for d in e["decls"][:3])


def fmt_real(r):
    if r is None:
        return "unresolved"
    if "id" in r:
        return f"{r['op']} {r['name']}@L{r['line']}"
    return f"symbol {r.get('symbol')}"


def fingerprints():
    import hashlib, inspect
    res = {}
    try:
        from lian.basics import scope_hierarchy as sh
        from lian.core import resolver as rs
        from lian.events.default_event_handlers import add_var_decl as av
        for name, fn in (("discover_scopes", sh.UnitScopeHierarchyAnalysis.discover_scopes),
                         ("determine_scope", sh.UnitScopeHierarchyAnalysis.determine_scope),
                         ("correct_scopes", sh.UnitScopeHierarchyAnalysis.correct_scopes),
                         ("summarize_symbol_decls", sh.UnitScopeHierarchyAnalysis.summarize_symbol_decls),
                         ("resolve_symbol_source_decl", rs.Resolver.resolve_symbol_source_decl),
                         ("organize_return_value", rs.Resolver.organize_return_value),
                         ("adjust_variable_decls", av.adjust_variable_decls),
                         ("process_variable_decl", av.process_variable_decl),
                         ("finalize_frame", av.finalize_frame)):
            res[name] = hashlib.sha256(inspect.getsource(fn).encode()).hexdigest()[:16]
    except Exception as e:
        res["error"] = str(e)
    return res


def replay(rp):
    """Re-run the real code on the replay's files; 1 if an occurrence is still mis-bound in a way no
    open known finding describes."""
    common.use_repo()
    ops, kinds = live_params()
    from lian.config import constants as C
    KIND_BLOCK[0] = int(C.LIAN_SYMBOL_KIND.BLOCK_KIND)
    if rp.get("no_failing_input_found") or not rp.get("files"):
        print(json.dumps({"note": "replay names a proof/correspondence break, no concrete input"}))
        return 1
    scratch = os.path.join(common.SCRATCH_ROOT, f"lv-{os.getpid()}")
    os.makedirs(scratch, exist_ok=True)
    try:
        case = {"id": "replay", "lang": rp["lang"], "files": rp["files"], "trees": rp.get("trees") or {}}
        if rp.get("imports"):
            case["imports"] = rp["imports"]
        if rp.get("proj"):
            case["proj"] = rp["proj"]
        b = Batch(scratch, "rp", [case], ops, kinds).run()
        findings = {f["id"] for f in json.load(open(os.path.join(common.VERIF, "known_findings.json")))["findings"]
                    if f["property"] == PROP and f.get("status", "open") == "open"}
        bad = [m for m in b.mism if m["finding"] not in findings]
        print(json.dumps({"mismatches": b.mism, "violating": len(bad), "correspondence_differences": len(b.diffs)}, default=str)[:3000])
        return 1 if bad else 0
    finally:
        shutil.rmtree(scratch, ignore_errors=True)
