"""C02, LEG 1 / LEG 1b on the fragment modelled in Lean (Model/LowerCore.lean).

LEG 1   the Lean model of the per-language lowering (driver "lowercore", dialect table) vs the structured GIR
        converted from lian's REAL rows of the same packed runs the monitor uses, compared after renaming %vvN
        temporaries by first occurrence and dropping absent attributes (C01's canonicalisation).
LEG 1b  (sanity of the theorem statements) the GIR reference semantics on the MODEL's output ("coreexec") vs
        evalCore; they must agree outside the recorded open-defect shapes (and/or, continue in while).

A LEG-1 difference is a broken correspondence: the monitor (real GIR executed vs evalCore) decides whether there
is a failing input; otherwise the verdict is VIOLATION … no-failing-input-found naming the correspondence.
"""
import json
import common, c01, c01_core, c02gen
from common import drv_batch

MODELLED = ["python", "php", "c", "go", "java", "typescript"]


def unmodelled(lang, prog):
    """renderings the lowering model does not cover (the monitor covers them): string constants with escapes / quotes
    (the model prints tokens without escaping), interpolated / template strings, compound assignment and increment, and —
    for Java — multi-level literal-only expressions (the model folds one level)."""
    sh = c02gen.shapes(prog)
    if sh & {"special_str", "interp", "aug"}:
        return True
    return lang == "java" and "lit_tree" in sh


def compare(progs, ev, outs, st, breaks, skip=lambda lang, prog: False):
    """st: running statistics dict; breaks: {"leg1": [...], "leg1b": [...]};
    skip(lang, prog): the real rows of this program are known not to be what the frontend would emit for its source
    (third-party grammar misparse recorded as an open finding) — excluded from LEG 1, counted."""
    reqs, meta = [], []
    for l in MODELLED:
        if l not in outs:
            continue
        for i, p in enumerate(progs):
            r = outs[l]["results"][i]
            if r.get("gir") is None:
                continue
            if skip(l, p):
                st.setdefault(l + ":skipped_known_grammar_misparse", 0)
                st[l + ":skipped_known_grammar_misparse"] += 1
                continue
            if unmodelled(l, p):
                st.setdefault(l + ":outside_modelled_renderings", 0)
                st[l + ":outside_modelled_renderings"] += 1
                continue
            cj = c02gen.core_json(p)
            reqs.append({"m": "lowercore", "prog": cj, "lang": l, "variant": "current"})
            reqs.append({"m": "coreexec", "prog": cj, "lang": l, "variant": "current", "entry": p["entry"], "argvs": p["argvs"]})
            meta.append((l, i))
    if not reqs:
        return
    reps = drv_batch(reqs, timeout=1500)
    for k, (l, i) in enumerate(meta):
        low, mx = reps[2 * k], reps[2 * k + 1]
        p = progs[i]
        s = st.setdefault(l, {"inside_fragment": 0, "outside_fragment": 0, "leg1_equal": 0, "leg1_diff": 0,
                              "leg1b_equal": 0, "leg1b_diff_known_shape": 0, "leg1b_diff": 0, "stmts_real": 0})
        if "ok" not in low:
            s["leg1_diff"] += 1
            breaks["leg1"].append({"language": l, "source": c02gen.render(p, l), "first_difference": "driver: " + str(low)[:200]})
            continue
        if low["ok"] is None:
            s["outside_fragment"] += 1
            continue
        s["inside_fragment"] += 1
        real = outs[l]["results"][i]["gir"]
        a, b = c01_core.canon_gir(real), c01_core.canon_gir(low["ok"])
        s["stmts_real"] += json.dumps(a).count('"op"')
        if a == b:
            s["leg1_equal"] += 1
        else:
            s["leg1_diff"] += 1
            if len(breaks["leg1"]) < 5:
                breaks["leg1"].append({"language": l, "source": c02gen.render(p, l), "program": c02gen.core_json(p),
                                       "first_difference": c01_core.first_diff(a, b)})
        if "ok" in mx and mx["ok"] is not None and isinstance(ev[i], list) and all(not o[1].startswith("err:") for o in ev[i]):
            mxo = [(o["out"], o["result"]) for o in mx["ok"]]
            if c01.same_all(mxo, ev[i]):
                s["leg1b_equal"] += 1
            elif c02gen.shapes(p) & {"boolop", "while_continue"} or (l != "python" and "div" in c02gen.shapes(p)):
                # (`/` in the model's rows of Java, Go, C: integer division only by the harness-side reading of the language)
                s["leg1b_diff_known_shape"] += 1
            else:
                s["leg1b_diff"] += 1
                if len(breaks["leg1b"]) < 5:
                    breaks["leg1b"].append({"language": l, "source": c02gen.render(p, l), "program": c02gen.core_json(p),
                                            "coreexec": mxo, "evalcore": ev[i]})


def report(ctx, st, breaks):
    ctx.cov["core_fragment"] = st
    per = {l: s for l, s in st.items() if isinstance(s, dict)}
    ctx.cov["fragment"] = {l: {"inside_modelled_fragment": s["inside_fragment"], "outside": s["outside_fragment"]} for l, s in per.items()}
    n1 = sum(s["leg1_diff"] for s in per.values())
    n1b = sum(s["leg1b_diff"] for s in per.values())
    if (n1 or n1b) and not ctx.violations:
        rp = {"what": "correspondence broken on the modelled fragment; the monitor (real GIR executed vs evalCore) found no "
                      "failing input among this run's programs"}
        if breaks["leg1"]:
            rp["leg1"] = dict(breaks["leg1"][0], model="LianVerif.LowerCore.lowerProgram (driver lowercore) vs real rows", count=n1)
        if breaks["leg1b"]:
            rp["leg1b"] = dict(breaks["leg1b"][0], model="Gir.runEntry on LowerCore.lowerProgram output vs Core.runCore outside the "
                                                         "open-defect shapes", count=n1b)
        ctx.violation(rp, no_input=True)
