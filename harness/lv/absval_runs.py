"""Whole-run part of the C08 / C09 checks: plan the streams of generated programs, run lian on the packed
files (<= 4 worker processes), compare alpha(result tables) with ground truth / reference semantics / the
Lean model per definition, apply the known-finding matchers, shrink, build replay entries."""
import json, multiprocessing, os, random, shutil, time

import common
import absval_common as A

WORKERS = 4


# ---------------------------------------------------------------------------------------------------
# streams
# ---------------------------------------------------------------------------------------------------

def drop_unused_helpers(p):
    return A.prune_unused(p)


def gen_prog(rng, kind, name, prop, index=None):
    if kind == "core":
        feat = ["ints", "branches", "objects", "calls"] + (["strs"] if prop == "C08" else [])
        p = A.Gen(rng, name, feat, size=rng.randint(8, 13), calls_after_join=False, max_dec=4).program()
    elif kind == "caj":
        p = A.Gen(rng, name, ["ints", "branches", "objects", "calls"], size=rng.randint(8, 12),
                  calls_after_join=True, max_dec=3).program()
    elif kind == "multi":
        p = A.gen_multi_target(rng, name)
    elif kind in ("bf", "alias", "list", "chain", "dict", "nest", "mret", "comp"):
        p = A.gen_shape(rng, name, kind, strs=(prop == "C08"), variant=index)
    elif kind == "twin":
        p = A.Gen(rng, name, ["ints", "strs", "branches", "calls"], size=rng.randint(8, 12),
                  calls_after_join=False, max_dec=3).program()
    else:
        raise ValueError(kind)
    p = drop_unused_helpers(p)
    p["stream"] = kind
    return p


def gen_file(rng, tag, kinds, prop):
    """one packed file; kinds = list of stream kinds, one per program."""
    return {"tag": tag, "kind": "+".join(sorted(set(kinds))), "progs": [gen_prog(rng, k, f"{tag}x{i}", prop, i) for i, k in enumerate(kinds)]}


def plan(rng, prop, tier):
    q = tier == "quick"
    files = []
    if prop == "C08":
        if q:
            files.append(gen_file(rng, "a0", ["core"] * 8, prop))
            files.append(gen_file(rng, "a1", ["core"] * 8, prop))
            files.append(gen_file(rng, "a2", ["core"] * 8, prop))
            files.append(gen_file(rng, "a3", ["caj"] * 5 + ["multi"] * 4, prop))
            files.append(gen_file(rng, "s0", ["bf"] * 6 + ["alias"] * 5, prop))
            files.append(gen_file(rng, "s1", ["list"] * 6 + ["chain"] * 4, prop))
            files.append(gen_file(rng, "s2", ["dict"] * 6 + ["nest"] * 8, prop))
            files.append(gen_file(rng, "s3", ["mret"] * 6 + ["comp"] * 5, prop))
        else:
            files += [gen_file(rng, f"a{i}", ["core"] * 10, prop) for i in range(100)]
            files += [gen_file(rng, f"j{i}", ["caj"] * 6 + ["multi"] * 4, prop) for i in range(20)]
            files += [gen_file(rng, f"s{i}", ["bf"] * 4 + ["alias"] * 4 + ["list"] * 4 + ["chain"] * 2, prop) for i in range(40)]
            files += [gen_file(rng, f"u{i}", ["dict"] * 6 + ["nest"] * 7, prop) for i in range(30)]
            files += [gen_file(rng, f"v{i}", ["mret"] * 6 + ["comp"] * 5, prop) for i in range(20)]
    else:
        if q:
            files += [gen_file(rng, f"a{i}", ["core"] * 8, prop) for i in range(4)]
            files.append(gen_file(rng, "j0", ["caj"] * 7, prop))
            files.append(gen_file(rng, "s0", ["bf"] * 11 + ["alias"] * 3, prop))
            files.append(gen_file(rng, "s1", ["alias"] * 6 + ["chain"] * 5, prop))
            files.append(gen_file(rng, "s2", ["bf"] * 4 + ["mret"] * 6 + ["comp"] * 5, prop))
        else:
            files += [gen_file(rng, f"a{i}", ["core"] * 10, prop) for i in range(140)]
            files += [gen_file(rng, f"j{i}", ["caj"] * 8, prop) for i in range(20)]
            files += [gen_file(rng, f"s{i}", ["bf"] * 5 + ["alias"] * 5 + ["chain"] * 3, prop) for i in range(40)]
            files += [gen_file(rng, f"v{i}", ["mret"] * 6 + ["comp"] * 5 + ["bf"] * 3, prop) for i in range(25)]
    return files


# ---------------------------------------------------------------------------------------------------
# parallel evaluation
# ---------------------------------------------------------------------------------------------------

def _eval_file(args):
    f, scratch = args
    r = A.evaluate_batch(f["progs"], scratch, f["tag"])
    # tuple keys do not survive pickling through JSON-ish transport, but multiprocessing pickles natively
    return f["tag"], r


def evaluate_files(files, scratch):
    if not files:
        return {}
    with multiprocessing.get_context("fork").Pool(min(WORKERS, len(files))) as pool:
        res = pool.map(_eval_file, [(f, scratch) for f in files], chunksize=1)
    return dict(res)


# ---------------------------------------------------------------------------------------------------
# per-program comparison
# ---------------------------------------------------------------------------------------------------

def compare_prog(p, r, ref, undefined):
    """Returns dict(bad8=[defs], bad9=[defs], corr=[defs], ref_unsound=[defs], missing=[…], compared=n, gt_error=…)."""
    out = {"bad8": [], "bad9": [], "corr": [], "ref_unsound": [], "missing": [], "compared": 0, "nested8": [], "stale9": [], "cap": [], "callee8": [], "path8": [],
           "gt_error": r["errors"].get(p["name"]), "pyref_undefined": False, "model_undefined": p["name"] in undefined}
    exact, info = A.pyref(p, r["defs"], with_taint=True)
    if exact is None:
        out["pyref_undefined"] = True
        exact = {}
    # helpers invoked from helpers: their P3 tables are keyed by a context that is one call site deep
    nested = set()
    for stt in [x for h in p.get("helpers", []) for x in h["body"]] + [x for c in p.get("classes", []) for x in c.get("init", [])]:
        if stt[0] == "call":
            nested.add(stt[2])
        elif stt[0] == "callp":
            nested.add(stt[1])
        elif stt[0] == "new":
            nested.add(stt[2])
    # finding call-site-cap-stale-summary: main-body calls (straight-line order) of helpers that themselves call a helper
    forwarders = {h["name"] for h in p.get("helpers", []) if any(stt[0] in ("call", "callp") for stt in h["body"])}
    calls_of = {}
    for k, stt in enumerate(p["body"]):
        if stt[0] == "call" and stt[2] in forwarders:
            calls_of.setdefault(stt[2], []).append([k])
    for d, why in r["missing"]:
        if d["prog"] == p["name"]:
            out["missing"].append({"line": d["line"], "var": d["var"], "why": why})
    predicted = None          # frozen prediction of finding C08/callee-write-lost, computed on demand
    for d in r["defs"]:
        if d["prog"] != p["name"]:
            continue
        k = A.def_key(d)
        if k not in r["alpha"]:
            continue
        real = r["alpha"][k]
        g = r["gt"].get(k, [])
        m = ref.get(k)
        e = exact.get(k)
        out["compared"] += 1
        entry = {"line": d["line"], "var": d["var"], "kind": d["kind"], "sid": d["sid"], "ground_truth": g, "real": real,
                 "reference": e, "model": m}
        if d["sid"] and d["sid"][0] in ("h", "c") and d["sid"][1] in nested:
            # finding C08/nested-context-overwritten: the table holds the LAST analysis of the inner helper only.
            # Model-predicted: it must hold at least one complete invocation; precision is not judged here.
            invs = info["invocations"].get(k, [])
            if any(not A.covers(real, v) for v in g):
                if len(invs) >= 2 and any(all(A.covers(real, v) for v in inv) for inv in invs):
                    out["nested8"].append(entry)
                else:
                    out["bad8"].append(entry)
            continue
        if d["kind"] == "call" and len(d["sid"]) == 1 and e is not None and real != e:
            # third and later call of a forwarding helper: the inner call site is past MAX_ANALYSIS_ROUND_FOR_CALL_SITE and
            # the summary of its second analysis is applied again.  Model-predicted: the result equals the second call's.
            stt = p["body"][d["sid"][0]]
            sites = calls_of.get(stt[2], []) if stt[0] == "call" else []
            if d["sid"] in sites and sites.index(d["sid"]) >= 2:
                second = [x for x in r["defs"] if x["prog"] == p["name"] and x["sid"] == sites[1]]
                if second and real == exact.get(A.def_key(second[0])):
                    out["cap"].append(entry)
                    continue
        if d["sid"] and d["sid"][0] == "h" and d["sid"][1] in forwarders and len(calls_of.get(d["sid"][1], [])) >= 3 \
                and e is not None and real != e:
            # the same finding seen inside the forwarding helper: its third and later invocations repeat the second
            invs = info["invocations"].get(k, [])
            first_two = sorted({json.dumps(v) for inv in invs[:2] for v in inv})
            if len(invs) >= 3 and sorted(json.dumps(v) for v in real) == first_two:
                out["cap"].append(entry)
                continue
        if any(not A.covers(real, v) for v in g) and info.get("pathstale", {}).get(k) and real == info["pathstale"][k]:
            # finding C08/path-write-stale-after-deep-read, model-predicted: exactly the value the cell held before the
            # caller-side write through a path variable, and a depth-3 path read precedes this read
            out["path8"].append(entry)
            continue
        if any(not A.covers(real, v) for v in g) and e is not None and p.get("helpers"):
            # finding C08/callee-write-lost, model-predicted: the abstract set is exactly what the frozen variant of the
            # reference (callee-side deep / object-valued writes dropped) computes, and that differs from the exact set
            if predicted is None:
                predicted = (A.pyref(p, r["defs"], mode="lian") or {}, A.pyref(p, r["defs"], mode="lian_strong") or {})
            pw, ps = predicted[0].get(k), predicted[1].get(k)
            if pw is not None and ps is not None and (pw != e or ps != e) \
                    and all(v in real for v in ps) and all(v in pw for v in real):
                entry["predicted"] = [ps, pw]
                out["callee8"].append(entry)
                continue
        if any(not A.covers(real, v) for v in g):
            out["bad8"].append(entry)
        if e is not None and real != e:
            st = info["stale"].get(k, [])
            extra = [v for v in real if v not in e]
            if st and all(v in real for v in e) and (["*", "*"] in st or all(v in st for v in extra)):
                # finding C09/callee-write-keeps-old: exactly the values the cell held before a callee-side write
                entry["stale_allowed"] = st
                out["stale9"].append(entry)
            else:
                out["bad9"].append(entry)
        if m is not None and real != m:
            out["corr"].append(entry)
        if m is not None and any(not A.covers(m, v) for v in g):
            out["ref_unsound"].append(entry)
    return out


def first_def(prog, defs, entries):
    """the entry that comes first in program order."""
    return min(entries, key=lambda e: e["line"])


def clean(cmp, prop="C09"):
    """C08 judges coverage (and, where the Lean reference is defined, agreement with it); C09 judges exactness."""
    if prop == "C08":
        return not (cmp["bad8"] or cmp["missing"] or cmp["gt_error"])
    return not (cmp["bad8"] or cmp["bad9"] or cmp["missing"] or cmp["gt_error"])


# ---------------------------------------------------------------------------------------------------
# the program part
# ---------------------------------------------------------------------------------------------------

def run_program_part(ctx, st, scratch, prop):
    tier, rng = ctx.tier, ctx.rng
    t0 = time.time()
    files = plan(rng, prop, tier)
    # corpus programs first
    cdir = os.path.join(common.VERIF, "corpus", prop)
    cprogs = []
    if os.path.isdir(cdir):
        for f in sorted(os.listdir(cdir)):
            import foldcheck
            c = foldcheck.load_json(os.path.join(cdir, f))
            if c.get("kind") == "prog":
                cprogs.append(A.rename_prog(c["prog"], "k" + str(len(cprogs))))
    if cprogs:
        files.insert(0, {"tag": "corpus", "kind": "corpus", "progs": cprogs})
    twin_files = []
    if prop == "C08":
        twin_files = plan_twins(rng, tier)
    files += [pair[0] for pair in twin_files]          # the benign twins are ordinary programs of the run
    results = evaluate_files(files + [pair[1] for pair in twin_files], scratch)
    stats = {"files": len(files), "programs": 0, "definitions_compared": 0, "programs_clean": 0, "lian_seconds": [],
             "by_stream": {}, "model_undefined": 0, "gt_error": 0, "missing_defs": 0,
             "precision_only_differences_under_join_revisit": 0}
    suspects = []          # (file, prog, cmp)
    for f in files:
        r = results[f["tag"]]
        stats["lian_seconds"].append(round(r["secs"], 1))
        if r["rc"] != 0:
            st["failing"].append({"kind": "run", "what": f"lian run failed (rc={r['rc']}) on a packed file of generated fragment programs",
                                  "output": r["out"][-1200:], "text": r["text"], "stream": f["kind"], "progs": f["progs"],
                                  "why": "the analysis did not complete"})
            continue
        ref, undefined = A.aref_batch(f["progs"], r["defs"])
        for p in f["progs"]:
            cmp = compare_prog(p, r, ref, undefined)
            stats["programs"] += 1
            ctx.cov["evaluations"] += 1
            stats["definitions_compared"] += cmp["compared"]
            bs = stats["by_stream"].setdefault(p.get("stream", f["kind"]), {"programs": 0, "clean": 0})
            bs["programs"] += 1
            if cmp["model_undefined"]:
                stats["model_undefined"] += 1
            if cmp["gt_error"]:
                stats["gt_error"] += 1
                continue
            if cmp["missing"]:
                stats["missing_defs"] += len(cmp["missing"])
            if cmp["nested8"] and prop == "C08":
                e = cmp["nested8"][0]
                st["known"].append(("C08/nested-context-overwritten",
                                    f"definition inside a helper that is invoked from another helper: the P3 tables keep only the last analysis of that "
                                    f"context (context id is one call site deep): line {e['line']} `{r['text'].splitlines()[e['line'] - 1].strip()}` "
                                    f"ground truth {e['ground_truth']} abstract {e['real']}"))
            if cmp["callee8"] and prop == "C08":
                e = cmp["callee8"][0]
                st["known"].append(("C08/callee-write-lost",
                                    f"a field write performed inside a callee does not reach the caller (receiver read from a field of a parameter, or an "
                                    f"object-valued source): line {e['line']} `{r['text'].splitlines()[e['line'] - 1].strip()}` ground truth {e['ground_truth']} abstract {e['real']}"))
            if cmp["path8"] and prop == "C08":
                e = cmp["path8"][0]
                st["known"].append(("C08/path-write-stale-after-deep-read",
                                    f"after reads through a path of depth 3, a later read of a field that was written through a path variable returns the value "
                                    f"from before that write: line {e['line']} `{r['text'].splitlines()[e['line'] - 1].strip()}` ground truth {e['ground_truth']} abstract {e['real']}"))
            if cmp["cap"]:
                e = cmp["cap"][0]
                st["known"].append((f"{prop}/call-site-cap-stale-summary",
                                    f"third call of a helper that calls a helper: the inner call site is past MAX_ANALYSIS_ROUND_FOR_CALL_SITE and the summary of "
                                    f"its second analysis is applied: line {e['line']} `{r['text'].splitlines()[e['line'] - 1].strip()}` ground truth {e['ground_truth']} abstract {e['real']}"))
            if cmp["stale9"] and prop == "C09":
                e = cmp["stale9"][0]
                st["known"].append(("C09/callee-write-keeps-old",
                                    f"a field written inside a callee through a parameter keeps the value it had before the call: line {e['line']} "
                                    f"`{r['text'].splitlines()[e['line'] - 1].strip()}` exact {e['reference']} abstract {e['real']}"))
            if clean(cmp, prop) and not cmp["corr"] and not cmp["ref_unsound"]:
                stats["programs_clean"] += 1
                bs["clean"] += 1
                st["nontrivial"].add(json.dumps(p, sort_keys=True))
                continue
            suspects.append((f, p, cmp, r))
    # ---- known-finding matchers
    need_spec = []
    acct = {"suspects": len(suspects), "missing_definition": 0, "multi_target_matched": 0, "sent_to_specialisation": 0,
            "reported_directly": 0, "join_revisit_matched": 0, "specialisation_failed": 0}
    stats["suspect_accounting"] = acct
    for f, p, cmp, r in suspects:
        rel = cmp["bad8"] if prop == "C08" else (cmp["bad9"] or cmp["bad8"])
        if cmp["missing"]:
            acct["missing_definition"] += 1
            st["failing"].append(prog_failure(prop, p, r, cmp, "a definition of the program is absent from the P3 result tables", cmp["missing"][0]))
            continue
        ref, _ = A.aref_batch([p], r["defs"])
        if cmp["bad8"] and not cmp["corr"] and A.multi_target_write_before(p, r["defs"], ref, first_def(p, r["defs"], cmp["bad8"])):
            # real == frozen reference model, the reference model is what violates C08, shape matches
            acct["multi_target_matched"] += 1
            if prop == "C08":
                e = first_def(p, r["defs"], cmp["bad8"])
                st["known"].append(("C08/multi-target-field-write",
                                    f"field write through a receiver that may denote two objects replaces the field of both: line {e['line']} "
                                    f"`{r['text'].splitlines()[e['line'] - 1].strip()}` ground truth {e['ground_truth']} abstract {e['real']}"))
            continue
        relevant = cmp["bad8"] if (prop == "C08" and cmp["bad8"]) else ((cmp["bad9"] if prop == "C09" else []) or cmp["bad8"] or cmp["corr"])
        if A.has_branch(p) and A.join_revisit_shape(p, r["defs"], relevant):
            acct["sent_to_specialisation"] += 1
            need_spec.append((f, p, cmp, r))
            continue
        acct["reported_directly"] += 1
        record_violation(ctx, st, prop, p, r, cmp)
    if need_spec:
        spec_files = []
        index = {}
        for n, (f, p, cmp, r) in enumerate(need_spec):
            import itertools
            specs = []
            for vi, vec in enumerate(itertools.product([0, 1], repeat=p["ndec"])):
                if vi >= 32:
                    break
                specs.append(A.specialise(p, vec, f"s{n}v{vi}"))
            index[n] = specs
            spec_files.append({"tag": f"spec{n}", "kind": "spec", "progs": specs})
        sres = evaluate_files(spec_files, scratch)
        for n, (f, p, cmp, r) in enumerate(need_spec):
            sr = sres[f"spec{n}"]
            bad_spec = None
            if sr["rc"] != 0:
                bad_spec = ("run", None)
            else:
                sref, sundef = A.aref_batch(index[n], sr["defs"])
                for sp in index[n]:
                    c2 = compare_prog(sp, sr, sref, sundef)
                    if not clean(c2, prop) or c2["corr"]:
                        bad_spec = (sp, c2)
                        break
            if bad_spec is None:
                acct["join_revisit_matched"] += 1
                # every branch-free specialisation is analysed exactly: the deviation needs the join
                if prop == "C08" and cmp["bad8"]:
                    e = first_def(p, r["defs"], cmp["bad8"])
                    st["known"].append(("C08/join-revisit",
                                        f"statement after an if-join analysed with the states of the first branch to arrive (worklist order, see C06/dag-join-def-lost): "
                                        f"line {e['line']} `{r['text'].splitlines()[e['line'] - 1].strip()}` ground truth {e['ground_truth']} abstract {e['real']}"))
                elif prop == "C09" and (cmp["bad9"] or cmp["bad8"]):
                    e = first_def(p, r["defs"], cmp["bad9"] or cmp["bad8"])
                    st["known"].append(("C09/join-revisit",
                                        f"statement after an if-join keeps or loses states of one branch (worklist order, see C06/dag-join-def-lost): "
                                        f"line {e['line']} `{r['text'].splitlines()[e['line'] - 1].strip()}` exact {e['reference']} abstract {e['real']}"))
                else:
                    stats["precision_only_differences_under_join_revisit"] += 1
            elif bad_spec[0] == "run":
                st["failing"].append({"kind": "run", "what": "lian run failed on the branch-free specialisations of a program", "output": sr["out"][-800:],
                                      "text": sr["text"], "why": "the analysis did not complete"})
            else:
                acct["specialisation_failed"] += 1
                sp, c2 = bad_spec
                record_violation(ctx, st, prop, sp, sr, c2)
    # ---- adversarial twins (C08)
    if prop == "C08":
        check_twins(ctx, st, twin_files, results, stats)
    stats["wall_s"] = round(time.time() - t0, 1)
    ctx.cov["program_runs"] = stats
    ctx.cov["programs"] = stats["programs"]
    ctx.cov["disagreements_checked"] = len(suspects)
    samples = []
    for f in files[:2]:
        r = results[f["tag"]]
        if r["rc"] == 0 and f["progs"]:
            p = f["progs"][-1]
            text, _, _ = A.render_file([p])
            samples.append({"stream": f["kind"], "program": text})
    ctx.cov["samples"] = ctx.cov.get("samples", []) + samples


def prog_failure(prop, p, r, cmp, why, entry):
    text, defs, _ = A.render_file([p])
    entry = dict(entry)
    for d in defs:
        if d["sid"] == entry.get("sid") and d["var"] == entry.get("var"):
            entry["line_in_text"] = d["line"]
    entry["line_in_packed_file"] = entry.pop("line", None)
    return {"kind": "prog", "check": prop, "prog": p, "text": text, "why": why, "definition": entry}


def record_violation(ctx, st, prop, p, r, cmp):
    """p deviates and no known finding explains it."""
    if prop == "C08":
        if cmp["bad8"]:
            e = first_def(p, r["defs"], cmp["bad8"])
            st["failing"].append(prog_failure(prop, p, r, cmp, "a concrete value is not covered by the abstract value set of the definition", e))
        elif cmp["corr"] or cmp["ref_unsound"]:
            e = (cmp["corr"] or cmp["ref_unsound"])[0]
            st["corr"].append({"model": "LianVerif.Aref.run (reference abstract interpreter)", "program": A.render_file([p])[0],
                               "definition": e})
    else:
        if cmp["bad9"] or cmp["bad8"]:
            e = first_def(p, r["defs"], cmp["bad9"] or cmp["bad8"])
            st["failing"].append(prog_failure(prop, p, r, cmp, "the abstract value set differs from the exact set of the loop-free program", e))
        elif cmp["corr"] or cmp["ref_unsound"]:
            e = (cmp["corr"] or cmp["ref_unsound"])[0]
            st["corr"].append({"model": "LianVerif.Aref.run (reference abstract interpreter)", "program": A.render_file([p])[0],
                               "definition": e})
    if not (cmp["bad8"] or cmp["bad9"] or cmp["corr"] or cmp["ref_unsound"]):
        # nothing above applied (a definition missing from the tables, CPython raised): never drop a suspect silently
        what = cmp["missing"][0] if cmp["missing"] else {"cpython_error": cmp["gt_error"]}
        st["failing"].append(prog_failure(prop, p, r, cmp, "a definition of the program is absent from the P3 result tables, or the program could not be executed", what))


# ---------------------------------------------------------------------------------------------------
# adversarial twins: a string literal's content changes no other expression, no crash, no slow-down
# ---------------------------------------------------------------------------------------------------

ADV_LITS = ['"', "'", "\\", "+", " ", "(", ")", "*", "1", "2", "a", "n", "#", "%", "-", "<", "=", "e", "é", "0", "_", "{", "}",
            "/", "中", "**", "__import__", "'+'", '"+"', "\\n", "\\'", "9"]


def adv_literal(rng):
    r = rng.random()
    if r < 0.08:
        return "A" * rng.choice([5000, 60000])
    if r < 0.16:
        return rng.choice(['" + "x', "' + 'x", '" + __import__("os").system("true") + "', "9**9**9**9", '" * 99999999 + "',
                           "\\", "\\\\", "'''", '"""', "%99999999s", "a\nb", "\t"])
    return "".join(rng.choice(ADV_LITS) for _ in range(rng.randint(1, 8)))


def substitute_strings(prog, mapping):
    def sub(x):
        if isinstance(x, list):
            if len(x) == 2 and x[0] == "c" and isinstance(x[1], str):
                return ["c", mapping.setdefault(x[1], x[1])]
            if len(x) == 3 and x[0] == "const" and isinstance(x[2], str):
                return ["const", x[1], mapping.setdefault(x[2], x[2])]
            return [sub(y) for y in x]
        return x
    return dict(prog, body=sub(prog["body"]))


def plan_twins(rng, tier):
    pairs = []
    for fi in range(1 if tier == "quick" else 12):
        ben = gen_file(rng, f"t{fi}b", ["twin"] * 6, "C08")
        adv_progs = []
        for p in ben["progs"]:
            mapping = {c: adv_literal(rng) for c in A.string_consts(p)}
            q = substitute_strings(p, mapping)
            adv_progs.append(q)
        adv = {"tag": f"t{fi}a", "kind": "twin-adv", "progs": adv_progs, "adversarial": True}
        ben["kind"] = "twin-ben"
        pairs.append((ben, adv))
    return pairs


def check_twins(ctx, st, twin_files, results, stats):
    tw = {"pairs": 0, "programs": 0, "int_definitions_compared": 0, "adversarial_seconds": [], "benign_seconds": []}
    for ben, adv in twin_files:
        rb, ra = results[ben["tag"]], results[adv["tag"]]
        tw["pairs"] += 1
        tw["adversarial_seconds"].append(round(ra["secs"], 1))
        tw["benign_seconds"].append(round(rb["secs"], 1))
        if ra["rc"] != 0:
            st["failing"].append({"kind": "twin", "what": "lian run fails on the adversarial twin (string constants replaced) but not on the benign one"
                                  if rb["rc"] == 0 else "lian run fails on both twins", "output": ra["out"][-1200:], "text": ra["text"],
                                  "progs_adv": adv["progs"], "progs_ben": ben["progs"], "why": "content of a string literal changed the analyser's control flow"})
            continue
        if rb["rc"] != 0:
            continue
        if ra["secs"] > 5 * rb["secs"] + 5:
            st["failing"].append({"kind": "twin", "what": f"adversarial twin took {ra['secs']:.1f}s, benign twin {rb['secs']:.1f}s", "text": ra["text"],
                                  "progs_adv": adv["progs"], "progs_ben": ben["progs"], "why": "content of a string literal changed the running time"})
            continue
        for pb, pa in zip(ben["progs"], adv["progs"]):
            tw["programs"] += 1
            ctx.cov["evaluations"] += 1
            db = [d for d in rb["defs"] if d["prog"] == pb["name"]]
            da = [d for d in ra["defs"] if d["prog"] == pa["name"]]
            for x, y in zip(db, da):
                kb, ka = A.def_key(x), A.def_key(y)
                g = rb["gt"].get(kb, [])
                if any(v[0] == "s" for v in g) or not g:
                    continue                        # the string-valued definitions themselves are not "other expressions"
                tw["int_definitions_compared"] += 1
                vb, va = rb["alpha"].get(kb), ra["alpha"].get(ka)
                if vb != va:
                    ta = A.render_file([pa])[0]
                    st["failing"].append({"kind": "twin-prog", "prog_adv": pa, "prog_ben": pb, "text": ta, "why": "the value of an expression that does not use the string changed with the string's content",
                                          "definition": {"line_adv": y["line"], "var": y["var"], "adversarial": va, "benign": vb}})
                    break
            else:
                st["nontrivial"].add(json.dumps(pa, sort_keys=True))
    stats["twins"] = tw


# ---------------------------------------------------------------------------------------------------
# replay
# ---------------------------------------------------------------------------------------------------

def replay_program(rp):
    scratch = os.path.join(common.SCRATCH_ROOT, f"lv-{os.getpid()}")
    os.makedirs(scratch, exist_ok=True)
    try:
        kind = rp.get("kind")
        if kind == "prog":
            p = rp["prog"]
            r = A.evaluate_batch([p], scratch, "replay")
            if r["rc"] != 0:
                print(json.dumps({"violates": True, "why": "lian run failed", "output": r["out"][-500:]}))
                return 1
            ref, undef = A.aref_batch([p], r["defs"])
            cmp = compare_prog(p, r, ref, undef)
            bad = cmp["bad8"] or cmp["missing"] if rp.get("check") == "C08" else (cmp["bad9"] or cmp["bad8"] or cmp["missing"])
            print(json.dumps({"violates": bool(bad), "first": (bad or [None])[0]}, default=str))
            return 1 if bad else 0
        if kind in ("run", "twin"):
            src = os.path.join(scratch, "replay.py")
            with open(src, "w") as f:
                f.write(rp["text"])
            rc, out, secs = A.run_lian(src, os.path.join(scratch, "ws"))
            print(json.dumps({"violates": rc != 0, "rc": rc, "seconds": round(secs, 1), "output": out[-500:]}))
            return 1 if rc != 0 else 0
        if kind == "twin-prog":
            ra = A.evaluate_batch([rp["prog_adv"]], scratch, "adv")
            rb = A.evaluate_batch([rp["prog_ben"]], scratch, "ben")
            diff = False
            for x, y in zip(rb["defs"], ra["defs"]):
                g = rb["gt"].get(A.def_key(x), [])
                if g and not any(v[0] == "s" for v in g) and rb["alpha"].get(A.def_key(x)) != ra["alpha"].get(A.def_key(y)):
                    diff = True
            print(json.dumps({"violates": diff}))
            return 1 if diff else 0
        print(json.dumps({"violates": False, "why": "replay file names no input (proof or correspondence break)"}))
        return 0
    finally:
        shutil.rmtree(scratch, ignore_errors=True)
