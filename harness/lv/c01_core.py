"""C01, legs 1 and 2 on the *core fragment* modelled in Lean (Spec/PySrc.lean, Model/LowerPy.lean).

LEG 1  model of the lowering + passes (driver "lowerpy", variant current) vs the structured GIR converted
       from lian's REAL rows, compared after renaming %vvN temporaries by first occurrence.
LEG 2  reference source semantics (driver "evalpy") vs CPython.
LEG 1b (sanity of the theorem statement) GIR semantics on the MODEL's output ("modelexec") vs "evalpy".

A LEG-1 difference is a broken correspondence: the same programs are pushed through LEG 3 (real GIR
executed vs CPython); a failing input found there is reported as such, otherwise the verdict is
VIOLATION … no-failing-input-found naming the correspondence.
"""
import json, random
import common, pygen, c01
from common import drv_batch

ARITH = ["+", "-", "*", "//", "%"]
CMPS = ["<", "<=", ">", ">=", "==", "!="]
WORDS = ["", "a", "ab", "xy", "q r", "z9"]


class CoreGen:
    """typed generator for the fragment; AST node forms are pygen's (so pygen.render renders it)."""
    def __init__(self, seed):
        self.r = random.Random(seed)
        self.n = 0
        self.funcs = []          # (name, [param types], ret type, effectful, heavy)
        self.globals = {}        # module-level variables: name -> type
        self.ro = set()          # names that may only be read in the function being generated

    def fresh(self, p="v"):
        self.n += 1
        return f"{p}{self.n}"

    def lit(self, ty):
        r = self.r
        if ty == "int":
            return ("int", r.choice([0, 1, 2, 3, 5, 7, 10, 12]))
        if ty == "bool":
            return ("bool", r.random() < 0.5)
        return ("str", r.choice(WORDS))

    def atom(self, env, ty):
        vs = [x for x, t in env.items() if t == ty]
        if vs and self.r.random() < 0.7:
            return ("name", self.r.choice(vs))
        if ty == "int" and self.r.random() < 0.1:
            return ("neg", self.lit("int"))
        return self.lit(ty)

    def expr(self, env, ty, d=0, in_loop=False):
        r = self.r
        if d >= 3 or r.random() < 0.25 + 0.12 * d:
            return self.atom(env, ty)
        k = r.random()
        if ty == "int":
            if k < 0.40:
                op = r.choice(["+", "-", "+", "-", "*"])
                if op == "*":
                    return ("bin", "*", self.expr(env, "int", d + 1, in_loop), ("int", r.choice([0, 1, 2, 3])))
                return ("bin", op, self.expr(env, "int", d + 1, in_loop), self.expr(env, "int", d + 1, in_loop))
            if k < 0.50:
                return ("bin", r.choice(["//", "%"]), self.expr(env, "int", d + 1, in_loop), ("int", r.choice([2, 3, 5, 7])))
            if k < 0.58:
                return ("neg", self.expr(env, "int", d + 1, in_loop))
            if k < 0.70:
                return ("ifexp", self.expr(env, "int", d + 1, in_loop), self.expr(env, "bool", d + 1, in_loop), self.expr(env, "int", d + 1, in_loop))
            if k < 0.80:
                return ("boolop", r.choice(["and", "or"]), self.expr(env, "int", d + 1, in_loop), self.expr(env, "int", d + 1, in_loop))
            c = self.call(env, "int", d, in_loop)
            return c if c is not None else self.atom(env, "int")
        if ty == "bool":
            if k < 0.40:
                t = "int" if r.random() < 0.8 else "str"
                ops = CMPS if t == "int" else ["==", "!=", "<", ">="]
                return ("cmp", [r.choice(ops)], [self.expr(env, t, d + 1, in_loop), self.expr(env, t, d + 1, in_loop)])
            if k < 0.52:
                return ("cmp", [r.choice(CMPS), r.choice(CMPS)],
                        [self.expr(env, "int", d + 1, in_loop) for _ in range(3)])
            if k < 0.72:
                rhs = self.expr(env, "bool", d + 1, in_loop)
                if r.random() < 0.3:
                    c = self.call(env, "bool", d, in_loop, want_effect=True)
                    if c is not None:
                        rhs = c
                return ("boolop", r.choice(["and", "or"]), self.expr(env, "bool", d + 1, in_loop), rhs)
            if k < 0.82:
                return ("not", self.expr(env, "bool", d + 1, in_loop))
            if k < 0.90:
                return ("ifexp", self.expr(env, "bool", d + 1, in_loop), self.expr(env, "bool", d + 1, in_loop), self.expr(env, "bool", d + 1, in_loop))
            c = self.call(env, "bool", d, in_loop)
            return c if c is not None else self.atom(env, "bool")
        # str
        if k < 0.45:
            return ("bin", "+", self.expr(env, "str", d + 1, in_loop), self.lit("str"))
        if k < 0.60:
            return ("ifexp", self.expr(env, "str", d + 1, in_loop), self.expr(env, "bool", d + 1, in_loop), self.expr(env, "str", d + 1, in_loop))
        if k < 0.70:
            return ("bin", "*", self.lit("str"), ("int", r.choice([0, 1, 2])))
        c = self.call(env, "str", d, in_loop)
        return c if c is not None else self.atom(env, "str")

    def call(self, env, ty, d, in_loop, want_effect=False):
        cands = [f for f in self.funcs if f[2] == ty and not (in_loop and f[4])]
        if want_effect:
            eff = [f for f in cands if f[3]]
            cands = eff or cands
        if not cands:
            return None
        f = self.r.choice(cands)
        return ("call", f[0], [self.expr(env, t, d + 1, in_loop) for t in f[1]], [])

    def block(self, env, n, in_loop, ret_ty, depth):
        body = []
        for _ in range(n):
            body += self.stmt(env, in_loop, ret_ty, depth)
        return body or [("pass",)]

    def stmt(self, env, in_loop, ret_ty, depth):
        r = self.r
        k = r.random()
        if k < 0.25 or len(env) < 2:
            ty = r.choice(["int", "int", "bool", "str"])
            e = self.expr(env, ty, 0, in_loop)
            x = self.fresh()
            env[x] = ty
            return [("assign", ("name", x), e)]
        if k < 0.38:
            ty = r.choice(["int", "int", "bool", "str"])
            vs = [x for x, t in env.items() if t == ty and not x.startswith("i") and x not in self.ro]
            if vs:
                return [("assign", ("name", r.choice(vs)), self.expr(env, ty, 0, in_loop))]
        if k < 0.52:
            vs = [x for x, t in env.items() if t == "int" and not x.startswith("i") and x not in self.ro]
            if vs:
                op = r.choice(["+", "-", "*", "//", "%"])
                rhs = self.expr(env, "int", 1, in_loop) if op in ("+", "-") else ("int", r.choice([2, 3]))
                return [("aug", op, ("name", r.choice(vs)), rhs)]
            vs = [x for x, t in env.items() if t == "str" and x not in self.ro]
            if vs:
                return [("aug", "+", ("name", r.choice(vs)), self.lit("str"))]
        if k < 0.68 and depth < 3:
            c = self.expr(env, "bool", 0, in_loop) if r.random() < 0.85 else self.atom(env, r.choice(["int", "str"]))
            thn = self.block(dict(env), r.randint(1, 3), in_loop, ret_ty, depth + 1)
            if ret_ty and r.random() < 0.1:
                thn.append(("return", self.expr(env, ret_ty, 1, in_loop)))
            els = self.block(dict(env), r.randint(1, 2), in_loop, ret_ty, depth + 1) if r.random() < 0.5 else None
            if in_loop and r.random() < 0.25:
                thn.append((r.choice(["break", "continue"]),))
            return [("if", [(c, thn)], els)]
        if k < 0.78 and depth < 2:
            i = self.fresh("i")
            bound = r.randint(1, 4)
            base = ("cmp", ["<"], [("name", i), ("int", bound)])
            kk = r.random()
            if kk < 0.6:
                cond = base
            elif kk < 0.8:
                cond = ("boolop", "and", base, self.expr(env, "bool", 1, True))
            else:
                cond = ("cmp", ["<", "<="], [("neg", ("int", 1)), ("name", i), ("int", bound - 1)])
            env[i] = "int"
            inner = dict(env)
            body = [("aug", "+", ("name", i), ("int", 1))] + self.block(inner, r.randint(1, 3), True, ret_ty, depth + 1)
            return [("assign", ("name", i), ("int", 0)), ("while", cond, body, None)]
        if k < 0.92:
            args = []
            for _ in range(r.randint(1, 3)):
                vs = list(env)
                args.append(("name", r.choice(vs)) if vs and r.random() < 0.7 else self.expr(env, r.choice(["int", "bool", "str"]), 1, in_loop))
            return [("print", args)]
        fs = [f for f in self.funcs if not (in_loop and f[4])]
        if fs:
            f = r.choice(fs)
            return [("expr", ("call", f[0], [self.expr(env, t, 1, in_loop) for t in f[1]], []))]
        return [("pass",)]

    def func(self, name, ptypes, ret_ty, nst):
        env = dict(self.globals)
        params = []
        for t in ptypes:
            p = self.fresh("p")
            env[p] = t
            params.append(p)
        body = []
        eff = False
        written = [g for g in self.globals if self.r.random() < 0.3]
        self.ro = set(self.globals) - set(written)
        if written:
            body.append(("global", written))
            g = self.r.choice(written)
            if self.globals[g] == "int":
                body.append(("assign", ("name", g), ("bin", "+", ("name", g), self.expr(env, "int", 2, False))))
            eff = True
        if self.r.random() < 0.4:
            body.append(("print", [("str", name)] + [("name", p) for p in params[:2]]))
            eff = True
        body += self.block(env, nst, False, ret_ty, 0)
        heavy = "while" in json.dumps(pygen.to_json(body))
        body.append(("return", self.expr(env, ret_ty, 1, False)))
        self.ro = set()
        return ("def", name, [(p, None, False) for p in params], body), eff, heavy

    def program(self):
        r = self.r
        body = []
        for _ in range(r.randint(0, 3)):
            self.globals[self.fresh("g")] = r.choice(["int", "int", "str", "bool"])
        for _ in range(r.randint(0, 3)):
            name = self.fresh("fn")
            ptypes = [r.choice(["int", "int", "bool", "str"]) for _ in range(r.randint(0, 3))]
            ret = r.choice(["int", "int", "bool", "str"])
            d, eff, heavy = self.func(name, ptypes, ret, r.randint(1, 5))
            body.append(d)
            self.funcs.append((name, ptypes, ret, eff, heavy))
        ptypes = [r.choice(["int", "int", "bool", "str"]) for _ in range(3)]
        env = dict(self.globals)
        params = []
        for t in ptypes:
            p = self.fresh("x")
            env[p] = t
            params.append(p)
        ebody = []
        written = [g for g in self.globals if r.random() < 0.3]
        self.ro = set(self.globals) - set(written)
        if written:
            ebody.append(("global", written))
        ebody += self.block(env, r.randint(3, 9), False, None, 0)
        self.ro = set()
        outs = list(env)
        r.shuffle(outs)
        ebody.append(("print", [("name", x) for x in outs[:4]]))
        ebody.append(("return", self.expr(env, r.choice(["int", "bool", "str"]), 1, False)))
        body.append(("def", "entry", [(p, None, False) for p in params], ebody))
        # module-level statements (after the definitions): initial values of the globals, then a few statements
        top = [("assign", ("name", g), self.lit(t)) for g, t in self.globals.items()]
        if r.random() < 0.5:
            tenv = dict(self.globals)
            top += self.block(tenv, r.randint(1, 3), False, None, 1)
        body += top
        argvs = []
        for _ in range(3):
            av = []
            for t in ptypes:
                av.append(r.choice([0, 1, 2, 3, 5, -1, -4, 9]) if t == "int" else (r.random() < 0.5 if t == "bool" else r.choice(WORDS)))
            argvs.append(av)
        return {"body": body, "entry": "entry", "argvs": argvs}


# ------------------------------------------------------------------ AST -> Lean JSON
def ce(x):
    k = x[0]
    if k in ("int", "bool", "str"):
        return ["const", x[1]]
    if k == "none":
        return ["const", None]
    if k == "name":
        return ["name", x[1]]
    if k == "bin":
        return ["bin", x[1], ce(x[2]), ce(x[3])]
    if k == "neg":
        return ["un", "-", ce(x[1])]
    if k == "not":
        return ["un", "not", ce(x[1])]
    if k == "cmp":
        if len(x[1]) == 1:
            return ["bin", x[1][0], ce(x[2][0]), ce(x[2][1])]
        if len(x[1]) == 2:
            return ["cmp3", x[1][0], x[1][1], ce(x[2][0]), ce(x[2][1]), ce(x[2][2])]
    if k == "boolop":
        return ["boolop", x[1], ce(x[2]), ce(x[3])]
    if k == "ifexp":
        return ["ifexp", ce(x[1]), ce(x[2]), ce(x[3])]
    if k == "call" and not x[3]:
        return ["call", x[1], [ce(a) for a in x[2]]]
    raise ValueError(f"outside the fragment: {x!r}")


def cs(x):
    k = x[0]
    if k == "assign" and x[1][0] == "name":
        return ["assign", x[1][1], ce(x[2])]
    if k == "aug" and x[2][0] == "name":
        return ["aug", x[2][1], x[1], ce(x[3])]
    if k == "expr":
        return ["expr", ce(x[1])]
    if k == "print":
        return ["expr", ["call", "print", [ce(a) for a in x[1]]]]
    if k == "if" and len(x[1]) == 1:
        return ["if", ce(x[1][0][0]), csl(x[1][0][1]), csl(x[2] or [])]
    if k == "while" and x[3] is None:
        return ["while", ce(x[1]), csl(x[2])]
    if k in ("break", "continue", "pass"):
        return [k]
    if k == "global":
        return [["global", n] for n in x[1]]
    if k == "return" and x[1] is not None:
        return ["return", ce(x[1])]
    raise ValueError(f"outside the fragment: {x!r}")


def csl(stmts):
    """statement list (a `global a, b` yields one statement per name, as lian emits them)."""
    out = []
    for s in stmts:
        c = cs(s)
        if c and isinstance(c[0], list):
            out += c
        else:
            out.append(c)
    return out


def core_json(prog):
    fns, top = [], []
    for s in prog["body"]:
        if s[0] == "def":
            if top:
                raise ValueError("definition after a module-level statement: outside the fragment")
            fns.append({"name": s[1], "params": [p[0] for p in s[2]], "body": csl(s[3])})
        else:
            top.append(s)
    return {"fns": fns, "top": csl(top)}


# ------------------------------------------------------------------ canonical form of structured GIR
def canon_gir(tree):
    """drop absent attributes, rename %vvN by first occurrence (keys visited in sorted order)."""
    names = {}

    def ren(tok):
        if isinstance(tok, str) and tok.startswith("%vv"):
            if tok not in names:
                names[tok] = f"%t{len(names) + 1}"
            return names[tok]
        return tok

    def go(x):
        if isinstance(x, list):
            return [go(y) for y in x]
        if isinstance(x, dict):
            out = {}
            for k in sorted(x):
                v = x[k]
                if v is None or v == []:
                    continue
                out[k] = go(v)
            return out
        return ren(x)

    return go(tree)


def first_diff(a, b, path="$"):
    if type(a) != type(b):
        return f"{path}: {json.dumps(a)[:120]} != {json.dumps(b)[:120]}"
    if isinstance(a, list):
        for i, (x, y) in enumerate(zip(a, b)):
            d = first_diff(x, y, f"{path}[{i}]")
            if d:
                return d
        if len(a) != len(b):
            return f"{path}: lengths {len(a)} != {len(b)}; extra: {json.dumps((a + b)[min(len(a), len(b))])[:160]}"
        return None
    if isinstance(a, dict):
        for k in sorted(set(a) | set(b)):
            if k not in a or k not in b:
                return f"{path}.{k}: present only on one side ({json.dumps(a.get(k, b.get(k)))[:120]})"
            d = first_diff(a[k], b[k], f"{path}.{k}")
            if d:
                return d
        return None
    return None if a == b else f"{path}: {a!r} != {b!r}"


def drv(reqs):
    out = []
    for rep in drv_batch(reqs):
        out.append(rep["ok"] if "ok" in rep else "driver: " + str(rep.get("err"))[:300])
    return out


def sizes(tier):
    return {"n": 400, "chunk": 100} if tier == "quick" else {"n": 18000, "chunk": 300}


def process_chunk(arg):
    """worker: (seeds, open finding ids) -> LEG 1 / 2 / 1b / 3 summary for these fragment programs."""
    part, open_ids = arg
    scratch = c01.Scratch()
    st = {"programs": 0, "rejected_by_oracle": 0, "leg1_equal": 0, "leg1_diff": 0, "leg2_equal": 0, "leg2_diff": 0,
          "leg1b_equal": 0, "leg1b_diff_known_shape": 0, "leg1b_diff": 0, "leg3_pass": 0, "leg3_known": 0, "leg3_fail": 0,
          "stmts_real": 0}
    leg1_breaks, leg2_breaks, leg1b_breaks, known, failing = [], [], [], {}, []
    try:
        progs = [CoreGen(s).program() for s in part]
        res3 = c01.evaluate(scratch, progs)           # real lian + girexec + CPython
        reqs = []
        for p in progs:
            cj = core_json(p)
            reqs.append({"m": "lowerpy", "prog": cj, "variant": "current", "stage": "final"})
            reqs.append({"m": "evalpy", "prog": cj, "entry": p["entry"], "argvs": p["argvs"]})
            reqs.append({"m": "modelexec", "prog": cj, "variant": "current", "entry": p["entry"], "argvs": p["argvs"]})
        reps = drv(reqs)
        for i, (s, p, r3) in enumerate(zip(part, progs, res3)):
            model_gir, ev, mx = reps[3 * i], reps[3 * i + 1], reps[3 * i + 2]
            st["programs"] += 1
            if r3["status"] == "reject":
                st["rejected_by_oracle"] += 1
                continue
            src = r3["source"]
            # ---- LEG 2
            evo = None
            if isinstance(ev, str):
                leg2_breaks.append((s, src, ev, r3["cpy"]))
                st["leg2_diff"] += 1
            else:
                evo = [(o["out"], o["result"]) for o in ev]
                if c01.same_all(evo, r3["cpy"]):
                    st["leg2_equal"] += 1
                else:
                    st["leg2_diff"] += 1
                    leg2_breaks.append((s, src, evo, r3["cpy"]))
            # ---- LEG 1
            real = r3.get("gir")
            if real is None or isinstance(model_gir, str):
                st["leg1_diff"] += 1
                leg1_breaks.append((s, src, str(model_gir)[:200] if isinstance(model_gir, str) else "no real GIR: " + str(r3["real"])[:200]))
            else:
                a, b = canon_gir(real), canon_gir(model_gir)
                st["stmts_real"] += json.dumps(a).count('"op"')
                if a == b:
                    st["leg1_equal"] += 1
                else:
                    st["leg1_diff"] += 1
                    leg1_breaks.append((s, src, first_diff(a, b)))
            # ---- LEG 1b: exec(model output) vs evalpy — must agree outside the open-defect shapes
            if not isinstance(mx, str) and evo is not None:
                mxo = [(o["out"], o["result"]) for o in mx]
                if c01.same_all(mxo, evo):
                    st["leg1b_equal"] += 1
                elif pygen.shapes(p) & {"boolop", "while_continue_nonatomic", "late_name"}:
                    st["leg1b_diff_known_shape"] += 1
                else:
                    st["leg1b_diff"] += 1
                    leg1b_breaks.append((s, src, mxo, evo))
            # ---- LEG 3 on the same program
            if r3["status"] == "pass":
                st["leg3_pass"] += 1
            else:
                fids, sim = c01.explain(r3, open_ids)
                if fids:
                    st["leg3_known"] += 1
                    for fid in fids:
                        known.setdefault(fid, s)
                else:
                    st["leg3_fail"] += 1
                    failing.append(s)
    finally:
        scratch.cleanup()
    return {"st": st, "leg1": leg1_breaks[:3], "leg2": leg2_breaks[:3], "leg1b": leg1b_breaks[:3],
            "n1": len(leg1_breaks), "n2": len(leg2_breaks), "n1b": len(leg1b_breaks), "known": known, "failing": failing[:2]}


def run(ctx, scratch, proofs_ok):
    import multiprocessing
    n = sizes(ctx.tier)["n"]
    chunk = sizes(ctx.tier)["chunk"]
    seeds = [ctx.rng.getrandbits(48) for _ in range(n)]
    open_ids = ctx.finding_ids("open")
    jobs = [(seeds[off:off + chunk], open_ids) for off in range(0, n, chunk)]
    total = None
    leg1, leg2, leg1b, failing = [], [], [], []
    n1 = n2 = n1b = 0
    with multiprocessing.Pool(min(c01.workers(), len(jobs))) as pool:
        for out in pool.imap(process_chunk, jobs):
            if total is None:
                total = dict(out["st"])
            else:
                for k, v in out["st"].items():
                    total[k] += v
            ctx.cov["evaluations"] += out["st"]["programs"]
            leg1 += out["leg1"]; leg2 += out["leg2"]; leg1b += out["leg1b"]; failing += out["failing"]
            n1 += out["n1"]; n2 += out["n2"]; n1b += out["n1b"]
            for fid, s in out["known"].items():
                ctx.known(fid, f"e.g. core-fragment seed {s}: executing lian's GIR differs from CPython exactly as this defect predicts")
    ctx.cov["core_fragment"] = total
    ctx.cov["fragment"] = {"inside_modelled_fragment": total["programs"],
                           "note": "the packed LEG-3 batch of c01.py is generated over the whole grammar and is outside the modelled fragment"}
    if n:
        p = CoreGen(seeds[0]).program()
        ctx.cov.setdefault("samples", []).append({"core_fragment_seed": seeds[0], "source": pygen.render(p), "argvs": p["argvs"]})
    if failing and not ctx.violations:
        s = failing[0]
        r = c01.evaluate(scratch, [CoreGen(s).program()])[0]

        def still(rr, _open=open_ids):
            f, _ = c01.explain(rr, _open)
            return not f
        if r["status"] in ("mismatch", "nogir") and still(r):
            small = c01.shrink(scratch, r["prog"], still)
            rs = c01.evaluate(scratch, [small])[0]
            if rs["status"] not in ("mismatch", "nogir") or not still(rs):
                rs = r
            ctx.violation({"what": "core fragment: executing the GIR lian emits differs from CPython "
                                   "(not predicted by any recorded open finding)",
                           "generator": "c01_core.CoreGen", "generator_seed": s, "source": rs["source"],
                           "entry": rs["prog"]["entry"], "argvs": rs["prog"]["argvs"],
                           "real_gir_exec": c01.trim(rs["real"]), "cpython": c01.trim(rs["cpy"]), "gir": rs.get("gir"),
                           "failing_core_programs_in_run": len(failing)})
    if (n1 or n2 or n1b) and not ctx.violations:
        rp = {"what": "correspondence broken on the core fragment; LEG 3 (real GIR executed vs CPython) found no failing input "
                      "among this run's programs"}
        if leg1:
            s, src, d = leg1[0]
            rp["leg1"] = {"model": "LianVerif.LowerPy.pipeline (driver lowerpy) vs real rows", "count": n1,
                          "generator_seed": s, "source": src, "first_difference": d}
        if leg2:
            s, src, a, b = leg2[0]
            rp["leg2"] = {"model": "LianVerif.PySrc.runProg (driver evalpy) vs CPython", "count": n2,
                          "generator_seed": s, "source": src, "evalpy": a, "cpython": b}
        if leg1b:
            s, src, a, b = leg1b[0]
            rp["leg1b"] = {"model": "Gir.exec on LowerPy.pipeline output vs PySrc.runProg outside the open-defect shapes",
                           "count": n1b, "generator_seed": s, "source": src, "modelexec": a, "evalpy": b}
        ctx.violation(rp, no_input=True)
