"""Correspondence + oracle for constant folding (`StmtStates.compute_two_states` and the two-operand part
of `assign_stmt_state`) — the "literal text is only data" clause of C08 and the "binary operations on
constants are exact" clause of C09.

real code : called in-process on stub frames (no analysis run needed)
model     : lvdrv model "fold" (LianVerif/Model/Fold.lean: `fold`, `binStates`; frozen `fold0`, `binStates0`)
oracle    : Python's operators applied to the operand *data* (never to a text built from it)
"""
import json, operator, os, subprocess, sys, time, types

import common

OPS = ["+", "-", "*", "//", "%", "**", "<<", "<", "<=", "==", "!="]
PYOP = {"+": operator.add, "-": operator.sub, "*": operator.mul, "//": operator.floordiv, "%": operator.mod,
        "**": operator.pow, "<<": operator.lshift, "<": operator.lt, "<=": operator.le, "==": operator.eq,
        "!=": operator.ne}
DT = {"int": "%int", "string": "%string", "other": "%float", "non": "K0"}
DT_BACK = {"%int": "int", "%string": "string"}
PINNED_COMMIT = "4980434"


# ---------------------------------------------------------------------------------------------------
# encoding of Python objects for the driver
# ---------------------------------------------------------------------------------------------------

def enc_val(v):
    if isinstance(v, bool):
        return ["b", v]
    if isinstance(v, int):
        return ["i", v]
    if isinstance(v, str):
        return ["s", v]
    raise TypeError(type(v))


def enc_state(s):
    """s = (value, dt) or None (a non-REGULAR state)."""
    if s is None:
        return None
    return enc_val(s[0]) + [s[1]]


def dumps(x):
    old = sys.get_int_max_str_digits()
    sys.set_int_max_str_digits(0)
    try:
        return json.dumps(x, separators=(",", ":"))
    finally:
        sys.set_int_max_str_digits(old)


def pack_state(s):
    """(value, dt) -> JSON-safe list: ints above CPython's int->str limit travel as hexadecimal text."""
    if s is None:
        return None
    v, dt = s
    if isinstance(v, int) and not isinstance(v, bool) and v.bit_length() > 8000:
        return [{"hexint": hex(v)}, dt]
    return [v, dt]


def unpack_state(s):
    if s is None:
        return None
    v, dt = s
    if isinstance(v, dict) and "hexint" in v:
        v = int(v["hexint"], 16)
    return (v, dt)


def load_json(path):
    old = sys.get_int_max_str_digits()
    sys.set_int_max_str_digits(0)
    try:
        return json.load(open(path))
    finally:
        sys.set_int_max_str_digits(old)


def drv(requests):
    """lvdrv on a list of requests (big ints allowed)."""
    ok, log, _ = common.LeanSide.build()
    if not ok:
        raise RuntimeError("lean build failed: " + log[-800:])
    data = "\n".join(dumps(r) for r in requests) + "\n"
    p = subprocess.run([common.DRV], input=data, capture_output=True, text=True, timeout=3600)
    lines = [l for l in p.stdout.split("\n") if l]
    if len(lines) != len(requests):
        raise RuntimeError(f"driver returned {len(lines)} lines for {len(requests)} requests: {p.stderr[-500:]}")
    old = sys.get_int_max_str_digits()
    sys.set_int_max_str_digits(0)
    try:
        out = []
        for l in lines:
            j = json.loads(l)
            if "ok" not in j:
                raise RuntimeError("driver error: " + l[:300])
            out.append(j["ok"])
        return out
    finally:
        sys.set_int_max_str_digits(old)


# ---------------------------------------------------------------------------------------------------
# the real code on stub frames
# ---------------------------------------------------------------------------------------------------

class RealFold:
    """Calls compute_two_states / assign_stmt_state of a StmtStates class (the live one, or the class
    rebuilt from the pinned commit's source) without running an analysis."""

    def __init__(self, stmt_states_cls):
        from lian.common_structs import State, Symbol
        from lian.config.constants import STATE_TYPE_KIND
        self.cls = stmt_states_cls
        self.State, self.Symbol, self.KIND = State, Symbol, STATE_TYPE_KIND

    def _stub(self, created):
        import inspect
        cls = self.cls

        class Stub:
            """an object that has only what the two methods under test need; every other attribute is
            looked up on the real class (so helper methods added by later edits keep working)."""
            def __getattr__(self, name):
                raw = inspect.getattr_static(cls, name)
                if isinstance(raw, staticmethod):
                    return raw.__func__
                if isinstance(raw, classmethod):
                    return types.MethodType(raw.__func__, cls)
                if inspect.isfunction(raw):
                    return types.MethodType(raw, self)
                return raw
        stub = Stub()
        stub.frame = types.SimpleNamespace(stmt_id_to_status={1: types.SimpleNamespace()}, stmt_counters={1: 1},
                                           symbol_state_space=[])
        space = stub.frame.symbol_state_space

        def create(status, stmt_id, source_symbol_id=-1, source_state_id=-1, value="", data_type="",
                   state_type=self.KIND.REGULAR, **kw):
            st = self.State(stmt_id=stmt_id, value=value, data_type=str(data_type), state_type=state_type)
            space.append(st)
            created.append(st)
            return len(space) - 1
        stub.create_state_and_add_space = create
        stub.update_access_path_state_id = lambda idx: None
        return stub

    def fold(self, op, s1, s2):
        """-> ["none"] | ["state", [k, v], dt] | ["crash", exc] ; plus seconds."""
        created = []
        stub = self._stub(created)
        stmt = types.SimpleNamespace(stmt_id=1, operator=op, operation="assign_stmt")
        sym = self.Symbol(stmt_id=1, name="t")
        st1 = self.State(stmt_id=1, value=s1[0], data_type=DT[s1[1]])
        st2 = self.State(stmt_id=1, value=s2[0], data_type=DT[s2[1]])
        t = time.perf_counter()
        try:
            res = stub.compute_two_states(stmt, st1, st2, sym)
        except BaseException as e:      # noqa  (SystemExit included: the run would end)
            return ["crash", type(e).__name__], time.perf_counter() - t
        dt = time.perf_counter() - t
        if not res:
            return ["none"], dt
        assert len(res) == 1 and len(created) == 1
        st = created[0]
        return ["state", st.value, st.data_type], dt

    def bin(self, op, S1, S2):
        """the two-operand part of assign_stmt_state.  S = list of (value, dt) or None (an ANYTHING state).
        -> ["states", [(value, dt) | None …]] | ["crash", exc]"""
        created = []
        stub = self._stub(created)
        space = stub.frame.symbol_state_space

        def add_states(S):
            idx = set()
            for s in S:
                if s is None:
                    st = self.State(stmt_id=1, value=None, data_type="", state_type=self.KIND.ANYTHING)
                else:
                    st = self.State(stmt_id=1, value=s[0], data_type=DT[s[1]])
                space.append(st)
                idx.add(len(space) - 1)
            return idx
        i1, i2 = add_states(S1), add_states(S2)
        opnd1 = self.Symbol(stmt_id=1, name="a"); opnd1.states = i1
        opnd2 = self.Symbol(stmt_id=1, name="b"); opnd2.states = i2
        target = self.Symbol(stmt_id=1, name="t")
        space.extend([opnd1, opnd2, target])
        n = len(space)
        status = types.SimpleNamespace(used_symbols=[n - 3, n - 2], defined_symbol=n - 1)
        stub.frame.stmt_id_to_status[1] = status
        stub.read_used_states = lambda index, in_states: set(space[index].states)
        stub.sfg = types.SimpleNamespace(add_edge=lambda *a, **k: None)
        stub.make_used_symbol_sfg_node = stub.make_symbol_sfg_node = stub.make_stmt_sfg_edge = lambda *a, **k: None
        stmt = types.SimpleNamespace(stmt_id=1, operator=op, operation="assign_stmt", operand="a", operand2="b", target="t")
        try:
            stub.assign_stmt_state(1, stmt, status, set())
        except BaseException as e:      # noqa
            return ["crash", type(e).__name__]
        out = []
        for i in target.states:
            st = space[i]
            if st.state_type != self.KIND.REGULAR:
                out.append(None)
            else:
                out.append((st.value, st.data_type))
        return ["states", out]


def live_class():
    from lian.core.stmt_states import StmtStates
    return StmtStates


def pinned_class():
    """StmtStates rebuilt from the pinned commit's source (git object of $LIAN_REPO); None if unavailable."""
    try:
        p = subprocess.run(["git", "-C", common.REPO, "show", f"{PINNED_COMMIT}:src/lian/core/stmt_states.py"],
                           capture_output=True, text=True, timeout=60)
        if p.returncode != 0:
            return None
        mod = types.ModuleType("lian_pinned_stmt_states")
        mod.__dict__["__builtins__"] = __builtins__
        exec(compile(p.stdout, "<pinned stmt_states.py>", "exec"), mod.__dict__)
        return mod.StmtStates
    except Exception:      # noqa
        return None


def canon_real(r):
    """real result -> the driver's reply shape, or a marker the model cannot produce."""
    if r[0] == "state":
        v, dt = r[1], r[2]
        if isinstance(v, (bool, int, str)) and dt in DT_BACK:
            return ["state", enc_val(v), DT_BACK[dt]]
        return ["state?", repr(v)[:80], dt]
    if r[0] == "crash":
        return ["crash"]
    return r


def canon_states(lst):
    """list of (value, dt)|None -> sorted distinct canonical entries."""
    out = set()
    for s in lst:
        if s is None:
            out.add("null")
        else:
            v, dt = s
            if isinstance(v, (bool, int, str)) and dt in DT_BACK:
                out.add(dumps(enc_val(v) + [DT_BACK[dt]]))
            else:
                out.add(dumps(["?", repr(v)[:60], dt]))
    return sorted(out)


def canon_model_states(lst):
    return sorted({("null" if s is None else dumps(s)) for s in lst})


# ---------------------------------------------------------------------------------------------------
# oracle: Python's operators on the data
# ---------------------------------------------------------------------------------------------------

def data_of(s):
    """the concrete value a state (value, dt) stands for; raises ValueError when it is not an int/str constant
    of the fragment (e.g. an %int state whose text is not a decimal number)."""
    v, dt = s
    if dt == "int":
        if isinstance(v, bool) or isinstance(v, int):
            return v
        if isinstance(v, str) and v.isascii() and v.isdigit():
            return int(v)
        raise ValueError
    if dt == "string":
        if isinstance(v, str):
            return v
        raise ValueError
    raise ValueError


SAFE_BITS = 200000


def oracle(op, s1, s2):
    """("value", v) : Python's `a op b` on the data is v;  ("raises",) : it raises;  ("skip",) : outside the
    oracle (operand not a constant of the fragment, float result, printf formatting, astronomically large)."""
    try:
        a, b = data_of(s1), data_of(s2)
    except ValueError:
        return ("skip",)
    if isinstance(a, str) != isinstance(b, str):
        return ("skip",)                    # mixed str/int: the fragment has no such operation
    if isinstance(a, str):
        if op == "%":
            return ("skip",)
    else:
        if op == "**" and (b < 0 or abs(a).bit_length() * b > SAFE_BITS):
            return ("skip",)
        if op == "<<" and b > SAFE_BITS:
            return ("skip",)
    try:
        return ("value", PYOP[op](a, b))
    except Exception:      # noqa
        return ("raises",)


def same_value(x, y):
    return type(x) is type(y) and x == y


# ---------------------------------------------------------------------------------------------------
# running the real code under a watchdog (a constant must not be able to stall the harness either)
# ---------------------------------------------------------------------------------------------------

def _worker(kind, which, cases, start, conn):
    import io, contextlib, resource
    # a broken size guard must not be able to exhaust the machine's memory through the harness
    try:
        resource.setrlimit(resource.RLIMIT_AS, (6 * 1024 ** 3, 6 * 1024 ** 3))
    except (ValueError, OSError):
        pass
    common.use_repo()
    cls = live_class() if which == "live" else pinned_class()
    rf = RealFold(cls)
    sink = io.StringIO()
    for i in range(start, len(cases)):
        with contextlib.redirect_stderr(sink):
            if kind == "fold":
                r = rf.fold(*cases[i])
            else:
                r = rf.bin(*cases[i])
        conn.send((i, r))            # synchronous: a result is delivered before the next case starts
    conn.send(None)


def run_real(kind, cases, which="live", per_case_timeout=10.0, max_timeouts=3):
    """Runs `cases` through the real code in a child process.  Returns a list, one entry per case:
    fold -> (result, seconds), bin -> result; a case that does not finish within `per_case_timeout` seconds
    is reported as (["timeout"], per_case_timeout) / ["timeout"] and the child is restarted after it.  After
    `max_timeouts` timeouts the remaining cases are not run (reported as ["skipped"]): the run already has
    its failing inputs and must itself stay bounded."""
    import multiprocessing
    mp = multiprocessing.get_context("fork")
    n = len(cases)
    results = [None] * n
    nxt = 0
    timeouts = 0
    while nxt < n:
        if timeouts >= max_timeouts:
            for i in range(nxt, n):
                results[i] = (["skipped"], 0.0) if kind == "fold" else ["skipped"]
            break
        parent, child = mp.Pipe(duplex=False)
        p = mp.Process(target=_worker, args=(kind, which, cases, nxt, child), daemon=True)
        p.start()
        child.close()
        try:
            while nxt < n:
                if not parent.poll(per_case_timeout):
                    results[nxt] = (["timeout"], per_case_timeout) if kind == "fold" else ["timeout"]
                    nxt += 1
                    timeouts += 1
                    break
                try:
                    item = parent.recv()
                except EOFError:
                    # the child died (e.g. MemoryError in native code, killed by the address-space limit)
                    results[nxt] = (["crash", "child process died"], 0.0) if kind == "fold" else ["crash", "child process died"]
                    nxt += 1
                    timeouts += 1
                    break
                if item is None:
                    nxt = n
                    break
                i, r = item
                results[i] = r
                nxt = i + 1
        finally:
            p.kill()
            p.join()
            parent.close()
    return results
