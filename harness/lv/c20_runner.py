"""Starts lian exactly like `python src/lian/main.py <args>` (lian.main.main with the same argv), after wrapping — from
the harness side, nothing in the repo is touched — the method with which P3GlobalSemanticAnalysis.run creates the root
frame of one entry point.  Every root frame that is created prints one line `LV-ROOT <method id>`, so the set of
top-down starts is observed independently of lian's own console text.  `lian` is imported from PYTHONPATH."""
import sys


def main():
    import lian.main as lian_main
    try:
        from lian.core.global_semantics import P3GlobalSemanticAnalysis as P3
        original = P3.init_frame_stack

        def wrapped(self, entry_method_id, *args, **kwargs):
            print(f"LV-ROOT {int(entry_method_id)}", flush=True)
            return original(self, entry_method_id, *args, **kwargs)
        P3.init_frame_stack = wrapped
        print("LV-ROOT-WRAP ok", flush=True)
    except Exception as e:          # the method was renamed / moved: the harness falls back to artefacts + console
        print(f"LV-ROOT-WRAP unavailable {type(e).__name__}", flush=True)
    lian_main.main()


if __name__ == "__main__":
    main()
