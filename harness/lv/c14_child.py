"""Child process of the C14 check: runs lian exactly as `python src/lian/main.py <argv>` would, in THIS
process (whose PYTHONHASHSEED was fixed by the parent through the environment), with a few functions
wrapped from the harness side so that the set-valued inputs of the hash-order-dependent sites are
recorded *in the iteration order this interpreter actually produced*, together with what the real code
made of them.  Nothing under $LIAN_REPO is modified; the wrappers call the original functions and
return their results unchanged.

usage: c14_child.py <harvest.json> <lian argv…>          (LIAN_REPO selects the lian tree)
env C14_SCANDIR=reverse  — make os.scandir (as seen by lian/preparation.py) return its entries in
                            reverse order: simulates another file system; used only by the
                            SameUnitOrder experiment.
"""
import builtins, json, os, sys

HARVEST = {"map_args": [], "require": [], "array_types": [], "mock_unit": [], "original_path": [], "bundle_export": [], "call_paths": [], "path_adds": [],
           "scandir": [], "modules": None, "consts": None}
LIMIT = 300          # records kept per site


def _ap(a):
    try:
        return json.dumps([[int(p.kind), str(p.key), int(p.state_id)] for p in (a or [])])
    except Exception:
        return "?"


def _i(x, d=-1):
    try:
        if isinstance(x, tuple):      # Argument.source_symbol_id's default is the tuple (-1,) — a quirk of the code
            x = x[0]
        if x is None:
            return d
        return int(x)
    except Exception:
        return d


def install():
    repo = os.environ.get("LIAN_REPO", "/repo")
    src = os.path.join(repo, "src")
    sys.path.insert(0, src)
    if not hasattr(builtins, "profile"):
        builtins.profile = lambda f: f
    import pandas as pd
    pd.options.mode.copy_on_write = False

    from lian.config import config, constants
    HARVEST["consts"] = {
        "parameter_decl": str(constants.LIAN_INTERNAL.PARAMETER_DECL),
        "packed_positional": str(constants.LIAN_INTERNAL.PACKED_POSITIONAL_PARAMETER),
        "packed_named": str(constants.LIAN_INTERNAL.PACKED_NAMED_PARAMETER),
        "array_element": int(constants.ACCESS_POINT_KIND.ARRAY_ELEMENT),
        "field_element": int(constants.ACCESS_POINT_KIND.FIELD_ELEMENT),
        "start_index": int(config.START_INDEX),
    }

    # ---- os.scandir as seen by preparation.py: record what the file system returned, in its order
    import lian.preparation as prep
    rev = os.environ.get("C14_SCANDIR") == "reverse"

    class OsProxy:
        def __getattr__(self, k):
            return getattr(os, k)

        def scandir(self, path):
            ents = list(os.scandir(path))
            if rev:
                ents.reverse()
            HARVEST["scandir"].append([str(path), [[e.name, 1 if e.is_dir() else 0, 1 if e.is_file() else 0]
                                                   for e in ents]])
            return ents
    prep.os = OsProxy()

    orig_run = prep.ModuleSymbolsBuilder.run

    def msb_run(self):
        r = orig_run(self)
        try:
            HARVEST["modules"] = {
                "src_root": os.path.join(self.options.workspace, config.SOURCE_CODE_DIR + "/"),
                "ext_root": os.path.join(self.options.workspace, config.EXTERNS_DIR + "/"),
                "rows": [[int(m["module_id"]), str(m["symbol_name"]), int(m["parent_module_id"]),
                          1 if "unit_id" in m else 0] for m in self.module_symbol_results]}
        except Exception as e:
            HARVEST["modules"] = {"error": repr(e)}
        try:
            table = [[str(k), str(v)] for k, v in self.dst_file_to_src_file.items()]
            for m in (self.module_symbol_results if len(table) <= 200 else []):
                if "unit_id" in m and not m.get("is_extern") and len(HARVEST["original_path"]) < 40:
                    HARVEST["original_path"].append({"table": table, "entry": str(m["unit_path"]),
                                                     "real": os.path.realpath(str(m["unit_path"])),
                                                     "real_out": str(m.get("original_path", ""))})
        except Exception:
            pass
        return r
    prep.ModuleSymbolsBuilder.run = msb_run

    # ---- map_arguments (core/stmt_states.py)
    from lian.core import stmt_states as ss
    orig_map = ss.StmtStates.map_arguments

    def P(p):
        return None if p is None else [_i(p.position), str(p.name), _i(p.symbol_id)]

    def A(a):
        return [_i(a.index_in_space), _i(a.state_id), _i(a.source_symbol_id), _ap(a.access_path)]

    def map_arguments(self, args, parameters, parameter_mapping_list, call_site):
        before = len(parameter_mapping_list)
        rec = None
        if len(HARVEST["map_args"]) < LIMIT:
            try:
                summ = self.loader.get_method_def_use_summary(call_site.callee_id).copy()
                rec = {
                    "call_site": [_i(call_site.caller_id), _i(call_site.call_stmt_id), _i(call_site.callee_id)],
                    # the order in which `rest_parameters = parameters.all_parameters.copy()` iterates HERE
                    "all_parameters": [P(p) for p in parameters.all_parameters.copy()],
                    "positional_parameters": [P(p) for p in parameters.positional_parameters],
                    "packed_positional": P(parameters.packed_positional_parameter),
                    "packed_named": P(parameters.packed_named_parameter),
                    "positional_args": [[A(a) for a in s] for s in args.positional_args],
                    "named_args": [[str(k), [A(a) for a in s]] for k, s in args.named_args.items()],
                    "defaults": [[_i(p[0]), _i(p[1], 0)] for p in summ.parameter_symbol_ids],
                }
            except Exception as e:           # never disturb the run
                rec = None
        r = orig_map(self, args, parameters, parameter_mapping_list, call_site)
        if rec is not None:
            try:
                out = []
                for m in parameter_mapping_list[before:]:
                    pap = m.parameter_access_path
                    out.append([_i(m.arg_index_in_space), _i(m.arg_state_id), _i(m.arg_source_symbol_id),
                                _i(m.parameter_symbol_id), _ap(m.arg_access_path), str(m.parameter_type),
                                ([int(pap.kind), str(pap.key), int(pap.state_id)] if pap is not None else None),
                                1 if m.is_default_value else 0])
                rec["real"] = out
                HARVEST["map_args"].append(rec)
            except Exception:
                pass
        return r
    ss.StmtStates.map_arguments = map_arguments

    # ---- require_stmt_state (core/stmt_states.py)
    orig_req = ss.StmtStates.require_stmt_state

    def require_stmt_state(self, stmt_id, stmt, status, in_states):
        rec = None
        if len(HARVEST["require"]) < LIMIT:
            try:
                space = self.frame.symbol_state_space
                idxs = self.read_used_states(status.used_symbols[0], in_states)
                states = []
                for ix in idxs:                      # iteration order of the index set (ints)
                    v = space[ix].value
                    states.append([_i(ix), v if isinstance(v, str) else ("" if not v else repr(v))])
                vals = set()
                for ix in idxs:
                    if space[ix].value:
                        vals.add(space[ix].value)
                rec = {"stmt_id": _i(stmt_id), "states": states,
                       # what the PINNED code iterated: a set of the value strings, in this interpreter's order
                       "value_set_iter": [v if isinstance(v, str) else repr(v) for v in vals],
                       "len_before": len(space)}
            except Exception:
                rec = None
        r = orig_req(self, stmt_id, stmt, status, in_states)
        if rec is not None:
            try:
                space = self.frame.symbol_state_space
                created = []
                for ix in range(rec["len_before"], len(space)):
                    it = space[ix]
                    if hasattr(it, "state_id") and hasattr(it, "value"):
                        created.append(it.value if isinstance(it.value, str) else repr(it.value))
                rec["real"] = created
                HARVEST["require"].append(rec)
            except Exception:
                pass
        return r
    ss.StmtStates.require_stmt_state = require_stmt_state

    # ---- GIRParser.parse: was the unit preprocessed as extern mock code?
    from lian.lang import lang_analysis as la
    from lian.config.constants import EVENT_KIND
    orig_parse = la.GIRParser.parse
    HARVEST["consts"]["mock_marker"] = "%s/%s" % (config.DEFAULT_WORKSPACE, config.EXTERNS_DIR)

    def gir_parse(self, unit_info, file_path, lang_option, lang_table):
        fired = []
        em = self.event_manager
        real_notify = em.notify

        def notify(event):
            try:
                if event.event == EVENT_KIND.MOCK_SOURCE_CODE_READY:
                    fired.append(1)
            except Exception:
                pass
            return real_notify(event)
        em.notify = notify
        try:
            r = orig_parse(self, unit_info, file_path, lang_option, lang_table)
        finally:
            try:
                del em.notify
            except Exception:
                em.notify = real_notify
        try:
            if len(HARVEST["mock_unit"]) < LIMIT:
                HARVEST["mock_unit"].append({"unit_path": str(file_path),
                                             "is_extern": bool(getattr(unit_info, "is_extern", False)),
                                             "real": bool(fired)})
        except Exception:
            pass
        return r
    la.GIRParser.parse = gir_parse

    # ---- typescript_parser.Parser.array: element node types -> data_type of the new_array statement
    from lian.lang import typescript_parser as tsp
    orig_array = tsp.Parser.array

    def ts_array(self, node, statements):
        rec = None
        if len(HARVEST["array_types"]) < LIMIT:
            try:
                types = [str(e.type) for e in node.named_children]
                st = set()
                for t in types:                       # what the PINNED code built, in this interpreter's order
                    st.add(t)
                rec = {"element_types": types, "type_set_iter": list(st), "at": len(statements)}
            except Exception:
                rec = None
        r = orig_array(self, node, statements)
        if rec is not None:
            try:
                stmt = statements[rec["at"]]
                rec["real"] = [str(t) for t in stmt["new_array"]["data_type"]]
                HARVEST["array_types"].append(rec)
            except Exception:
                pass
        return r
    tsp.Parser.array = ts_array

    # ---- GeneralLoader.convert_active_bundle_to_dataframe: save order of the keys vs emitted row order
    from lian.util import loader as ld

    def keyrepr(k):
        if isinstance(k, ld.CallSite):
            return "callsite", [int(x) for x in k.to_tuple()]
        if isinstance(k, tuple) and all(isinstance(x, int) for x in k):
            return "plain", [int(x) for x in k]
        if isinstance(k, int) or (hasattr(k, "__index__") and not isinstance(k, bool)):
            return "plain", [int(k)]
        return None, None

    orig_conv = ld.GeneralLoader.convert_active_bundle_to_dataframe
    RealDataModel = ld.DataModel

    def convert(self):
        if len(HARVEST["bundle_export"]) >= LIMIT or len(self.active_bundle) < 2:
            return orig_conv(self)
        tokens = {}
        items = []
        kinds = set()
        ok = True
        try:
            for n, (k, v) in enumerate(self.active_bundle.items()):       # dict order = save order
                kind, kr = keyrepr(k)
                if kind is None:
                    ok = False
                    break
                kinds.add(kind)
                toks = []
                for j, row in enumerate(v.flattened_item):
                    t = "%d.%d" % (n, j)
                    tokens[id(row)] = t
                    toks.append(t)
                items.append([kr, toks])
            ok = ok and len(kinds) == 1
        except Exception:
            ok = False
        seen = {}

        def spy(rows=None, *a, **kw):
            # the list the real code accumulated, in the order it accumulated it
            try:
                seen["order"] = [tokens.get(id(r)) for r in rows]
            except Exception:
                pass
            return RealDataModel(rows, *a, **kw)
        if ok:
            ld.DataModel = spy
        try:
            df = orig_conv(self)
        finally:
            ld.DataModel = RealDataModel
        if ok and "order" in seen and None not in seen["order"]:
            HARVEST["bundle_export"].append({
                "loader": type(self).__name__, "path": os.path.basename(self.bundle_path_summary),
                "key_kind": kinds.pop(), "items": items, "real": seen["order"]})
        return df
    ld.GeneralLoader.convert_active_bundle_to_dataframe = convert

    # ---- CallPathLoader.export: `for index, path in enumerate(self.all_paths)`
    orig_cp = ld.CallPathLoader.export

    def cp_export(self):
        seen = {}

        def spy(rows=None, *a, **kw):
            try:
                seen["rows"] = [[int(r["index"]), [list(cs) for cs in r["call_path"]]] for r in rows]
            except Exception:
                pass
            return RealDataModel(rows, *a, **kw)
        it = None
        try:
            it = [[list(cs.to_tuple()) for cs in p] for p in self.all_paths]
        except Exception:
            pass
        ld.DataModel = spy
        try:
            r = orig_cp(self)
        finally:
            ld.DataModel = RealDataModel
        if it is not None and "rows" in seen:
            HARVEST["call_paths"].append({"iter": it, "real": seen["rows"]})
        return r
    ld.CallPathLoader.export = cp_export

    # ---- PathManager.add_path: the batch of adds, and the stored set at the end
    from lian import common_structs as cs
    orig_add = cs.PathManager.add_path

    def add_path(self, path):
        r = orig_add(self, path)
        try:
            if len(HARVEST["path_adds"]) < 3000:
                p = path.path if hasattr(path, "path") else path
                HARVEST["path_adds"].append({"mgr": id(self), "path": [list(c.to_tuple()) for c in p],
                                             "ret": bool(r)})
                HARVEST["_mgr_" + str(id(self))] = self
        except Exception:
            pass
        return r
    cs.PathManager.add_path = add_path


def finish():
    mgrs = {k: v for k, v in HARVEST.items() if k.startswith("_mgr_")}
    finals = {}
    for k, m in mgrs.items():
        try:
            finals[k[5:]] = sorted([list(c.to_tuple()) for c in p.path] for p in m.paths)
        except Exception:
            pass
        del HARVEST[k]
    HARVEST["path_final"] = finals
    for r in HARVEST["path_adds"]:
        r["mgr"] = str(r["mgr"])
    HARVEST["hashseed"] = os.environ.get("PYTHONHASHSEED")


def main():
    out = sys.argv[1]
    sys.argv = ["main.py"] + sys.argv[2:]
    install()
    from lian.main import Lian
    try:
        Lian().run()
    finally:
        finish()
        def dflt(o):
            try:
                return int(o)                # numpy integers
            except Exception:
                return repr(o)
        with open(out, "w") as f:
            json.dump(HARVEST, f, default=dflt)


if __name__ == "__main__":
    main()
