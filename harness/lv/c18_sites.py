"""Write-site inventory for C18 (DESIGN §5 C18): every place in src/lian that can create, modify or
delete something on disk, found textually.  Compared on every run with the list baked into
lean/LianVerif/Model/WorkspaceSites.lean; a site that is not in that list is a correspondence break."""
import os, re

WRITE_RE = re.compile(
    r"\bopen\([^)]*,\s*['\"](?P<mode>[wax][^'\"]*|r\+[^'\"]*)['\"]"
    r"|\bos\.(?:makedirs|mkdir|unlink|remove|rename|renames|replace|rmdir|removedirs|symlink|link|truncate|chmod|chown|utime|mkfifo|system|popen)\b"
    r"|\bshutil\.(?:rmtree|copy2|copy|copytree|copyfile|copyfileobj|move|make_archive|unpack_archive|chown)\b"
    r"|\.to_feather\(|\.to_csv\(|\.to_pickle\(|\.to_parquet\(|\.to_json\(|\.to_hdf\(|\.to_excel\("
    r"|\bjson\.dump\(|\bpickle\.dump\(|\byaml\.(?:safe_)?dump\(|\bnp\.save\w*\(|\bnumpy\.save\w*\("
    r"|\.savefig\(|\.write_dot\(|\.write_png\(|\.write_text\(|\.write_bytes\(|\.touch\(|\.mkdir\(|\.unlink\(|\.rmdir\("
    r"|\btempfile\.\w+|\bsubprocess\.(?:run|call|check_call|check_output|Popen)\b|\bPath\([^)]*\)\.(?:open|write)")


def scan_write_sites(repo):
    base = os.path.join(repo, "src", "lian")
    sites = set()
    for root, dirs, files in os.walk(base):
        dirs.sort()
        for f in sorted(files):
            if not f.endswith(".py"):
                continue
            path = os.path.join(root, f)
            rel = os.path.relpath(path, base)
            stack = []          # (indent, name)
            for line in open(path, encoding="utf-8", errors="replace"):
                stripped = line.lstrip()
                if not stripped.strip() or stripped.startswith("#"):
                    continue
                indent = len(line) - len(stripped)
                m = re.match(r"(?:async\s+)?(def|class)\s+(\w+)", stripped)
                while stack and stack[-1][0] >= indent:
                    stack.pop()
                if m:
                    stack.append((indent, m.group(2)))
                    continue
                code = stripped.split(" #")[0]
                for w in WRITE_RE.finditer(code):
                    tok = w.group(0)
                    if tok.startswith("open("):
                        tok = "open(" + w.group("mode") + ")"
                    tok = tok.rstrip("(")
                    sites.add((rel, ".".join(n for _, n in stack) or "<module>", tok))
    return sorted(sites)


if __name__ == "__main__":
    import sys
    for s in scan_write_sites(sys.argv[1]):
        print(s)
