"""C07 — every call that can happen at run time is in the computed call graph.

Two ties on every run (DESIGN §5 C07, NOTES-C07.md):

(A) DRIVER CORRESPONDENCE.  lian's phase-III frame-stack driver (global_semantics.analyze_frame_stack,
    init_compute_frame, global_stmt_states.compute_target_method_states, CallPath.count_cycles,
    PathManager) is run for real on generated projects with four wrappers that only *log*: frame
    creation, frame initialisation, every compute_target_method_states invocation (callee ids in
    iteration order, callees selected for descent), every pop.  The per-frame invocation lists are the
    oracle handed to the Lean model `LianVerif.Frames` (lvdrv model "frames"); the model must reproduce
    the complete event sequence, the final call-site counters and the stored call paths.

(B) MONITOR WITH DYNAMIC GROUND TRUTH.  The same project is executed by CPython under sys.setprofile
    for every decision vector; every (caller, call line, callee) that happens at run time must be an
    edge of the stored call paths AND the callee must have had a frame under that call site.  A miss is
    explained by walking its dynamic call chain through the real frames; it is a KNOWN finding only if
    every chain ends in one of the recorded, narrowly matched causes; anything else is a VIOLATION.
"""
import ast, contextlib, io, itertools, json, multiprocessing, os, random, shutil, subprocess, sys, time, traceback
import common
from common import drv_batch, drv_ok

PINNED_MAX = 2          # config.MAX_ANALYSIS_ROUND_FOR_CALL_SITE the budget finding was characterised for
PY = "/venv/bin/python"

# ------------------------------------------------------------------------------------------------
# program generator
# ------------------------------------------------------------------------------------------------

class ProgGen:
    """Generates a small multi-file Python project.

    Every *plain* function can be called with one int and returns an int (extra parameters are optional),
    so any plain function can be passed where a callback is expected; recursion is guarded by a
    decreasing argument; decisions are read from sys.argv[1] (opaque to lian).

    Generic dimensions (chosen independently for every declaration / call):
    * signatures: extra defaulted parameters, keyword-only parameters, *args, **kwargs, callback
      parameters with a function as default;
    * argument passing at EVERY call the generator emits: positional, keyword in random order, mixed,
      defaults left unfilled, *(...) and **{...} unpacking;
    * identifier shapes: plain, leading underscore, dunder-like, names of builtins, very long names,
      names that differ only in case;
    * imports of every symbol kind from the helper module (function, class, module variable holding a
      function, module variable holding an instance) with / without alias, `import m` attribute access;
    * overriding methods (1-2 levels) whose callback parameter matters, called through receivers with
      one or several candidate classes, with random amounts of code between the declarations."""

    BUILTINS = ["max", "min", "sum", "len", "id", "type", "hash", "abs", "iter", "next", "vars", "dir", "format",
                "filter", "map", "input", "open", "sorted", "any", "all", "repr", "round", "divmod", "bin"]
    CB_NAMES = ["cb", "handler", "callback", "fn", "on_done", "visitor", "action"]
    INT_NAMES = ["x", "item", "job", "v", "value", "arg"]
    EXTRA_NAMES = ["retries", "tag", "mode", "depth", "base", "zeta", "alpha", "limit"]

    def __init__(self, rng, size=1.0, weights=None):
        self.r = rng
        self.size = size
        self.w = dict(k1=0.10, k3=0.12, k4=0.10, ep=0.15, second_entry=0.12, d1=0.10, d2=0.03, d3=0.03, d4=0.25)
        if weights:
            self.w.update(weights)
        self.ndec = 0
        self.uid = 0
        self.used_names = set()
        self.main = []          # lines of m.py after the import block
        self.imports = []       # import lines of m.py
        self.helper = []        # lines of u1.py
        self.plain = []         # plain callables visible in m.py: dict(expr, p, extra, va, kw)
        self.plain_k1 = []      # module-attribute spellings (known miss K1)
        self.plain_d4 = []      # imported module variables holding a function (known miss)
        self.hofs = []          # higher-order functions: dict(name, params, cbp, xp, style)
        self.makers = []        # (expr, needs_arg) returning a plain function
        self.pickers = set()    # makers with several returns (value-set sources)
        self.classes = []       # dict(name, methods, inherited, ctor, visit, ...)
        self.recs = []          # recursive plain functions (called with small literals)
        self.kinds = []         # what was generated (coverage)
        # file names are random so that every processing order of definer / re-exporter / importer occurs
        # (lian processes units in directory-listing order)
        letters = "abcdefghijklmnopqrstuvwxyz"
        self.mainmod = self.r.choice(letters) + "_main" if self.r.random() < 0.6 else "m"
        self.hmod = self.r.choice(letters) + "_util" if self.r.random() < 0.6 else "u1"
        self.extra_files = {}   # re-exporting modules
        self.nre = 0

    # -- helpers
    def pick(self, xs):
        return xs[self.r.randrange(len(xs))]

    def chance(self, p):
        return self.r.random() < p

    def note(self, k):
        self.kinds.append(k)

    def new_dec(self):
        if self.ndec >= 3:
            return self.r.randrange(self.ndec)
        self.ndec += 1
        return self.ndec - 1

    def _claim(self, nm):
        if nm in self.used_names or nm in ("D", "t", "sys", "u1", "self", "range", "ep_main", "w2", "s", self.hmod, self.mainmod):
            return False
        self.used_names.add(nm)
        return True

    def fresh(self, p):
        """variable / class / method name (never a builtin name)"""
        while True:
            self.uid += 1
            base = f"{p}{self.uid}"
            r = self.r.random()
            if r < 0.78:
                nm = base
            elif r < 0.88:
                nm = "_" + base; self.note("id-underscore")
            elif r < 0.91:
                nm = "__" + base + "__"; self.note("id-dunder")
            elif r < 0.94:
                nm = base + "_" + "long" * 13; self.note("id-long")
            else:
                nm = base[0].upper() + base[1:] + "Xy"; self.note("id-camel")
            if self._claim(nm):
                return nm

    def fresh_fn(self, p):
        """function name: additionally names of builtins and names differing only in case from an earlier one"""
        r = self.r.random()
        if r < 0.07:
            cands = [b for b in self.BUILTINS if b not in self.used_names]
            if cands:
                nm = self.pick(cands)
                if self._claim(nm):
                    self.note("id-builtin")
                    return nm
        if r < 0.14:
            olds = [e["expr"] for e in self.plain if e["expr"].isidentifier() and e.get("own")]
            self.r.shuffle(olds)
            for o in olds:
                for v in (o.upper(), o.swapcase(), o.capitalize()):
                    if v != o and v.lower() == o.lower() and self._claim(v):
                        self.note("id-case-twin")
                        return v
        return self.fresh(p)

    # -- generic call rendering --------------------------------------------------------------------
    def render(self, fexpr, params, vals, nostar=False):
        """params: [(name, kind, has_default)], kind in pk (positional-or-keyword), ko (keyword-only),
        va (*name; vals[name] = list of exprs), kw (**name; vals[name] = dict).  vals: name -> expr for the
        parameters to pass (all required ones).  The passing mode is chosen at random among the feasible ones."""
        r = self.r
        pk = [n for n, k, _ in params if k == "pk" and n in vals]
        # positional prefix must be contiguous from the first parameter
        order = [n for n, k, _ in params if k == "pk"]
        maxpos = 0
        for n in order:
            if n in vals:
                maxpos += 1
            else:
                break
        va = next((n for n, k, _ in params if k == "va"), None)
        va_items = list(vals.get(va, [])) if va else []
        kwn = next((n for n, k, _ in params if k == "kw"), None)
        kw_items = dict(vals.get(kwn, {})) if kwn else {}
        ko = [n for n, k, _ in params if k == "ko" and n in vals]
        if va_items:
            npos = len(order) if maxpos == len(order) else None
            if npos is None:
                va_items = []
                npos = r.randint(0, maxpos)
        else:
            mode = self.pick(["pos", "kw", "mixed", "mixed", "star", "dstar"])
            if mode == "pos":
                npos = maxpos
            elif mode in ("kw", "dstar"):
                npos = 0
            else:
                npos = r.randint(0, maxpos)
        pos = [vals[n] for n in order[:npos]] + va_items
        kws = [(n, vals[n]) for n in pk if n not in order[:npos]] + [(n, vals[n]) for n in ko] + list(kw_items.items())
        r.shuffle(kws)
        style = "plain"
        if nostar:
            pass
        elif pos and not kws and self.chance(0.15):
            style = "star"
        elif kws and not pos and self.chance(0.15):
            style = "dstar"
        elif pos and kws and self.chance(0.08):
            style = "both"
        if len(kws) >= 2:
            self.note("args-keywords>=2" + ("-unsorted" if [k for k, _ in kws] != sorted(k for k, _ in kws) else "-sorted"))
        elif len(kws) == 1:
            self.note("args-keyword-1")
        if pos and kws:
            self.note("args-mixed")
        if not kws:
            self.note("args-positional")
        parts = []
        if pos:
            if style in ("star", "both"):
                seq = ", ".join(pos) + ("," if len(pos) == 1 else "")
                parts.append("*(" + seq + ")" if self.chance(0.5) else "*[" + ", ".join(pos) + "]")
                self.note("args-star-unpack")
            else:
                parts += pos
        if kws:
            if style in ("dstar", "both"):
                parts.append("**{" + ", ".join(f'"{k}": {v}' for k, v in kws) + "}")
                self.note("args-dstar-unpack")
            else:
                parts += [f"{k}={v}" for k, v in kws]
        return f"{fexpr}(" + ", ".join(parts) + ")"

    def opt(self, params, vals, extra_vals):
        """add optional parameters (defaults) to vals with probability 1/2 each ("defaults left unfilled" otherwise)"""
        for n, k, d in params:
            if d and n in extra_vals:
                if self.chance(0.5):
                    vals[n] = extra_vals[n]
                else:
                    self.note("args-default-unfilled")
        return vals

    # -- plain callables
    def plain_params(self, e):
        ps = [(e["p"], "pk", False)] + [(n, "pk", True) for n, _ in e["extra"]]
        if e.get("va"):
            ps.append((e["va"], "va", False))
        if e.get("kw"):
            ps.append((e["kw"], "kw", False))
        return ps

    def call_plain(self, e, arg):
        """a call of plain callable record e with int expression arg"""
        if not e.get("sig"):
            # imported under an alias / attribute etc.: same signature record is kept, see gen_helper
            pass
        params = self.plain_params(e)
        vals = {e["p"]: arg}
        self.opt(params, vals, {n: str(self.r.randint(1, 3)) for n, _ in e["extra"]})
        if e.get("va") and self.chance(0.3):
            if all(n in vals for n, k, _ in params if k == "pk"):
                vals[e["va"]] = [str(self.r.randint(1, 3))]
        if e.get("kw") and self.chance(0.3):
            vals[e["kw"]] = {"zz": str(self.r.randint(1, 3))}
        return self.render(e["expr"], params, vals)

    def callee(self):
        if self.plain_k1 and self.chance(0.2):
            return self.pick(self.plain_k1)
        if self.plain_d4 and self.chance(0.12):
            return self.pick(self.plain_d4)
        return self.pick(self.plain)

    def fcall(self, arg):
        return self.call_plain(self.callee(), arg)

    def fval(self):
        """a plain callable passed / stored as a value"""
        return self.callee()["expr"]

    def cbsrc(self, I):
        """a callback VALUE to be passed / stored: a plain name, or a variable that can hold one of 2-3 functions
        (if/else, if/elif/else, a multi-return picker, a container element with a constant index).
        Returns (lines to emit before, expression)."""
        m = self.pick(["name", "name", "name", "name", "branch", "branch3", "picker", "container"])
        if m == "picker" and not [x for x in self.makers if x[0] in self.pickers]:
            m = "branch"
        if m == "name":
            return [], self.fval()
        q = self.fresh("cbv")
        self.note("valueset-" + m)
        if m == "branch":
            d = self.new_dec()
            return [f"{I}if D[{d}] == \"1\":", f"{I}    {q} = {self.fval()}", f"{I}else:", f"{I}    {q} = {self.fval()}"], q
        if m == "branch3":
            d = self.new_dec(); d2 = self.new_dec()
            return [f"{I}if D[{d}] == \"1\":", f"{I}    {q} = {self.fval()}", f"{I}elif D[{d2}] == \"1\":", f"{I}    {q} = {self.fval()}",
                    f"{I}else:", f"{I}    {q} = {self.fval()}"], q
        if m == "picker":
            mk = self.pick([x for x in self.makers if x[0] in self.pickers])[0]
            return [f"{I}{q} = {mk}()"], q
        fs = self.fresh("fs")
        n = self.r.randint(2, 3)
        return [f"{I}{fs} = [" + ", ".join(self.fval() for _ in range(n)) + "]", f"{I}{q} = {fs}[{self.r.randrange(n)}]"], q

    def sig_text(self, e):
        parts = [e["p"]] + [f"{n}={d}" for n, d in e["extra"]]
        if e.get("va"):
            parts.append("*" + e["va"])
        if e.get("kw"):
            parts.append("**" + e["kw"])
        return ", ".join(parts)

    def new_plain_record(self, name, p="x"):
        e = dict(expr=name, p=p, extra=[], va=None, kw=None, own=True)
        r = self.r.random()
        if r < 0.25:
            e["extra"] = [(self.fresh("y"), self.r.randint(0, 2))]
            self.note("sig-default-param")
        elif r < 0.32:
            e["extra"] = [(self.fresh("y"), 1), (self.fresh("a"), 2)]
            self.note("sig-2-default-params")
        elif r < 0.40:
            e["va"] = self.fresh("more"); self.note("sig-vararg")
        elif r < 0.48:
            e["kw"] = self.fresh("opts"); self.note("sig-kwarg")
        return e

    # -- helper module u1.py
    def gen_helper(self):
        r = self.r
        n = r.randint(1, 3)
        recs = []
        for i in range(n):
            nm = self.fresh_fn("uf")
            e = self.new_plain_record(nm)
            if recs and self.chance(0.6):
                o = self.pick(recs)
                self.helper += [f"def {nm}({self.sig_text(e)}):", f"    return {o['expr']}(x) + 1"]
            else:
                self.helper += [f"def {nm}({self.sig_text(e)}):", "    return x + 1"]
            recs.append(e)
        cls = None
        if self.chance(0.6):
            cn = self.fresh("UK")
            mm = self.fresh("um")
            self.helper += [f"class {cn}:", f"    def {mm}(self, x):", f"        return {self.pick(recs)['expr']}(x)"]
            cls = dict(name=cn, methods=[dict(name=mm, extra=[])], ctor=None, module="u1", inherited=[], bases=[])
        # import styles
        for e in recs:
            nm = e["expr"]
            style = r.random()
            if style < self.w["k1"]:
                if f"import {self.hmod}" not in self.imports:
                    self.imports.append(f"import {self.hmod}")
                self.plain_k1.append(dict(e, expr=f"{self.hmod}.{nm}", own=False))
                self.note("import-module-attr")
            elif style < 0.40:
                self.imports.append(f"from {self.hmod} import {nm}")
                self.plain.append(dict(e, own=False))
                self.note("from-import")
            elif style < 0.65:
                al = self.fresh("al")
                self.imports.append(f"from {self.hmod} import {nm} as {al}")
                self.plain.append(dict(e, expr=al, own=False))
                self.note("from-import-as")
            else:
                local = self.reexport(nm)
                self.plain.append(dict(e, expr=local, own=False))
        if self.chance(self.w["d4"]):
            # a module-level variable of the helper holding a function, imported by name
            tn = self.fresh_fn("uh")
            e = self.new_plain_record(tn)
            self.helper += [f"def {tn}({self.sig_text(e)}):", "    return x + 2"]
            hv = self.fresh("hv")
            self.helper += [f"{hv} = {tn}"]
            if self.chance(0.5):
                self.imports.append(f"from {self.hmod} import {hv}")
                self.plain_d4.append(dict(e, expr=hv, own=False))
            else:
                al = self.fresh("hva")
                self.imports.append(f"from {self.hmod} import {hv} as {al}")
                self.plain_d4.append(dict(e, expr=al, own=False))
            self.note("import-variable-holding-function")
        if cls:
            r_ = self.r.random()
            if r_ < 0.5:
                self.imports.append(f"from {self.hmod} import {cls['name']}")
            elif r_ < 0.75:
                al = self.fresh("UKa")
                self.imports.append(f"from {self.hmod} import {cls['name']} as {al}")
                cls = dict(cls, name=al, real=cls["name"])
                self.note("imported-class-as")
            else:
                local = self.reexport(cls["name"])
                cls = dict(cls, name=local, real=cls["name"])
            self.add_class(cls)
            self.note("imported-class")

    def reexport(self, name):
        """import `name` of the helper module into the main module through a chain of 1-2 re-exporting modules
        (random file names, an alias or a star import on each hop); returns the local name in the main module"""
        hops = self.r.randint(1, 2)
        src, cur = self.hmod, name
        for h in range(hops):
            self.nre += 1
            mod = self.r.choice("abcdefghijklmnopqrstuvwxyz") + f"_re{self.nre}"
            mode = self.pick(["plain", "plain", "alias", "star"])
            if mode == "star" and cur.startswith("_"):
                mode = "plain"
            if mode == "plain":
                line = f"from {src} import {cur}"
            elif mode == "alias":
                nxt = self.fresh("rx")
                line = f"from {src} import {cur} as {nxt}"
                cur = nxt
            else:
                line = f"from {src} import *"
            self.extra_files[mod + ".py"] = line + "\n"
            self.note(f"reexport-hop-{mode}")
            src = mod
        self.note(f"reexport-chain-{hops}")
        mode = self.pick(["plain", "alias", "alias", "star"])
        if mode == "star" and cur.startswith("_"):
            mode = "plain"
        if mode == "plain":
            self.imports.append(f"from {src} import {cur}")
        elif mode == "alias":
            al = self.fresh("ral")
            self.imports.append(f"from {src} import {cur} as {al}")
            cur = al
        else:
            self.imports.append(f"from {src} import *")
            self.note("import-star-main")
        return cur

    # -- calls of the other kinds
    def call_hof(self, h, cbexpr, arg):
        params = h["params"]
        vals = {h["xp"]: arg}
        if h["style"] == "vararg":
            vals[h["cbp"]] = [cbexpr]
        elif h["style"] == "kwarg":
            vals[h["cbp"]] = {h["key"]: cbexpr}
        elif h["style"] == "default" and self.chance(0.4):
            self.note("D1-default-callback-unfilled")
        else:
            vals[h["cbp"]] = cbexpr
        self.opt(params, vals, {n: (str(self.r.randint(1, 3)) if n != "tag" else '"t"') for n, k, d in params if d and n not in (h["cbp"],)})
        return self.render(h["name"], params, vals)

    def call_method(self, obj, m, arg, cb=None):
        head = [(m.get("xp", "x"), "pk", False)]
        vals = {m.get("xp", "x"): arg}
        if m.get("cbp"):
            head = [(m["cbp"], "pk", False)] + head if m.get("cb_first", True) else head + [(m["cbp"], "pk", False)]
            vals[m["cbp"]] = cb
        params = head + [(n, "pk", True) for n, _ in m.get("extra", [])]
        self.opt(params, vals, {n: str(self.r.randint(1, 3)) for n, _ in m.get("extra", [])})
        return self.render(f"{obj}.{m['name']}", params, vals)

    def call_ctor(self, c, arg, cb=None):
        if c.get("ctor") is None:
            return f"{c['name']}()"
        params = [(c.get("cparam", "x"), "pk", False)] + [(n, "pk", True) for n, _ in c.get("cextra", [])]
        vals = {c.get("cparam", "x"): cb if c.get("ctor") == "cb" else arg}
        self.opt(params, vals, {n: str(self.r.randint(1, 3)) for n, _ in c.get("cextra", [])})
        return self.render(c["name"], params, vals, nostar=bool(c.get("box")))

    def plain_methods(self, c):
        return [m for m in c["methods"] + c.get("inherited", []) if not m.get("cbp")]

    def visit_methods(self, c):
        return [m for m in c["methods"] + c.get("inherited", []) if m.get("cbp")]

    def gen_action(self, ind, var, in_method=None):
        """returns lines computing `t` from int expression `var`; callees drawn from the inventory."""
        r = self.r
        I = " " * ind
        choices = ["direct", "direct", "nested-arg"]
        if self.hofs:
            choices += ["callback", "callback", "lambda", "nested-def"]
        normal = [c for c in self.classes if not c.get("box")]
        if normal:
            choices += ["ctor-method", "ctor-method", "obj-param"] + (["bound-cb"] if self.hofs else [])
        if any(self.visit_methods(c) for c in normal):
            choices += ["visit", "visit", "visit-candidates", "visit-candidates"]
        if self.makers:
            choices += ["returned", "returned"]
        choices += ["list", "dict", "for-list", "branch", "alias-branch", "loop", "while"]
        if self.recs:
            choices += ["rec"]
        if in_method and in_method.get("others"):
            choices += ["self-method", "self-method"]
        if any(c.get("box") for c in self.classes):
            choices += ["field-out", "field-in" if self.chance(self.w["k3"] * 3) else "field-out"]
        k = self.pick(choices)
        self.note(k)
        if k == "direct":
            return [f"{I}t = {self.fcall(var)}"]
        if k == "nested-arg":
            return [f"{I}t = {self.fcall(self.fcall(var))}"]
        if k == "callback":
            pre, cbx = self.cbsrc(I)
            return pre + [f"{I}t = {self.call_hof(self.pick(self.hofs), cbx, var)}"]
        if k == "lambda":
            return [f"{I}t = {self.call_hof(self.pick(self.hofs), 'lambda v: ' + self.fcall('v'), var)}"]
        if k == "nested-def":
            nm = self.fresh("nf")
            return [f"{I}def {nm}(v):", f"{I}    return {self.fcall('v')}", f"{I}t = {self.call_hof(self.pick(self.hofs), nm, var)}"]
        if k in ("ctor-method", "obj-param", "bound-cb"):
            c = self.pick(normal)
            ms = self.plain_methods(c)
            if not ms:
                return [f"{I}t = {self.fcall(var)}"]
            o = self.fresh("o")
            m = self.pick(ms)
            mk = f"{I}{o} = {self.call_ctor(c, var)}"
            if k == "ctor-method":
                return [mk, f"{I}t = {self.call_method(o, m, var)}"]
            if k == "bound-cb":
                return [mk, f"{I}t = {self.call_hof(self.pick(self.hofs), o + '.' + m['name'], var)}"]
            un = self.fresh("use")
            return [f"{I}def {un}(ob, v):", f"{I}    return {self.call_method('ob', m, 'v')}", mk, f"{I}t = {un}({o}, {var})"]
        if k == "visit":
            c = self.pick([c for c in normal if self.visit_methods(c)])
            m = self.pick(self.visit_methods(c))
            o = self.fresh("o")
            pre, cbx = self.cbsrc(I)
            return pre + [f"{I}{o} = {self.call_ctor(c, var)}", f"{I}t = {self.call_method(o, m, var, cb=cbx)}"]
        if k == "visit-candidates":
            # receiver with several candidate classes that all have the method (overriding)
            c = self.pick([c for c in normal if self.visit_methods(c)])
            m = self.pick(self.visit_methods(c))
            cands = [c2 for c2 in normal if any(m2["name"] == m["name"] for m2 in self.visit_methods(c2))]
            c2 = self.pick(cands)
            d = self.new_dec(); o = self.fresh("o")
            pre, cbx = self.cbsrc(I)
            return pre + [f"{I}if D[{d}] == \"1\":", f"{I}    {o} = {self.call_ctor(c, var)}", f"{I}else:", f"{I}    {o} = {self.call_ctor(c2, var)}",
                          f"{I}t = {self.call_method(o, m, var, cb=cbx)}"]
        if k == "returned":
            mk, needs = self.pick(self.makers)
            q = self.fresh("q")
            if needs:
                mode = self.pick(["pos", "kw"])
                a = self.fval()
                return [f"{I}{q} = {mk}({a})" if mode == "pos" else f"{I}{q} = {mk}(fn={a})", f"{I}t = {q}({var})"]
            if self.chance(0.3):
                return [f"{I}t = {mk}()({var})"]
            return [f"{I}{q} = {mk}()", f"{I}t = {q}({var})"]
        if k == "list":
            fs = self.fresh("fs")
            return [f"{I}{fs} = [{self.fval()}, {self.fval()}]", f"{I}t = {fs}[{r.randrange(2)}]({var})"]
        if k == "dict":
            d = self.fresh("d")
            return [f"{I}{d} = {{\"a\": {self.fval()}, \"b\": {self.fval()}}}", f"{I}t = {d}[\"{self.pick('ab')}\"]({var})"]
        if k == "for-list":
            fs = self.fresh("fs"); q = self.fresh("q")
            return [f"{I}{fs} = [{self.fval()}, {self.fval()}]", f"{I}t = 0", f"{I}for {q} in {fs}:", f"{I}    t = {q}({var})"]
        if k == "branch":
            d = self.new_dec()
            return [f"{I}if D[{d}] == \"1\":", f"{I}    t = {self.fcall(var)}", f"{I}else:", f"{I}    t = {self.fcall(var)}"]
        if k == "alias-branch":
            d = self.new_dec(); q = self.fresh("q")
            return [f"{I}if D[{d}] == \"1\":", f"{I}    {q} = {self.fval()}", f"{I}else:", f"{I}    {q} = {self.fval()}", f"{I}t = {q}({var})"]
        if k == "loop":
            i = self.fresh("i")
            return [f"{I}t = 0", f"{I}for {i} in range(2):", f"{I}    t = {self.fcall(i)}"]
        if k == "while":
            i = self.fresh("i")
            return [f"{I}t = 0", f"{I}{i} = 0", f"{I}while {i} < 2:", f"{I}    t = {self.fcall(i)}", f"{I}    {i} = {i} + 1"]
        if k == "rec":
            e = self.pick(self.recs)
            return [f"{I}t = {self.call_plain(e, str(r.randint(1, 3)))}"]
        if k == "self-method":
            return [f"{I}t = {self.call_method('self', self.pick(in_method['others']), var)}"]
        if k in ("field-out", "field-in"):
            c = self.pick([c for c in self.classes if c.get("box")])
            o = self.fresh("bx")
            pre, cbx = self.cbsrc(I)
            mk = f"{I}{o} = {self.call_ctor(c, var, cb=cbx)}"
            if k == "field-out":
                return pre + [mk, f"{I}t = {o}.cb({var})"]
            self.note("K3-field-in-method")
            return pre + [mk, f"{I}t = {self.call_method(o, c['run'], var)}"]
        raise AssertionError(k)

    def pad(self):
        """random amount of code between declarations (changes statement ids and their distance)"""
        n = self.pick([0, 0, 0, 1, 2, 4, 8, 14])
        for _ in range(n):
            v = self.fresh("pad")
            self.main.append(f"{v} = {self.r.randint(0, 9)}")
        if n:
            self.note("padding")

    def gen_plain(self):
        nm = self.fresh_fn("f")
        e = self.new_plain_record(nm)
        n = self.r.randint(1, 2 if self.size < 1.5 else 3)
        body = []
        var = "x"
        for j in range(n):
            body += self.gen_action(4, var)
            if j + 1 < n and self.chance(0.5):
                var = "t"
        self.main += [f"def {nm}({self.sig_text(e)}):"] + body + ["    return t + 1"]
        self.plain.append(e)

    def gen_leaf(self):
        nm = self.fresh_fn("g")
        e = self.new_plain_record(nm)
        self.main += [f"def {nm}({self.sig_text(e)}):", "    return x + 1"]
        self.plain.append(e)

    def gen_hof(self):
        nm = self.fresh_fn("hof")
        cbp = self.pick(self.CB_NAMES)
        xp = self.pick(self.INT_NAMES)
        r = self.r.random()
        extra = []
        if self.chance(0.5):
            extra = [(n, ('"t"' if n == "tag" else "1")) for n in self.r.sample(self.EXTRA_NAMES, self.r.randint(1, 2))]
        if self.hofs and self.chance(0.35):
            inner = self.pick(self.hofs)
            params = [(cbp, "pk", False), (xp, "pk", False)]
            if self.chance(0.5):
                params.reverse()
            params += [(n, "pk", True) for n, _ in extra]
            sig = ", ".join(n if not d else f"{n}={dict(extra)[n]}" for n, k, d in params)
            self.main += [f"def {nm}({sig}):", f"    return {self.call_hof(inner, cbp, xp)}"]
            self.note("hof-2-levels")
            self.hofs.append(dict(name=nm, params=params, cbp=cbp, xp=xp, style="plain"))
            return
        if r < self.w["d1"] and self.plain:
            dflt = self.pick([e for e in self.plain if e["expr"].isidentifier()] or self.plain)["expr"]
            params = [(xp, "pk", False), (cbp, "pk", True)] + [(n, "pk", True) for n, _ in extra]
            sig = ", ".join([xp, f"{cbp}={dflt}"] + [f"{n}={d}" for n, d in extra])
            body = [f"    t = {cbp}({xp})"]
            style = "default"; self.note("hof-default-callback")
        elif r < self.w["d1"] + self.w["d2"]:
            params = [(xp, "pk", False), (cbp, "va", False)]
            sig = f"{xp}, *{cbp}"
            body = [f"    t = {cbp}[0]({xp})"]
            style = "vararg"; self.note("D2-hof-vararg")
        elif r < self.w["d1"] + self.w["d2"] + self.w["d3"]:
            params = [(xp, "pk", False), (cbp, "kw", False)]
            sig = f"{xp}, **{cbp}"
            body = [f"    t = {cbp}[\"k\"]({xp})"]
            style = "kwarg"; self.note("D3-hof-kwarg")
        elif r < 0.45:
            params = [(xp, "pk", False)] + [(n, "pk", True) for n, _ in extra] + [(cbp, "ko", False)]
            sig = ", ".join([xp] + [f"{n}={d}" for n, d in extra] + ["*", cbp])
            body = [f"    t = {cbp}({xp})"]
            style = "kwonly"; self.note("hof-kwonly")
        else:
            base = [(cbp, "pk", False), (xp, "pk", False)]
            if self.chance(0.5):
                base.reverse()
            params = base + [(n, "pk", True) for n, _ in extra]
            sig = ", ".join([n for n, _, _ in base] + [f"{n}={d}" for n, d in extra])
            body = [f"    t = {cbp}({xp})"]
            style = "plain"; self.note("hof")
        self.main += [f"def {nm}({sig}):"] + body + ["    return t"]
        h = dict(name=nm, params=params, cbp=cbp, xp=xp, style=style)
        if style == "kwarg":
            h["key"] = "k"
        self.hofs.append(h)

    def gen_maker(self):
        nm = self.fresh_fn("mk")
        k = self.pick(["global", "global-pre", "nested", "param", "branch", "branch", "branch3"])
        self.note("maker-" + k)
        own = [e["expr"] for e in self.plain] or ["abs"]
        if k == "global":          # the whole body is `return <global function>`
            self.main += [f"def {nm}():", f"    return {self.pick(own)}"]
            self.makers.append((nm, False))
        elif k == "global-pre":
            self.main += [f"def {nm}():", "    z = 1", f"    return {self.pick(own)}"]
            self.makers.append((nm, False))
        elif k == "nested":
            inn = self.fresh("inn")
            self.main += [f"def {nm}():", f"    def {inn}(v):", f"        return {self.fcall('v')}", f"    return {inn}"]
            self.makers.append((nm, False))
        elif k == "param":
            self.main += [f"def {nm}(fn):", "    return fn"]
            self.makers.append((nm, True))
        elif k == "branch":
            d = self.new_dec()
            self.main += [f"def {nm}():", f"    if D[{d}] == \"1\":", f"        return {self.pick(own)}",
                          f"    return {self.pick(own)}"]
            self.makers.append((nm, False)); self.pickers.add(nm)
        else:
            d = self.new_dec(); d2 = self.new_dec()
            self.main += [f"def {nm}():", f"    if D[{d}] == \"1\":", f"        return {self.pick(own)}",
                          f"    if D[{d2}] == \"1\":", f"        return {self.pick(own)}", f"    return {self.pick(own)}"]
            self.makers.append((nm, False)); self.pickers.add(nm)

    def gen_rec(self):
        k = self.pick(["self", "mutual", "self-calls-out", "mutual3"])
        self.note("rec-" + k)
        if k in ("self", "self-calls-out"):
            nm = self.fresh_fn("rec")
            extra = [f"    t = {self.fcall('n')}"] if k == "self-calls-out" else ["    t = n"]
            self.main += [f"def {nm}(n):"] + extra + ["    if n > 0:", "        if n < 5:", f"            return {nm}(n - 1)", "    return t"]
            self.recs.append(dict(expr=nm, p="n", extra=[], va=None, kw=None))
        else:
            cnt = 2 if k == "mutual" else 3
            ns = [self.fresh_fn("mr") for _ in range(cnt)]
            for i, nm in enumerate(ns):
                nxt = ns[(i + 1) % cnt]
                self.main += [f"def {nm}(n):", "    if n > 0:", "        if n < 6:", f"            return {nxt}(n - 1)", "    return n"]
                self.pad() if self.chance(0.3) else None
            self.recs += [dict(expr=nm, p="n", extra=[], va=None, kw=None) for nm in ns]

    @staticmethod
    def c3(bases):
        """C3 linearisation of the bases' MROs (records compared by identity); None when inconsistent"""
        seqs = [list(b["mro"]) for b in bases] + [list(bases)]
        res = []
        while True:
            seqs = [q for q in seqs if q]
            if not seqs:
                return res
            cand = None
            for q in seqs:
                c = q[0]
                if not any(c is x for t in seqs for x in t[1:]):
                    cand = c
                    break
            if cand is None:
                return None
            res.append(cand)
            for q in seqs:
                if q and q[0] is cand:
                    del q[0]

    def add_class(self, rec):
        rec.setdefault("bases", [])
        rec["mro"] = [rec] + (self.c3(rec["bases"]) or [])
        self.classes.append(rec)
        return rec

    def gen_class(self, bases=None, override=None, nmethods=None):
        """bases: forced list of base records (else chosen at random: none / one / two incl. diamonds);
        override: probability of overriding each inherited method (plain and visitor)"""
        r = self.r
        nm = self.fresh("C")
        cands = [c for c in self.classes if not c.get("box")]
        if bases is None:
            bases = []
            x = r.random()
            if cands and x < 0.55:
                b1 = self.pick(cands)
                bases = [b1]
                if x < 0.22:
                    rel = [c for c in cands if c is not b1 and not any(c is y for y in b1["mro"]) and not any(b1 is y for y in c["mro"])]
                    dia = [c for c in rel if any(a is b for a in c["mro"] for b in b1["mro"])]
                    pool = dia if dia and self.chance(0.7) else rel
                    if pool:
                        bases = [b1, self.pick(pool)]
                        if self.c3(bases) is None:
                            bases = [b1]
        kind = self.pick(["plain", "plain", "box"]) if not bases else "plain"
        if kind == "box":
            run = self.fresh("run")
            extra = [(self.fresh("y"), 1)] if self.chance(0.4) else []
            self.main += [f"class {nm}:", "    def __init__(self, cb" + "".join(f", {n}={d}" for n, d in extra) + "):", "        self.cb = cb",
                          f"    def {run}(self, x):", "        return self.cb(x)"]
            self.add_class(dict(name=nm, methods=[], inherited=[], box=True, run=dict(name=run, extra=[]), ctor="cb", cparam="cb", cextra=extra))
            self.note("class-box")
            return
        mro_rest = self.c3(bases) or []
        lines = [f"class {nm}(" + ", ".join(b["name"] for b in bases) + "):" if bases else f"class {nm}:"]
        # effective constructor: first class of the MRO that defines one
        eff = next((c for c in mro_rest if c.get("own_init")), None)
        ctor, cparam, cextra = (eff["ctor"], eff.get("cparam", "x"), eff.get("cextra", [])) if eff else (None, "x", [])
        own_init = self.chance(0.5)
        base = bases[0] if len(bases) == 1 else None
        if own_init:
            cparam = self.pick(self.INT_NAMES)
            cextra = [(self.fresh("y"), 1)] if self.chance(0.3) else []
            head = f"    def __init__(self, {cparam}" + "".join(f", {n}={d}" for n, d in cextra) + "):"
            if base and base.get("ctor") is not None and base.get("module") != "u1":
                barg = cparam if base.get("ctor") == "int" else ""
                if self.chance(self.w["k4"] * 3):
                    lines += [head, f"        super().__init__({barg})", f"        self.w = {cparam}"]
                    self.note("K4-super-init")
                else:
                    lines += [head, f"        {base['name']}.__init__(self, {barg})" if barg else f"        {base['name']}.__init__(self)", f"        self.w = {cparam}"]
                    self.note("explicit-base-init")
            else:
                lines += [head, f"        self.v = {self.fcall(cparam)}" if self.chance(0.5) else f"        self.v = {cparam}"]
            ctor = "int"
        # inherited methods in MRO order (first definition of each name wins)
        binh, seen = [], set()
        for c in mro_rest:
            for m in c["methods"]:
                if m["name"] not in seen:
                    seen.add(m["name"])
                    binh.append(dict(m, owner=c["name"]))
        methods = []
        p_over = override if override is not None else 0.3
        # overrides of inherited plain methods (same name and signature)
        for bm in [x for x in binh if not x.get("cbp")]:
            if self.chance(p_over):
                ctx = dict(others=[x for x in list(methods) + binh if not x.get("cbp") and x["name"] != bm["name"]])
                body = self.gen_action(8, "x", in_method=ctx)
                lines += [f"    def {bm['name']}(self, x" + "".join(f", {n}={d}" for n, d in bm.get("extra", [])) + "):"] + body + ["        return t"]
                methods.append(dict(name=bm["name"], extra=bm.get("extra", []), level=bm.get("level", 0) + 1))
                self.note("override-method" + ("-multi-base" if len(bases) > 1 else ""))
        binh = [x for x in binh if x["name"] not in {m["name"] for m in methods}]
        for j in range(nmethods if nmethods is not None else r.randint(1, 2)):
            m = self.fresh("m")
            extra = [(self.fresh("y"), 1)] if self.chance(0.3) else []
            ctx = dict(others=[x for x in list(methods) + binh if not x.get("cbp")])
            body = self.gen_action(8, "x", in_method=ctx)
            lines += [f"    def {m}(self, x" + "".join(f", {n}={d}" for n, d in extra) + "):"] + body + ["        return t"]
            methods.append(dict(name=m, extra=extra))
        # visitor method with a callback parameter: new, or overriding an inherited one (1-2 levels)
        bvis = [x for x in binh if x.get("cbp")]
        if bvis and self.chance(0.7 if override is None else override):
            bm = self.pick(bvis)
            vm = {k: v for k, v in bm.items() if k != "owner"}          # same name and parameters: an override
            self.note("override-visit-2" if bm.get("level", 0) >= 1 else "override-visit")
            vm["level"] = bm.get("level", 0) + 1
        elif not bvis and self.chance(0.5):
            vm = dict(name=self.fresh("visit"), cbp=self.pick(self.CB_NAMES), xp=self.pick(self.INT_NAMES), cb_first=self.chance(0.6),
                      extra=[(self.fresh("y"), 1)] if self.chance(0.3) else [], level=0)
            self.note("visit-method")
        else:
            vm = None
        if vm:
            ps = [vm["cbp"], vm["xp"]] if vm.get("cb_first", True) else [vm["xp"], vm["cbp"]]
            body = [f"        t = {vm['cbp']}({vm['xp']})"]
            if self.chance(0.5):
                body.append(f"        t = {self.fcall('t')}")
            lines += [f"    def {vm['name']}(self, " + ", ".join(ps) + "".join(f", {n}={d}" for n, d in vm.get("extra", [])) + "):"] + body + ["        return t"]
            methods.append(vm)
            binh = [x for x in binh if x["name"] != vm["name"]]
        if len(lines) == 1:
            lines.append("    pass")
        self.main += lines
        rec = self.add_class(dict(name=nm, methods=methods, inherited=binh, ctor=ctor, cparam=cparam, cextra=cextra, bases=bases,
                                  own_init=own_init))
        if len(bases) > 1:
            self.note("class-multi-base" + ("-diamond" if any(a is b for a in bases[0]["mro"] for b in bases[1]["mro"]) else ""))
        else:
            self.note("class-derived-2" if bases and len(mro_rest) > 1 else ("class-derived" if bases else "class"))
        return rec

    def gen_hierarchy(self):
        """a diamond family generated in one go: Base; Left(Base), Right(Base) each overriding or not;
        Join(Left, Right) or Join(Right, Left) overriding or not; optionally a subclass of the join"""
        base = self.gen_class(bases=[], nmethods=self.r.randint(1, 2))
        if base is None:
            return
        self.pad() if self.chance(0.4) else None
        left = self.gen_class(bases=[base], override=self.pick([0.0, 0.5, 1.0]), nmethods=self.r.randint(0, 1))
        self.pad() if self.chance(0.4) else None
        right = self.gen_class(bases=[base], override=self.pick([0.0, 0.5, 1.0]), nmethods=self.r.randint(0, 1))
        pair = [left, right] if self.chance(0.5) else [right, left]
        self.pad() if self.chance(0.4) else None
        join = self.gen_class(bases=pair, override=self.pick([0.0, 0.0, 0.5]), nmethods=self.r.randint(0, 1))
        if self.chance(0.4):
            self.gen_class(bases=[join], override=self.pick([0.0, 0.3]), nmethods=1)
        self.note("hierarchy-diamond")

    def generate(self):
        r = self.r
        if self.chance(0.75):
            self.gen_helper()
        for _ in range(r.randint(1, 2)):
            self.gen_leaf()
        plan = []
        n_items = int(r.randint(4, 8) * self.size)
        for _ in range(n_items):
            plan.append(self.pick(["plain", "plain", "plain", "hof", "hof", "maker", "rec", "class", "class", "class", "leaf", "hierarchy"]))
        for it in plan:
            getattr(self, "gen_" + it)()
            if self.chance(0.5):
                self.pad()
        # top-level code: several actions, repeated uses (several contexts of the same callee)
        top = []
        for _ in range(int(r.randint(3, 7) * self.size)):
            top += self.gen_action(0, str(r.randint(1, 3)))
        if self.chance(0.5) and self.plain:
            e = self.pick(self.plain)
            for _ in range(r.randint(2, 4)):
                top.append(f"t = {self.call_plain(e, str(r.randint(1, 3)))}")
            self.note("repeated-context")
        ep = []
        if self.chance(self.w["ep"]):
            ep = ["def ep_main():"] + self.gen_action(4, "2") + ["    return t"]
            self.note("configured-entry")
        files = {}
        head = ["import sys"] + self.imports + ["D = sys.argv[1]"]
        mainf = self.mainmod + ".py"
        files[mainf] = "\n".join(head + self.main + ep + top) + "\n"
        if self.helper:
            files[self.hmod + ".py"] = "\n".join(self.helper) + "\n"
            files.update(self.extra_files)
        if self.chance(self.w["second_entry"]) and self.helper:
            # a second file with top-level code: its %unit_init is a second entry point
            nm = [l.split("(")[0][4:] for l in self.helper if l.startswith("def ")]
            files["u2.py"] = "\n".join([f"from {self.hmod} import {nm[0]}", "def w2(x):", f"    return {nm[0]}(x)", "s = w2(1)", "s = w2(2)"]) + "\n"
            self.note("second-entry-file")
        return dict(files=files, ndec=self.ndec, kinds=sorted(set(self.kinds)), main=mainf,
                    runs=[mainf] + (["u2.py"] if "u2.py" in files else []), ep=bool(ep))


def gen_program(seed, size=1.0, weights=None):
    return ProgGen(random.Random(seed), size, weights).generate()


# ------------------------------------------------------------------------------------------------
# CPython ground truth
# ------------------------------------------------------------------------------------------------

TRACER = r'''
import sys, os, json, runpy
proj = os.path.realpath(sys.argv[1]); runs = sys.argv[2].split(","); vectors = sys.argv[3].split(","); ep = sys.argv[4] == "1"
sys.path.insert(0, proj)
chains = {}
errors = []
def key(co):
    q = co.co_qualname.split(".")
    n = q[-1]
    if n == "<module>": return "<module>"
    if n == "<lambda>": return "<lambda>@%d" % co.co_firstlineno
    if len(q) >= 2 and q[-2] != "<locals>": return q[-2] + "." + n      # method: Class.name
    return n
def inproj(co):
    fn = co.co_filename
    return fn.startswith(proj + os.sep)
def prof(frame, event, arg):
    if event != "call": return
    co = frame.f_code
    if not inproj(co): return
    if not (co.co_flags & 2): return      # module and class bodies are not calls of functions
    back = frame.f_back
    if back is None or not inproj(back.f_code): return
    chain = []
    f = frame
    while f.f_back is not None and inproj(f.f_back.f_code):
        b = f.f_back
        chain.append((os.path.relpath(b.f_code.co_filename, proj), key(b.f_code), b.f_lineno,
                      os.path.relpath(f.f_code.co_filename, proj), key(f.f_code)))
        f = b
    chain.reverse()
    t = chain[-1]
    lst = chains.setdefault(t, [])
    if len(lst) < 12 and chain not in lst:
        lst.append(chain)
for run in runs:
    for vec in vectors:
        for m in [m for m in list(sys.modules) if getattr(sys.modules[m], "__file__", None) and str(sys.modules[m].__file__).startswith(proj + os.sep)]:
            del sys.modules[m]
        sys.argv = [run, vec]
        try:
            sys.setprofile(prof)
            try:
                g = runpy.run_path(os.path.join(proj, run), run_name="__main__")
                if ep and run == runs[0] and "ep_main" in g:
                    g["ep_main"]()
            finally:
                sys.setprofile(None)
        except BaseException as e:
            errors.append("%s %s: %s: %s" % (run, vec, type(e).__name__, e))
print(json.dumps({"chains": [[list(t), [[list(x) for x in c] for c in cs]] for t, cs in sorted(chains.items())], "errors": errors}))
'''


def write_project(d, prog):
    if os.path.isdir(d):
        shutil.rmtree(d)
    os.makedirs(d)
    for rel, txt in prog["files"].items():
        p = os.path.join(d, rel)
        os.makedirs(os.path.dirname(p), exist_ok=True)
        with open(p, "w") as f:
            f.write(txt)


def trace_program(scratch, projdir, prog):
    tr = os.path.join(scratch, "tracer.py")
    if not os.path.exists(tr):
        with open(tr, "w") as f:
            f.write(TRACER)
    k = prog.get("ndec", 0)
    vectors = ["".join(v) for v in itertools.product("01", repeat=k)] if k else ["0"]
    vectors = [v + "0" * (3 - len(v)) for v in vectors]
    try:
        p = subprocess.run([PY, tr, projdir, ",".join(prog.get("runs", ["m.py"])), ",".join(vectors), "1" if prog.get("ep") else "0"],
                           capture_output=True, text=True, timeout=20)
    except subprocess.TimeoutExpired:
        return None, ["tracer timed out (program does not terminate)"]
    if p.returncode != 0:
        return None, ["tracer failed: " + p.stderr[-400:]]
    j = json.loads(p.stdout.strip().split("\n")[-1])
    dyn = {}
    for t, cs in j["chains"]:
        dyn[tuple(t)] = [[tuple(x) for x in c] for c in cs]
    return dyn, j["errors"]


# ------------------------------------------------------------------------------------------------
# the real analyser, in-process, with logging wrappers
# ------------------------------------------------------------------------------------------------

SETTINGS_ENTRY = '- method_list: ["%unit_init"]\n- lang: python\n  method_list: ["ep_main"]\n'


def ensure_settings(scratch):
    d = os.path.join(scratch, "settings")
    if not os.path.isdir(d):
        os.makedirs(d)
        with open(os.path.join(d, "entry.yaml"), "w") as f:
            f.write(SETTINGS_ENTRY)
    return d


def run_lian(projdir, ws, settings):
    """Runs `lian semantic` in-process on projdir.  Returns the log dict (JSON-able)."""
    common.use_repo()
    import lian.main as lm
    from lian.core import global_semantics as gs, global_stmt_states as gss
    from lian.config import config
    import lian.common_structs as cs
    P3 = gs.P3GlobalSemanticAnalysis
    G = gss.GlobalStmtStates
    log = {"entries": [], "max": int(config.MAX_ANALYSIS_ROUND_FOR_CALL_SITE), "frames": [], "method_calls": {}, "sched": {}}
    cur = {}
    rd_seen = {}
    o_cts, o_init, o_afs, o_pop, o_CF = G.compute_target_method_states, P3.init_compute_frame, P3.analyze_frame_stack, cs.ComputeFrameStack.pop, gs.ComputeFrame
    o_css = P3.compute_stmt_states
    o_ars = P3.analyze_reachable_symbols
    import lian.core.stmt_states as ssm
    o_run = ssm.StmtStates.run
    holder = {}

    def p2t(cp):
        return [[int(x) for x in c.to_tuple()] for c in cp.path]

    def w_CF(*a, **kw):
        fr = o_CF(*a, **kw)
        fr._lv_serial = len(log["frames"])
        log["frames"].append({"method": int(fr.method_id), "caller": int(fr.caller_id), "stmt": int(fr.call_stmt_id), "ok": None, "script": [], "visits": []})
        if fr.caller_id == -1:
            cur["e"] = {"entry": int(fr.method_id), "events": []}
            log["entries"].append(cur["e"])
        else:
            cur["e"]["events"].append(["create", fr._lv_serial, [int(fr.caller_id), int(fr.call_stmt_id), int(fr.method_id)]])
        return fr

    def w_init(self, frame, frame_stack, global_space):
        r = o_init(self, frame, frame_stack, global_space)
        if not frame.is_meta_frame:
            n = frame._lv_serial
            log["frames"][n]["ok"] = r is not None
            cur["e"]["events"].append(["init", n, int(frame.method_id), p2t(frame.call_path), r is not None])
        return r

    def w_cts(self, stmt_id, stmt, status, in_states, callee_method_ids, target_symbol, args, this_state_set=set(), new_object_flag=False):
        ids = [int(x) for x in callee_method_ids]
        res = o_cts(self, stmt_id, stmt, status, in_states, callee_method_ids, target_symbol, args, this_state_set, new_object_flag)
        n = self.frame._lv_serial
        desc = [int(x) for x in res.interruption_data.callee_ids] if res.interruption_flag else []
        log["frames"][n]["script"].append([int(stmt_id), ids])
        av = set()
        try:
            groups = list(args.positional_args) + list(args.named_args.values())
            for g_ in groups:
                for a_ in g_:
                    st_ = self.frame.symbol_state_space[a_.index_in_space]
                    if st_ is not None and hasattr(st_, "value") and self.is_state_a_method_decl(st_):
                        try:
                            av.add(int(float(st_.value)))
                        except Exception:
                            pass
        except Exception:
            pass
        log["frames"][n].setdefault("cts", []).append([int(stmt_id), ids, desc, sorted(av)])
        cur["e"]["events"].append(["cts", n, int(self.frame.method_id), int(stmt_id), ids, desc])
        return res

    def w_css(self, stmt_id, stmt, frame):
        n = getattr(frame, "_lv_serial", None)
        if n is not None:
            blind = getattr(frame, "_lv_ars", None) != stmt_id
            frame._lv_ars = None
            frame._lv_ran = None
            vis = [int(stmt_id), bool(blind), False, False]
            log["frames"][n]["visits"].append(vis)
            m_ = int(frame.method_id)
            if m_ not in log["sched"]:
                try:
                    from lian.util import util as lutil
                    wl_ = frame.stmt_worklist
                    log["sched"][m_] = {
                        "succ": [[max(int(x), 0), [max(int(y), 0) for y in lutil.graph_successors(frame.cfg, x)]] for x in frame.cfg.nodes],
                        "prio": [[max(int(k_), 0), int(v_)] for k_, v_ in wl_.priority_dict.items()],
                        "stmts": [int(x) for x in frame.stmt_counters if int(x) > 0],
                        "first": [max(int(x), 0) for x in lutil.find_cfg_first_nodes(frame.cfg)],
                        "max": int(self.max_analysis_round)}
                except Exception as e_:
                    log["sched"][m_] = {"error": "%s: %s" % (type(e_).__name__, e_)}
            try:
                st_ = frame.stmt_id_to_status[stmt_id]
                got = rd_seen.setdefault(n, {"frame": frame, "in": {}})["in"].setdefault(int(stmt_id), set())
                for d in frame.symbol_bit_vector_manager.explain(st_.in_symbol_bits):
                    got.add((int(d.symbol_id), int(d.stmt_id)))
            except Exception:
                pass
            m = int(frame.method_id)
            if m not in log["method_calls"]:
                tab = {}
                for sid in frame.stmt_counters:
                    try:
                        st = frame.unit_gir.get_stmt_by_id(sid)
                        if st.operation in ("call_stmt", "object_call_stmt"):
                            tab[int(sid)] = int(st.start_row) + 1
                    except Exception:
                        pass
                log["method_calls"][m] = tab
            r_ = o_css(self, stmt_id, stmt, frame)
            vis[2] = bool(getattr(frame, "_lv_ran", None) == stmt_id)
            vis[3] = bool(getattr(r_, "interruption_flag", False))
            return r_
        return o_css(self, stmt_id, stmt, frame)

    def w_ars(self, stmt_id, stmt, frame):
        frame._lv_ars = stmt_id
        return o_ars(self, stmt_id, stmt, frame)

    def w_run(self, stmt_id, stmt, status, in_states, used_symbol_id_to_indexes):
        self.frame._lv_ran = stmt_id
        return o_run(self, stmt_id, stmt, status, in_states, used_symbol_id_to_indexes)

    def w_pop(self):
        el = o_pop(self)
        if el is not None and hasattr(el, "_lv_serial") and "e" in cur:
            cur["e"]["events"].append(["pop", el._lv_serial])
        return el

    def w_afs(self, frame_stack, global_space, sfg):
        holder["p3"] = self
        r = o_afs(self, frame_stack, global_space, sfg)
        cur["e"]["counter"] = sorted([int(x) for x in k.to_tuple()] + [int(v)] for k, v in self.call_site_analyze_counter.items())
        cur["e"]["paths"] = sorted(p2t(p) for p in self.path_manager.paths)
        return r

    G.compute_target_method_states = w_cts
    P3.init_compute_frame = w_init
    P3.analyze_frame_stack = w_afs
    P3.compute_stmt_states = w_css
    P3.analyze_reachable_symbols = w_ars
    ssm.StmtStates.run = w_run
    cs.ComputeFrameStack.pop = w_pop
    gs.ComputeFrame = w_CF
    out = io.StringIO()
    l = None
    # a CLI run starts from a fresh interpreter: undo what an earlier in-process run left behind
    # (P3.run() overwrites config.MAX_ANALYSIS_ROUND_FOR_GLOBAL_ANALYSIS *after* __init__ has read it;
    # State ids come from a module-level counter)
    if "config0" not in _W:
        _W["config0"] = {k: getattr(config, k) for k in dir(config) if k.isupper()}
    for k, v in _W["config0"].items():
        setattr(config, k, v)
    cs.global_state_id = config.START_INDEX
    argv0 = list(sys.argv)
    try:
        sys.argv = ["lian", "semantic", "-l", "python", "-w", ws, "-f", "-q", "--default-settings", settings, projdir]
        with contextlib.redirect_stdout(out), contextlib.redirect_stderr(out):
            try:
                l = lm.Lian().run()
            except SystemExit as e:
                log["crash"] = "SystemExit(%s)" % (e.code,)
            except Exception as e:
                log["crash"] = "%s: %s\n%s" % (type(e).__name__, e, traceback.format_exc()[-1500:])
    finally:
        sys.argv = argv0
        G.compute_target_method_states = o_cts
        P3.init_compute_frame = o_init
        P3.analyze_frame_stack = o_afs
        P3.compute_stmt_states = o_css
        P3.analyze_reachable_symbols = o_ars
        ssm.StmtStates.run = o_run
        cs.ComputeFrameStack.pop = o_pop
        gs.ComputeFrame = o_CF
    log["stdout_tail"] = out.getvalue()[-600:]
    for n, rec in rd_seen.items():
        try:
            vs = log["frames"][n]["visits"]
            first, ran = {}, set()
            for v in vs:
                first.setdefault(v[0], v[1])
                if v[2]:
                    ran.add(v[0])
            skipped = [sid for sid, b in first.items() if b and sid not in ran]
            log["frames"][n]["rd_tainted"] = rd_tainted_stmts(rec["frame"], rec["in"], cs.Symbol, skipped, vs)
        except Exception as e:
            log["frames"][n]["rd_tainted"] = []
            log["frames"][n]["rd_error"] = "%s: %s" % (type(e).__name__, e)
    if l is None or l.loader is None:
        return log
    loader = l.loader
    # method table: id -> (file, key, line); call-statement lines
    src_root = None
    methods = {}
    try:
        mids = list(loader.get_all_method_ids())
    except Exception:
        mids = []
    for m in mids:
        try:
            m = int(m)
            up = loader.convert_unit_id_to_unit_path(loader.convert_method_id_to_unit_id(m))
            name = loader.convert_method_id_to_method_name(m)
            st = loader.get_stmt_gir(m)
            row = st.start_row
            line = int(row) + 1 if row == row and row is not None else 0
            cls = None
            try:
                outer = loader.convert_stmt_id_to_method_id(m)
                nested = outer is not None and outer == outer and int(outer) > 0 and int(outer) != m and \
                    loader.convert_method_id_to_method_name(int(outer)) != "%unit_init"
            except Exception:
                nested = False
            try:
                cid = None if nested else loader.convert_method_id_to_class_id(m)
                if cid is not None and cid == cid and int(cid) > 0:
                    cls = loader.convert_class_id_to_class_name(cid)
                    if not isinstance(cls, str) or not cls:
                        cls = None
            except Exception:
                cls = None
            methods[m] = [up, name, line, cls]
        except Exception:
            pass
    log["methods"] = methods
    lines = {}
    sids = set()
    for fr in log["frames"]:
        for s, _ in fr["script"]:
            sids.add(s)
    for e in log["entries"]:
        for p in e.get("paths", []):
            for a, b, c in p:
                sids.add(b)
    for s in sids:
        try:
            lines[s] = int(loader.get_stmt_gir(s).start_row) + 1
        except Exception:
            lines[s] = -1
    log["lines"] = lines
    p3 = holder.get("p3")
    log["unknown"] = sorted([k] + sorted(map(str, x)) for k, v in (p3.caller_unknown_callee_edge.items() if p3 else []) for x in v)
    return log


def rd_tainted_stmts(frame, real_in, Symbol, skipped=(), visits=()):
    """Classical may-reaching-definitions over the frame's REAL control-flow graph and the frame's REAL
    definition table, compared with the definitions lian's own in_symbol_bits offered (union over all
    visits of the statement).  Returns the statements whose backward def-use slice contains a statement
    that was offered fewer definitions of a used local symbol than classical RD gives (a lost reaching
    definition, the defect recorded under C06)."""
    cfg = frame.cfg
    defs_of = {}          # stmt -> set(symbol ids it defines)
    for sym, nodes in frame.defined_symbols.items():
        for d in nodes:
            defs_of.setdefault(int(d.stmt_id), set()).add(int(sym))
    local_syms = {int(x) for x in frame.defined_symbols}
    uses_of = {}
    for sid, st_ in frame.stmt_id_to_status.items():
        us = set()
        for idx in list(st_.used_symbols) + list(st_.implicitly_used_symbols):
            it = frame.symbol_state_space[idx]
            if isinstance(it, Symbol) and int(it.symbol_id) in local_syms:
                us.add(int(it.symbol_id))
        uses_of[int(sid)] = us
    nodes = [int(x) for x in cfg.nodes]
    preds = {n: set() for n in nodes}
    for u, v in cfg.edges():
        preds.setdefault(int(v), set()).add(int(u))
    IN = {n: set() for n in nodes}
    OUT = {n: set() for n in nodes}
    changed = True
    while changed:
        changed = False
        for n in nodes:
            i = set()
            for p_ in preds.get(n, ()):
                i |= OUT.get(p_, set())
            ds = defs_of.get(n, set())
            o = {(sy, st) for (sy, st) in i if sy not in ds} | {(sy, n) for sy in ds}
            if i != IN[n] or o != OUT[n]:
                IN[n], OUT[n] = i, o
                changed = True
    deficient = set()
    for sid, got in real_in.items():
        need = {(sy, st) for (sy, st) in IN.get(sid, set()) if sy in uses_of.get(sid, set())}
        have = {(sy, st) for (sy, st) in got if sy in uses_of.get(sid, set())}
        if need - have:
            deficient.add(sid)
    kind = {sid: "rd" for sid in deficient}
    for sid in skipped:
        kind[int(sid)] = "skip"
    changed = True
    while changed:
        changed = False
        for sid in nodes:
            for (sy, st) in IN.get(sid, set()):
                if sy in uses_of.get(sid, set()) and st in kind:
                    k = kind[st]
                    if sid not in kind or (kind[sid] != "skip" and k == "skip"):
                        kind[sid] = k
                        changed = True
    return sorted([sid, k] for sid, k in kind.items())


def method_keys(log, projdir_name):
    """lian method id -> (relative file, key) in the tracer's vocabulary."""
    res = {}
    for m, (up, name, line, cls) in log.get("methods", {}).items():
        m = int(m)
        up = str(up)
        # workspace copies sources under …/src/<project dir name>/…
        marker = os.sep + projdir_name + os.sep
        if marker not in up:
            continue
        rel = up.split(marker, 1)[1]
        if name == "%unit_init":
            k = "<module>"
        elif name.startswith("%mm"):
            k = "<lambda>@%d" % line
        elif cls:
            k = "%s.%s" % (cls, name)
        else:
            k = name
        res[m] = (rel, k)
    return res


# ------------------------------------------------------------------------------------------------
# (A) model replay
# ------------------------------------------------------------------------------------------------

def model_request(log):
    frames = [{"method": f["method"], "ok": bool(f["ok"]) if f["ok"] is not None else True, "script": f["script"]} for f in log["frames"]]
    nev = sum(len(e["events"]) for e in log["entries"])
    return {"m": "frames", "op": "run", "max": log["max"], "fuel": 4 * nev + 50,
            "entries": [e["entry"] for e in log["entries"]], "frames": frames}


def compare_model(log, reply):
    """returns None when the model reproduces the real run, else a description of the first difference."""
    if len(reply["entries"]) != len(log["entries"]):
        return {"what": "number of entry points", "real": len(log["entries"]), "model": len(reply["entries"])}
    for i, (re_, me) in enumerate(zip(log["entries"], reply["entries"])):
        mev = [e[:6] if e[0] == "cts" else e for e in me["events"]]
        rev = re_["events"]
        if mev != rev:
            for j in range(max(len(mev), len(rev))):
                a = rev[j] if j < len(rev) else None
                b = mev[j] if j < len(mev) else None
                if a != b:
                    return {"what": "event sequence", "entry": re_["entry"], "index": j, "real": a, "model": b}
        if me["stuck"]:
            return {"what": "model ran out of fuel", "entry": re_["entry"]}
        if sorted(me["counter"]) != re_.get("counter"):
            return {"what": "call-site counters", "entry": re_["entry"], "real": re_.get("counter"), "model": sorted(me["counter"])}
        if sorted(me["paths"]) != re_.get("paths"):
            return {"what": "stored call paths", "entry": re_["entry"], "real": re_.get("paths"), "model": sorted(me["paths"])}
    return None


# ------------------------------------------------------------------------------------------------
# (B) oracle: dynamic triples vs static edges / frames, explanation of misses
# ------------------------------------------------------------------------------------------------

def module_bindings(files, rel, _seen=None, star_all=False):
    """static module-level bindings of a project file: name -> (how, defining file, defining name) with how in
    "def" (def/class in this file), "name" (from-import by name, followed through project files) or "star"
    (only visible through `from M import *`)"""
    _seen = _seen or set()
    if rel in _seen or rel not in files:
        return {}
    _seen = _seen | {rel}
    try:
        tree = ast.parse(files[rel])
    except Exception:
        return {}
    out = {}
    def modfile(m):
        f = (m or "").replace(".", os.sep) + ".py"
        return f if f in files else None
    for n in tree.body:
        if isinstance(n, (ast.FunctionDef, ast.ClassDef)):
            out[n.name] = ("def", rel, n.name)
        elif isinstance(n, ast.ImportFrom):
            mf = modfile(n.module)
            if not mf:
                continue
            src = module_bindings(files, mf, _seen, star_all)
            for a in n.names:
                if a.name == "*":
                    for k, v in src.items():
                        if (star_all or not k.startswith("_")) and k not in out:
                            out[k] = ("star", v[1], v[2])
                elif a.name in src:
                    out[a.asname or a.name] = ("name", src[a.name][1], src[a.name][2])
    return out


def classify_call_syntax(files, rel, line, callee_key, callee_file=None, chain_files=None, prev=None, above=None):
    """Shape matchers for misses of call RESOLUTION (the part of lian the model does not cover).
    Looks only at the source text of the failing program."""
    try:
        tree = ast.parse(files[rel])
    except Exception:
        return None
    imported_modules = set()
    for n in ast.walk(tree):
        if isinstance(n, ast.Import):
            for a in n.names:
                imported_modules.add(a.asname or a.name)
    # K1 (value form): the callee is a module-level function of another project file, and in the files of
    # the callers on this dynamic chain it is referenced ONLY as an attribute of a module object bound by
    # `import M [as A]` (never from-imported there), so its value reaches the call through an unresolved
    # module-attribute read
    if callee_file is not None and callee_file != rel and "." not in callee_key and not callee_key.startswith("<"):
        mod = callee_file[:-3].replace(os.sep, ".")
        from_imported = attr_ref = False
        for orel in sorted(set(chain_files or [rel])):
            if orel == callee_file or orel not in files:
                continue
            try:
                ot = ast.parse(files[orel])
            except Exception:
                continue
            aliases = set()
            for n in ast.walk(ot):
                if isinstance(n, ast.Import):
                    for a in n.names:
                        if a.name == mod:
                            aliases.add(a.asname or a.name)
                elif isinstance(n, ast.ImportFrom) and n.module == mod:
                    if any(a.name == callee_key or a.name == "*" for a in n.names):
                        from_imported = True
            for n in ast.walk(ot):
                if isinstance(n, ast.Attribute) and isinstance(n.value, ast.Name) and n.value.id in aliases and n.attr == callee_key:
                    attr_ref = True
        if attr_ref and not from_imported:
            return "C07/import-module-attribute-call"
    # module variable holding a function (value form, covers the direct call too): the callee F is a
    # module-level function of project file M, M binds a module-level variable `V = F`, a file of the callers
    # on this dynamic chain from-imports V from M and none of them from-imports F itself: the value reaches the
    # call through the imported variable, whose state lian does not know
    if callee_file is not None and "." not in callee_key and not callee_key.startswith("<") and callee_file in files:
        mod = callee_file[:-3].replace(os.sep, ".")
        try:
            mt = ast.parse(files[callee_file])
        except Exception:
            mt = None
        holders = set()
        if mt is not None:
            for n in mt.body:
                if isinstance(n, ast.Assign) and isinstance(n.value, ast.Name) and n.value.id == callee_key:
                    holders |= {t.id for t in n.targets if isinstance(t, ast.Name)}
        if holders:
            imp_holder = imp_direct = False
            for orel in sorted(set(chain_files or [rel])):
                if orel == callee_file or orel not in files:
                    continue
                try:
                    ot = ast.parse(files[orel])
                except Exception:
                    continue
                for n in ast.walk(ot):
                    if isinstance(n, ast.ImportFrom) and n.module == mod:
                        for a in n.names:
                            if a.name in holders:
                                imp_holder = True
                            if a.name == callee_key or a.name == "*":
                                imp_direct = True
            if imp_holder and not imp_direct:
                return "C07/module-variable-callable"
    # one definition imported into one file under two local names (e.g. `from u import f as g` and a later
    # `from r import *` that brings f again): the import graph has ONE edge per (unit, symbol), the later import
    # overwrites the local name of the earlier one
    if callee_file is not None and not callee_key.startswith("<"):
        target = (callee_file, callee_key.split(".")[0])
        for orel in sorted(set(chain_files or [rel])):
            if orel not in files:
                continue
            try:
                ot = ast.parse(files[orel])
            except Exception:
                continue
            local_names = set()
            for n in ot.body:
                if isinstance(n, ast.ImportFrom):
                    mf = (n.module or "").replace(".", os.sep) + ".py"
                    if mf not in files:
                        continue
                    src = module_bindings(files, mf, star_all=True)      # lian's star import also brings _names
                    for a in n.names:
                        if a.name == "*":
                            local_names |= {k for k, v in src.items() if (v[1], v[2]) == target}
                        elif a.name in src and (src[a.name][1], src[a.name][2]) == target:
                            local_names.add(a.asname or a.name)
            if len(local_names) >= 2:
                return "C07/same-definition-imported-twice"
    # names only visible through `from M import *`: the dynamic callee (a function, or the class of a method /
    # constructor) is bound in the files of the callers on this chain ONLY by a star import, never by def or by
    # an import by name: lian does not bind star-imported names in the importing unit
    if callee_file is not None and not callee_key.startswith("<"):
        target = (callee_file, callee_key.split(".")[0])
        by_name = by_star = False
        for orel in sorted(set(chain_files or [rel])):
            for k, (how, df, dn) in module_bindings(files, orel).items():
                if (df, dn) == target:
                    if how == "star":
                        by_star = True
                    else:
                        by_name = True
        if by_star and not by_name:
            return "C07/star-import-names-unbound"
    calls = [n for n in ast.walk(tree) if isinstance(n, ast.Call) and n.lineno == line]
    # enclosing function of the line
    encl = None
    for n in ast.walk(tree):
        if isinstance(n, (ast.FunctionDef,)) and n.lineno <= line <= (n.end_lineno or n.lineno):
            if encl is None or n.lineno >= encl.lineno:
                encl = n
    for c in calls:
        fn = c.func
        # callables that arrive through a PARAMETER of the enclosing function
        if encl is not None:
            a = encl.args
            pos_params = [x.arg for x in a.posonlyargs + a.args]
            defaults = dict(zip(pos_params[len(pos_params) - len(a.defaults):], a.defaults)) if a.defaults else {}
            kwonly = {x.arg: d for x, d in zip(a.kwonlyargs, a.kw_defaults)}
            pname, packed = None, False
            if isinstance(fn, ast.Name):
                pname = fn.id
            elif isinstance(fn, ast.Subscript) and isinstance(fn.value, ast.Name):
                pname, packed = fn.value.id, True
            if pname and packed and ((a.vararg and a.vararg.arg == pname) or (a.kwarg and a.kwarg.arg == pname)):
                # `def f(x, *fs): fs[0](x)` / `def f(x, **kw): kw["k"](x)`
                return "C07/packed-parameter-callable"
            if pname and not packed and (pname in pos_params or pname in kwonly) and prev is not None:
                pcs = []
                try:
                    pt = ast.parse(files[prev[0]])
                    for n in ast.walk(pt):
                        if isinstance(n, ast.Call) and n.lineno == prev[1]:
                            f2 = n.func
                            nm2 = f2.id if isinstance(f2, ast.Name) else (f2.attr if isinstance(f2, ast.Attribute) else None)
                            if nm2 == encl.name or encl.name == "__init__":
                                pcs.append(n)
                except Exception:
                    pcs = []
                starred_above = False
                for (pf, pl) in (above or []):
                    try:
                        starred_above = starred_above or any(isinstance(n, ast.Call) and n.lineno == pl and any(isinstance(x, ast.Starred) for x in n.args)
                                                             for n in ast.walk(ast.parse(files[pf])))
                    except Exception:
                        pass
                if (pcs and any(isinstance(x, ast.Starred) for c2 in pcs for x in c2.args)) or starred_above:
                    # `f(*[cb, 1])`: star-unpacked positional arguments are not mapped to the parameters
                    return "C07/star-unpacked-positional-args"
                d = defaults.get(pname) if pname in defaults else kwonly.get(pname)
                if pcs and d is not None and isinstance(d, ast.Name):
                    idx = pos_params.index(pname) - (1 if pos_params and pos_params[0] == "self" else 0) if pname in pos_params else 10 ** 6
                    def fills(k):
                        if k.arg is not None:
                            return k.arg == pname
                        if isinstance(k.value, ast.Dict) and all(isinstance(x, ast.Constant) for x in k.value.keys):
                            return pname in [x.value for x in k.value.keys]
                        return True
                    unfilled = all(not any(fills(k) for k in c2.keywords) and len(c2.args) <= idx for c2 in pcs)
                    if unfilled:
                        # `def f(x, cb=g): cb(x)` called without cb: the default value is a module variable of the definer
                        return "C07/default-parameter-callable"
        # K1: module.attr(...) where module is bound by `import module [as alias]`
        if isinstance(fn, ast.Attribute) and isinstance(fn.value, ast.Name) and fn.value.id in imported_modules \
                and fn.attr == callee_key.split(".")[0]:
            return "C07/import-module-attribute-call"
        # K4: super().method(...)
        if isinstance(fn, ast.Attribute) and isinstance(fn.value, ast.Call) and isinstance(fn.value.func, ast.Name) \
                and fn.value.func.id == "super" and callee_key.endswith(fn.attr):
            return "C07/super-call"
        # self.<m>(...) inside a method of class A whose run-time callee is B.<m> with B a subclass of A
        if isinstance(fn, ast.Attribute) and isinstance(fn.value, ast.Name) and fn.value.id == "self" and encl is not None \
                and "." in callee_key and callee_key.split(".")[1] == fn.attr:
            classes = {n.name: n for n in ast.walk(tree) if isinstance(n, ast.ClassDef)}
            a_cls = next((n for n in classes.values() if encl in n.body), None)
            b_name = callee_key.split(".")[0]
            def ancestors(nm, seen=()):
                res = set()
                c_ = classes.get(nm)
                if c_ is None or nm in seen:
                    return res
                for b_ in c_.bases:
                    if isinstance(b_, ast.Name):
                        res.add(b_.id)
                        res |= ancestors(b_.id, seen + (nm,))
                return res
            if a_cls is not None and b_name != a_cls.name and a_cls.name in ancestors(b_name):
                return "C07/self-call-dispatch-to-subclass"
        # K3: self.<field>(...) inside a method, where <field> is not a method name but an instance field
        if isinstance(fn, ast.Attribute) and isinstance(fn.value, ast.Name) and fn.value.id == "self" and encl is not None:
            cls = None
            for n in ast.walk(tree):
                if isinstance(n, ast.ClassDef) and encl in n.body:
                    cls = n
            if cls is not None:
                method_names = {b.name for b in cls.body if isinstance(b, ast.FunctionDef)}
                assigned = False
                for n in ast.walk(cls):
                    if isinstance(n, ast.Assign):
                        for t in n.targets:
                            if isinstance(t, ast.Attribute) and isinstance(t.value, ast.Name) and t.value.id == "self" and t.attr == fn.attr:
                                assigned = True
                if assigned and fn.attr not in method_names:
                    return "C07/self-field-callable-in-method"
    return None


def analyse_misses(prog, projname, log, reply, dyn, twin_check=None, sched_agree=None):
    """Returns (misses, stats).  Each miss: dict(triple, kind, finding or None, detail)."""
    mk = method_keys(log, projname)
    inv = {}
    for m, k in mk.items():
        inv.setdefault(k, []).append(m)
    lines = {int(k): v for k, v in log.get("lines", {}).items()}
    # static edges (union over entries: the store is shared, the last entry has everything)
    edges = set()
    for e in log["entries"]:
        for p in e.get("paths", []):
            for a, b, c in p:
                edges.add((a, lines.get(b, -1), c))
    frames = log["frames"]
    framed_sites = set()           # (caller, line, callee) for frames that were created and initialised
    frames_by_path = {}
    serial_path = {}
    for e in log["entries"]:
        for ev in e["events"]:
            if ev[0] == "init" and ev[4]:
                serial_path[ev[1]] = ev[3]
                frames_by_path.setdefault(json.dumps([[a, lines.get(b, -1), c] for a, b, c in ev[3]]), []).append(ev[1])
                fr = frames[ev[1]]
                if fr["caller"] >= 0:
                    framed_sites.add((fr["caller"], lines.get(fr["stmt"], -1), fr["method"]))
    # model reasons per (serial, position of invocation)
    reasons = {}
    if reply is not None:
        for me in reply["entries"]:
            for ev in me["events"]:
                if ev[0] == "cts":
                    reasons.setdefault(ev[1], []).append((ev[3], ev[4], ev[5], ev[6]))
    stats = {"dynamic_triples": 0, "edge_ok": 0, "frame_ok": 0, "unmapped": 0}
    misses = []

    def to_ids(t):
        cf, ck, line, ef, ek = t
        cs_ = inv.get((cf, ck), [])
        es_ = inv.get((ef, ek), [])
        return cs_, line, es_

    for t, chains in sorted(dyn.items()):
        stats["dynamic_triples"] += 1
        cs_, line, es_ = to_ids(t)
        if len(cs_) != 1 or len(es_) != 1:
            stats["unmapped"] += 1
            misses.append({"triple": list(t), "kind": "unmapped", "finding": None,
                           "detail": "caller/callee of the dynamic call has no unique lian method (%s, %s)" % (cs_, es_)})
            continue
        c_id, e_id = cs_[0], es_[0]
        has_edge = (c_id, line, e_id) in edges
        has_frame = (c_id, line, e_id) in framed_sites
        stats["edge_ok"] += has_edge
        stats["frame_ok"] += has_frame
        if has_edge and has_frame:
            continue
        # explain: walk every recorded dynamic chain through the real frames
        verdicts = []
        for chain in chains:
            v = explain_chain(prog, chain, inv, frames, frames_by_path, reasons, lines, log.get("method_calls", {}),
                              budget_pinned=(log.get("max") == PINNED_MAX), sched_agree=sched_agree)
            if v.get("finding") is None and "link" in v and twin_check is not None and v.get("unresolved"):
                lcf, lck, _, lef, lek = v["link"]
                if twin_check(lcf, lck, lef, lek):
                    v["finding"] = "C07/loop-scheduling-loses-call"
                    v["why"] += "; in the loop-free twin of the program (loops unrolled) the same caller->callee call is resolved and analysed"
            verdicts.append(v)
        known = [v["finding"] for v in verdicts]
        finding = None
        if verdicts and all(k is not None for k in known):
            # prefer the cause nearest to the root that all chains agree on; otherwise report the first
            finding = sorted(set(known))[0] if len(set(known)) == 1 else known[0]
        misses.append({"triple": list(t), "kind": ("edge-missing" if not has_edge else "callee-never-analysed-under-site"),
                       "finding": finding, "detail": verdicts[:3], "all_findings": sorted(set(k for k in known if k))})
    return misses, stats


def explain_chain(prog, chain, inv, frames, frames_by_path, reasons, lines, method_calls, budget_pinned=True, sched_agree=None):
    """Walk one dynamic call chain (root first) through the frames lian really created."""
    path = []       # static path as [caller, line, callee] ids
    ctx = []        # per link: (caller id, line, serials of the frames of the prefix)
    for i, (cf, ck, line, ef, ek) in enumerate(chain):
        cs_ = inv.get((cf, ck), [])
        es_ = inv.get((ef, ek), [])
        if len(cs_) != 1 or len(es_) != 1:
            return {"finding": None, "at": i, "why": "unmapped link"}
        c_id, e_id = cs_[0], es_[0]
        serials = frames_by_path.get(json.dumps(path), None)
        if i == 0:
            serials = [n for n, fr in enumerate(frames) if fr["caller"] == -1 and fr["method"] == c_id]
            if not serials:
                return {"finding": None, "at": 0, "why": "the root of the chain is not an entry point lian analysed"}
        if not serials:
            return {"finding": None, "at": i, "why": "internal: no frame for the prefix"}
        ctx.append((c_id, line, serials))
        nxt = path + [[c_id, line, e_id]]
        if json.dumps(nxt) in frames_by_path:
            path = nxt
            continue
        # no frame for this link in this context: why?
        seen_callee = False
        rs = set()          # the FIRST decision taken for this callee in the earliest frame of this context
        for n in sorted(serials):
            for (stmt, callees, desc, rr) in reasons.get(n, []):
                if lines.get(stmt, -1) == line and e_id in callees:
                    seen_callee = True
                    rs.add(rr[callees.index(e_id)])
                    break
            if seen_callee:
                break
        link = {"link": [cf, ck, line, ef, ek], "at": i, "of": len(chain)}
        if seen_callee:
            if rs == {4} and not budget_pinned:
                link.update(finding=None, why="descent refused by the call-site counter, but MAX_ANALYSIS_ROUND_FOR_CALL_SITE is not the pinned value %d the budget finding was characterised for" % PINNED_MAX)
            elif rs == {4}:
                link.update(finding="C07/call-site-budget-ignores-context", why="descent refused: call-site counter over budget")
            elif rs and rs <= {2, 4}:
                link.update(finding="C07/recursion-cut-off", why="descent refused: second cycle on the call path")
            else:
                link.update(finding=None, why="resolved here, no frame, and the first decision was not a cut-off (first decisions=%s)" % sorted(rs))
            return link
        # the callable arrives as an ARGUMENT, but never in an invocation that descends: at some call above on this
        # chain the call statement carries the function among its argument values only in visits that do not
        # descend into the callee (it was descended into earlier, before the value had arrived, or in another
        # context; now path stored / already analysed / budget): scheduling order defect + no re-descent
        late = None
        for j in range(i - 1, -1, -1):
            cj, lj, sj = ctx[j]
            callee_j = inv.get((chain[j][3], chain[j][4]), [None])[0]
            for n in sorted(sj):
                carried = descended_with = False
                for (st_, cs_, ds_, av_) in frames[n].get("cts", []):
                    if lines.get(st_, -1) != lj or callee_j not in cs_ or e_id not in av_:
                        continue
                    carried = True
                    if callee_j in ds_:
                        descended_with = True
                if carried and not descended_with:
                    late = j
            if late is not None:
                break
        if late is None:
            # the same for a value handed to a SIBLING call in this very frame (e.g. stored by a constructor:
            # bx = Box(cb=v); bx.cb(2)): a call statement of this frame carries the function among its argument
            # values, but never in an invocation that descended
            for n in sorted(serials):
                by_stmt = {}
                for (st_, cs_, ds_, av_) in frames[n].get("cts", []):
                    if e_id in av_:
                        rec = by_stmt.setdefault(st_, [False])
                        if ds_:
                            rec[0] = True
                if any(not r_[0] for r_ in by_stmt.values()):
                    late = i
        if late is not None:
            link.update(finding="C07/argument-value-arrives-after-descent", unresolved=True, at_link=late,
                        why="the call above descended into the callee before this function was among its argument values; a later visit of the same call statement carries it but no longer descends")
            return link
        f = classify_call_syntax(prog["files"], cf, line, ek, ef, [x[0] for x in chain[:i + 1]],
                                 prev=(chain[i - 1][0], chain[i - 1][2]) if i > 0 else None,
                                 above=[(x[0], x[2]) for x in chain[:i]])
        if f:
            link.update(finding=f, unresolved=True, why="callee not resolved at this call statement in the analysed context")
            return link
        # statements of this call line (here or at an ancestor link) that sit on a def-use slice poisoned by
        # a statement whose handler never ran (first visit blind after a resume) or by a lost reaching definition
        hit = None
        for j in range(i, -1, -1):
            cj, lj, sj = ctx[j]
            mc = method_calls.get(cj) or method_calls.get(str(cj)) or {}
            s_line = set(int(s_) for s_, ln in mc.items() if ln == lj)
            kinds_ = set()
            nvis = 0
            for n in sj:
                tk = {a: b for a, b in frames[n].get("rd_tainted", [])}
                for s_ in s_line:
                    if any(v[0] == s_ for v in frames[n]["visits"]):
                        nvis += 1
                        if s_ in tk:
                            kinds_.add(tk[s_])
                        else:
                            kinds_.add("clean")
            if nvis and (kinds_ - {"clean"}):
                hit = ("skip" if "skip" in kinds_ else "rd", j, sorted(s_line))
                break
            if j == i and s_line and not nvis:
                link.update(finding=None, unresolved=True, stmts=sorted(s_line), why="the call statement is never scheduled by analyze_stmts in any frame of this context")
                return link
        if hit:
            if hit[0] == "skip" and sched_agree is not None and not all(sched_agree.get(n, sched_agree.get(str(n), True)) for n in ctx[hit[1]][2]):
                link.update(finding=None, unresolved=True, stmts=hit[2], at_link=hit[1],
                            why="a statement on the slice was skipped after a resume, but the frame's visit sequence is NOT the one the frozen scheduler model Sched0 predicts")
            elif hit[0] == "skip":
                link.update(finding="C07/resume-analyses-wrong-statement", stmts=hit[2], at_link=hit[1],
                            why="the def-use slice of this call (through the arguments of the calls above it) contains a statement whose handler never ran: its first visit directly followed the resume of another, interrupted statement, so it got no reaching-definition input")
            else:
                link.update(finding="C07/reaching-definition-lost", stmts=hit[2], at_link=hit[1],
                            why="the def-use slice of this call contains a statement that was offered fewer reaching definitions than classical RD over the real CFG gives (scheduling defect recorded under C06)")
            return link
        link.update(finding=None, unresolved=True, why="callee not resolved at this call statement in the analysed context (no known shape)")
        return link
    return {"finding": None, "at": len(chain), "why": "every link has a frame (internal inconsistency)"}


# ------------------------------------------------------------------------------------------------
# loop-free twin (metamorphic matcher for the loop-scheduling defect)
# ------------------------------------------------------------------------------------------------

class _Unroll(ast.NodeTransformer):
    """for v in range(k) / for v in <list variable assigned a literal list in the same body> / while:
    replaced by straight-line (or if-guarded) copies of the body.  Only shapes whose run-time call
    behaviour is preserved for the generated programs are rewritten; anything else is left alone."""
    def __init__(self):
        self.changed = False

    def _body(self, body):
        lits = {}
        out = []
        for st in body:
            st = self.visit(st)
            sts = st if isinstance(st, list) else [st]
            for x in sts:
                if isinstance(x, ast.Assign) and len(x.targets) == 1 and isinstance(x.targets[0], ast.Name) and isinstance(x.value, ast.List):
                    lits[x.targets[0].id] = len(x.value.elts)
            for x in sts:
                if isinstance(x, ast.For) and not x.orelse and isinstance(x.target, ast.Name):
                    it = x.iter
                    n = None
                    mk = None
                    if isinstance(it, ast.Call) and isinstance(it.func, ast.Name) and it.func.id == "range" and len(it.args) == 1 \
                            and isinstance(it.args[0], ast.Constant) and isinstance(it.args[0].value, int) and 0 <= it.args[0].value <= 4:
                        n = it.args[0].value
                        mk = lambda j: ast.Constant(j)
                    elif isinstance(it, ast.Name) and it.id in lits and lits[it.id] <= 4:
                        n = lits[it.id]
                        mk = lambda j, nm=it.id: ast.Subscript(value=ast.Name(nm, ast.Load()), slice=ast.Constant(j), ctx=ast.Load())
                    if n is not None:
                        self.changed = True
                        import copy
                        for j in range(n):
                            out.append(ast.Assign(targets=[ast.Name(x.target.id, ast.Store())], value=mk(j), lineno=0))
                            out.extend(copy.deepcopy(x.body))
                        continue
                if isinstance(x, ast.While) and not x.orelse:
                    self.changed = True
                    import copy
                    for j in range(3):
                        out.append(ast.If(test=copy.deepcopy(x.test), body=copy.deepcopy(x.body), orelse=[]))
                    continue
                out.append(x)
        return out

    def generic_visit(self, node):
        for fld in ("body", "orelse"):
            if isinstance(getattr(node, fld, None), list) and not isinstance(node, (ast.Lambda,)):
                setattr(node, fld, self._body(getattr(node, fld)))
        return node


def loop_free_twin(prog):
    files = {}
    changed = False
    for rel, txt in prog["files"].items():
        try:
            t = ast.parse(txt)
            u = _Unroll()
            t = u.generic_visit(t)
            ast.fix_missing_locations(t)
            files[rel] = ast.unparse(t) + "\n"
            changed = changed or u.changed
        except Exception:
            files[rel] = txt
    if not changed:
        return None
    tw = dict(prog)
    tw["files"] = files
    return tw


# ------------------------------------------------------------------------------------------------
# one program end to end (worker side)
# ------------------------------------------------------------------------------------------------

_W = {}


def _worker_dirs():
    pid = os.getpid()
    if _W.get("pid") != pid:
        root = _W.get("root") or os.path.join(common.SCRATCH_ROOT, "lv-%d" % pid)
        d = os.path.join(root, "w%d" % pid)
        os.makedirs(d, exist_ok=True)
        _W["pid"] = pid
        _W["dir"] = d
        _W["settings"] = ensure_settings(d)
    return _W["dir"]


def process_program(prog, tag="p", with_twin=True):
    """generate-independent part: write, trace, analyse.  Returns JSON-able dict."""
    d = _worker_dirs()
    projname = "proj_" + tag
    projdir = os.path.join(d, projname)
    write_project(projdir, prog)
    t0 = time.time()
    dyn, errors = trace_program(d, projdir, prog)
    t1 = time.time()
    res = {"errors": errors, "t_trace": round(t1 - t0, 2)}
    if dyn is None or errors:
        res["skip"] = "program does not run cleanly under CPython"
        return res
    log = run_lian(projdir, os.path.join(d, "ws"), _W["settings"])
    res["t_lian"] = round(time.time() - t1, 2)
    res["log"] = log
    res["dyn"] = [[list(t), [[list(x) for x in c] for c in cs]] for t, cs in sorted(dyn.items())]
    res["projname"] = projname
    if with_twin and "crash" not in log and quick_has_miss(log, projname, dyn):
        tw = loop_free_twin(prog)
        if tw is not None:
            tdir = os.path.join(d, projname + "_twin")
            write_project(tdir, tw)
            tdyn, terr = trace_program(d, tdir, tw)
            if tdyn is not None and not terr:
                tlog = run_lian(tdir, os.path.join(d, "ws"), _W["settings"])
                res["twin"] = {"files": tw["files"], "log": tlog, "projname": projname + "_twin",
                               "dyn": [[list(t), [[list(x) for x in c] for c in cs]] for t, cs in sorted(tdyn.items())]}
    return res


def static_sets(log, projname):
    lines = {int(k): v for k, v in log.get("lines", {}).items()}
    edges, framed = set(), set()
    for e in log["entries"]:
        for p in e.get("paths", []):
            for a, b, c in p:
                edges.add((a, lines.get(b, -1), c))
        for ev in e["events"]:
            if ev[0] == "init" and ev[4]:
                fr = log["frames"][ev[1]]
                if fr["caller"] >= 0:
                    framed.add((fr["caller"], lines.get(fr["stmt"], -1), fr["method"]))
    return edges, framed


def quick_has_miss(log, projname, dyn):
    mk = method_keys(log, projname)
    inv = {}
    for m, k in mk.items():
        inv.setdefault(k, []).append(m)
    edges, framed = static_sets(log, projname)
    for (cf, ck, line, ef, ek) in dyn:
        a, b = inv.get((cf, ck), []), inv.get((ef, ek), [])
        if len(a) != 1 or len(b) != 1 or (a[0], line, b[0]) not in edges or (a[0], line, b[0]) not in framed:
            return True
    return False


def twin_resolves(res, cf, ck, ef, ek):
    """In the loop-free twin: the pair (caller, callee) is called at run time and every such dynamic call has
    a static edge and a frame."""
    tw = res.get("twin")
    if not tw or "crash" in tw["log"]:
        return False
    log = tw["log"]
    mk = method_keys(log, tw["projname"])
    inv = {}
    for m, k in mk.items():
        inv.setdefault(k, []).append(m)
    edges, framed = static_sets(log, tw["projname"])
    seen = False
    for t, _ in tw["dyn"]:
        tcf, tck, line, tef, tek = t
        if (tcf, tck, tef, tek) != (cf, ck, ef, ek):
            continue
        seen = True
        a, b = inv.get((tcf, tck), []), inv.get((tef, tek), [])
        if len(a) != 1 or len(b) != 1 or (a[0], line, b[0]) not in edges or (a[0], line, b[0]) not in framed:
            return False
    return seen


def _task(args):
    idx, prog = args
    try:
        r = process_program(prog, "t%d" % idx)
    except BaseException as e:
        r = {"harness_error": "%s: %s\n%s" % (type(e).__name__, e, traceback.format_exc()[-1500:])}
    r["idx"] = idx
    return r


def dyn_from(res):
    return {tuple(t): [[tuple(x) for x in c] for c in cs] for t, cs in res["dyn"]}


def evaluate(prog, res, reply):
    """-> (corr_diff or None, misses, stats)"""
    log = res["log"]
    diff = compare_model(log, reply) if reply is not None else {"what": "no model reply"}
    misses, stats = analyse_misses(prog, res["projname"], log, reply if diff is None else reply, dyn_from(res),
                                   (lambda a, b, c, d: twin_resolves(res, a, b, c, d)) if res.get("twin") else None,
                                   sched_agree=res.get("sched_agree"))
    return diff, misses, stats


def witness_difference(prog, res):
    """The negative theorems C07_budget_counterexample / C07_selfcall_cut_not_recorded are about concrete
    oracle tables (Spec/FramesWitness.lean).  Here the REAL run of the corpus program is renamed into the
    theorem's vocabulary (methods by name, statements by source line) and compared with the table lvdrv
    serves; together with the event-level correspondence of the same run this replays the witness."""
    w = prog["witness"]
    table = drv_ok(drv_batch([{"m": "frames", "op": "witness", "name": w["name"]}]))[0]
    log = res["log"]
    mk = method_keys(log, res["projname"])
    lines = {int(k): v for k, v in log["lines"].items()}
    def mid(m):
        return w["methods"].get(mk.get(m, (None, "?"))[1], -1)
    real = [[mid(fr["method"]), [[lines.get(st, -1), [mid(c) for c in cs]] for st, cs in fr["script"]]] for fr in log["frames"]]
    if real != table:
        for i in range(max(len(real), len(table))):
            a = real[i] if i < len(real) else None
            b = table[i] if i < len(table) else None
            if a != b:
                return {"frame": i, "real": a, "lean_table": b}
    return None


def sched_requests(log, limit=None):
    """one request per frame for the frozen scheduler model Sched0 (lvdrv model "sched")"""
    reqs, keys = [], []
    for n, fr in enumerate(log["frames"]):
        sc = log["sched"].get(fr["method"]) or log["sched"].get(str(fr["method"]))
        if not sc or "error" in sc or not fr["visits"] or len(sc["succ"]) > 400:
            continue
        reqs.append({"m": "sched", "op": "run", "succ": sc["succ"], "prio": sc["prio"], "stmts": sc["stmts"], "first": sc["first"],
                     "max": sc["max"], "oracle": [bool(v[3]) for v in fr["visits"]], "fuel": 6 * len(fr["visits"]) + 60})
        keys.append(n)
        if limit and len(reqs) >= limit:
            break
    return reqs, keys


def sched_differences(results, budget):
    """Runs Sched0 on the frames of all results (up to `budget` frames).  Returns (compared, diffs, per-result
    dict serial -> bool "real visit sequence equals Sched0")."""
    all_reqs, owner = [], []
    for i, r in enumerate(results):
        if "log" not in r or "crash" in r["log"]:
            continue
        reqs, keys = sched_requests(r["log"])
        for q, k in zip(reqs, keys):
            if len(all_reqs) >= budget:
                break
            all_reqs.append(q); owner.append((i, k))
    agree = {}
    diffs = []
    if all_reqs:
        outs = drv_batch(all_reqs)
        for (i, k), o in zip(owner, outs):
            real = [[v[0], bool(v[1])] for v in results[i]["log"]["frames"][k]["visits"]]
            ok = o.get("ok") == real
            agree.setdefault(i, {})[k] = ok
            if not ok and len(diffs) < 5:
                diffs.append({"result": i, "frame": k, "real": real[:40], "model": (o.get("ok") or o.get("err"))[:40] if not isinstance(o.get("ok"), type(None)) else o.get("err")})
    return len(all_reqs), diffs, agree


def sched_witness_difference(prog, res):
    """C07_unfixed_resume_skips_statement is about a concrete CFG + interruption list (Spec/SchedWitness.lean):
    compare it with the entry frame of the REAL run of the corpus program (statement ids renamed to 1..n)."""
    w = drv_ok(drv_batch([{"m": "sched", "op": "witness"}]))[0]
    log = res["log"]
    fr = log["frames"][0]
    sc = log["sched"].get(fr["method"]) or log["sched"].get(str(fr["method"]))
    ids = sorted(set([x for x, _ in sc["succ"]] + sc["stmts"]) - {0})
    ren = {x: i + 1 for i, x in enumerate(ids)}
    ren[0] = 0
    real = {"succ": [[ren[a], [ren[y] for y in b]] for a, b in sc["succ"]], "prio": [[ren[a], b] for a, b in sc["prio"]],
            "stmts": [ren[a] for a in sc["stmts"]], "first": [ren[a] for a in sc["first"]], "max": sc["max"]}
    oracle = [bool(v[3]) for v in fr["visits"]]
    if real != w["cfg"] or oracle != w["oracle"]:
        return {"real_cfg": real, "real_oracle": oracle, "lean_cfg": w["cfg"], "lean_oracle": w["oracle"]}
    return None


def model_replies(results):
    reqs, pos = [], []
    for i, r in enumerate(results):
        if "log" in r and "crash" not in r["log"] and r["log"]["entries"]:
            reqs.append(model_request(r["log"]))
            pos.append(i)
    replies = [None] * len(results)
    if reqs:
        outs = drv_batch(reqs)
        for i, o in zip(pos, outs):
            replies[i] = o.get("ok")
            if replies[i] is None:
                replies[i] = {"entries": [], "error": o.get("err")}
    return replies


# ------------------------------------------------------------------------------------------------
# shrinking (only on the violation path)
# ------------------------------------------------------------------------------------------------

def shrink_units(text):
    """candidate deletions: top-level statements and statements of function/method bodies, as line ranges"""
    try:
        tree = ast.parse(text)
    except Exception:
        return []
    units = []
    def body_units(body, owner):
        for n in body:
            units.append((n.lineno, n.end_lineno, owner is not None and len(body) == 1))
            if isinstance(n, (ast.FunctionDef, ast.ClassDef)):
                body_units(n.body, n)
            elif isinstance(n, (ast.If, ast.For, ast.While)):
                body_units(n.body, n)
                if n.orelse:
                    body_units(n.orelse, n)
    body_units(tree.body, None)
    return sorted(set(units), key=lambda u: (u[1] - u[0], -u[0]), reverse=True)


def delete_unit(text, unit):
    a, b, only = unit
    ls = text.split("\n")
    if only:
        indent = len(ls[a - 1]) - len(ls[a - 1].lstrip())
        repl = [" " * indent + "pass"]
    else:
        repl = []
    return "\n".join(ls[:a - 1] + repl + ls[b:])


def shrink_program(prog, still_fails, budget_s=120):
    """greedy structural shrinking: drop whole files, then statements / definitions (largest first); after a
    successful deletion the scan continues at the same position instead of restarting"""
    t0 = time.time()
    prog = json.loads(json.dumps(prog))
    changed = True
    while changed and time.time() - t0 < budget_s:
        changed = False
        for rel in sorted(prog["files"]):
            if rel != prog["main"] and len(prog["files"]) > 1:
                cand = json.loads(json.dumps(prog))
                del cand["files"][rel]
                cand["runs"] = [r for r in cand.get("runs", ["m.py"]) if r in cand["files"]]
                if still_fails(cand):
                    prog = cand; changed = True
                    continue
            k = 0
            while time.time() - t0 < budget_s:
                units = shrink_units(prog["files"][rel])
                if k >= len(units):
                    break
                cand = json.loads(json.dumps(prog))
                cand["files"][rel] = delete_unit(prog["files"][rel], units[k])
                if cand["files"][rel] != prog["files"][rel] and still_fails(cand):
                    prog = cand; changed = True
                else:
                    k += 1
    return prog


def full_check(prog, tag="s"):
    """single-process check of one program: returns dict(skip|diff, misses, unexplained)"""
    res = process_program(prog, tag)
    if "skip" in res or "log" not in res:
        return {"skip": res.get("skip", "no log"), "errors": res.get("errors")}
    if "crash" in res["log"]:
        return {"crash": res["log"]["crash"], "misses": [], "unexplained": [], "diff": None, "res": res}
    reply = model_replies([res])[0]
    _, sdiffs, sagree = sched_differences([res], 5000)
    res["sched_agree"] = sagree.get(0, {})
    diff, misses, stats = evaluate(prog, res, reply)
    if diff is None and sdiffs:
        diff = {"what": "statement visit sequence of a frame differs from the frozen scheduler model Sched0", **sdiffs[0]}
    return {"diff": diff, "misses": misses, "stats": stats, "unexplained": [m for m in misses if m["finding"] is None], "res": res}


# ------------------------------------------------------------------------------------------------
# run / replay
# ------------------------------------------------------------------------------------------------

def load_corpus():
    d = os.path.join(common.VERIF, "corpus", "C07")
    out = []
    if os.path.isdir(d):
        for f in sorted(os.listdir(d)):
            if f.endswith(".json"):
                j = json.load(open(os.path.join(d, f)))
                j["_file"] = f
                out.append(j)
    return out


def fingerprints():
    import hashlib, inspect
    common.use_repo()
    from lian.core import global_semantics as gs, global_stmt_states as gss
    import lian.common_structs as cs
    fns = {"analyze_frame_stack": gs.P3GlobalSemanticAnalysis.analyze_frame_stack,
           "init_compute_frame": gs.P3GlobalSemanticAnalysis.init_compute_frame,
           "run": gs.P3GlobalSemanticAnalysis.run,
           "compute_target_method_states": gss.GlobalStmtStates.compute_target_method_states,
           "count_cycles": cs.CallPath.count_cycles, "CallPath.__contains__": cs.CallPath.__contains__}
    return {k: hashlib.sha256(inspect.getsource(v).encode()).hexdigest()[:16] for k, v in fns.items()}


def run(ctx):
    common.use_repo()
    proofs_ok = ctx.proofs()
    scratch = os.path.join(common.SCRATCH_ROOT, "lv-%d" % os.getpid())
    os.makedirs(scratch, exist_ok=True)
    try:
        _run(ctx, proofs_ok, scratch)
    finally:
        shutil.rmtree(scratch, ignore_errors=True)


def _run(ctx, proofs_ok, scratch):
    tier = ctx.tier
    n_gen = 360 if tier == "quick" else 3000
    corpus = load_corpus()
    progs = [dict(files=c["files"], ndec=c.get("ndec", 0), main=c.get("main", "m.py"), runs=c.get("runs", ["m.py"]),
                  ep=c.get("ep", False), kinds=["corpus:" + c["_file"]], expect=c.get("expect"), witness=c.get("witness"),
                  sched_witness=c.get("sched_witness")) for c in corpus]
    seeds = [ctx.rng.getrandbits(48) for _ in range(n_gen)]
    for i, s in enumerate(seeds):
        size = 1.0 if i % 4 else 1.6
        p = gen_program(s, size)
        p["seed"] = s
        progs.append(p)
    nproc = max(1, min(os.cpu_count() or 4, int(os.environ.get("LV_WORKERS", "14"))))
    mp = multiprocessing.get_context("fork")
    _W["root"] = scratch
    with mp.Pool(nproc) as pool:
        results = pool.map(_task, list(enumerate(progs)), chunksize=max(1, len(progs) // (nproc * 6)))
    replies = model_replies(results)
    sched_n, sched_diffs, sched_agree = sched_differences(results, 6000 if tier == "quick" else 40000)
    for i, r in enumerate(results):
        if "log" in r:
            r["sched_agree"] = sched_agree.get(i, {})

    ctx.cov["rule"] = (f"corpus ({len(corpus)} programs: one witness per recorded finding plus positive call-kind probes) + {n_gen} generated "
                       "multi-file Python projects (direct, from-import, import-module, constructor, receiver, inherited (1-2 levels), self-method, "
                       "callback incl. lambda/bound method/nested def/2-level hof, returned function, list/dict/field-stored callables, recursion, "
                       "mutual recursion, branches over <=3 decisions, loops, second entry file, configured entry point); each executed by CPython "
                       "under sys.setprofile for every decision vector and analysed by lian in-process; non-trivial = distinct program whose "
                       "real run created >=3 frames and whose dynamic call log has >=3 triples")
    ctx.cov["exhaustive"] = False
    kinds = {}
    tot = {"dynamic_triples": 0, "edge_ok": 0, "frame_ok": 0, "unmapped": 0}
    known_counts, unexplained, corr_breaks, crashes, skipped = {}, [], [], [], 0
    frames_total = cts_total = interrupts = cutoffs = 0
    reason_hist = {}
    nontrivial = set()
    samples = []
    for prog, res, reply in zip(progs, results, replies):
        if "harness_error" in res:
            raise RuntimeError("worker failed: " + res["harness_error"])
        if "skip" in res:
            skipped += 1
            continue
        ctx.cov["evaluations"] += 1
        log = res["log"]
        if "crash" in log:
            crashes.append((prog, log["crash"]))
            continue
        for k in prog.get("kinds", []):
            kinds[k] = kinds.get(k, 0) + 1
        diff, misses, stats = evaluate(prog, res, reply)
        for k in tot:
            tot[k] += stats[k]
        frames_total += len(log["frames"])
        for fr in log["frames"]:
            cts_total += len(fr["script"])
        if reply:
            for me in reply["entries"]:
                for ev in me["events"]:
                    if ev[0] == "cts":
                        interrupts += bool(ev[5])
                        for rr in ev[6]:
                            reason_hist[str(rr)] = reason_hist.get(str(rr), 0) + 1
        if len(log["frames"]) >= 3 and stats["dynamic_triples"] >= 3:
            nontrivial.add(json.dumps(prog["files"], sort_keys=True))
        if diff is not None:
            corr_breaks.append((prog, diff))
        for m in misses:
            if m["finding"] is None:
                unexplained.append((prog, m))
            else:
                known_counts[m["finding"]] = known_counts.get(m["finding"], 0) + 1
        if prog.get("sched_witness"):
            sd = sched_witness_difference(prog, res)
            if sd is not None:
                corr_breaks.append((prog, {"what": "the CFG / interruption table of C07_unfixed_resume_skips_statement is no longer what the real run does", **sd}))
        if prog.get("witness"):
            wd = witness_difference(prog, res)
            if wd is not None:
                corr_breaks.append((prog, {"what": "the oracle table of a negative Lean theorem is no longer what the real run does", "witness": prog["witness"]["name"], **wd}))
        exp = prog.get("expect")
        if exp is not None:
            got = sorted(set(x for m in misses for x in (m.get("all_findings") or ([m["finding"]] if m["finding"] else []))))
            if exp.get("findings") is not None and sorted(exp["findings"]) != got:
                corr_breaks.append((prog, {"what": "corpus expectation", "file": prog["kinds"], "expected": exp["findings"], "got": got,
                                           "unexplained": [m for m in misses if m["finding"] is None][:2]}))
        if len(samples) < 2 and len(log["frames"]) >= 4:
            samples.append({"files": prog["files"], "frames": len(log["frames"]), "dynamic_triples": stats["dynamic_triples"],
                            "paths": log["entries"][-1].get("paths", [])[:6]})
    ctx.cov["distinct_nontrivial"] = len(nontrivial)
    ctx.cov["samples"] = samples
    ctx.cov["generated_kinds"] = kinds
    ctx.cov["oracle"] = tot
    ctx.cov["driver"] = {"frames_created": frames_total, "cts_invocations": cts_total, "interruptions": interrupts,
                         "first_loop_reason_histogram(0=descend,1=path-exists,2=second-cycle,3=already-analysed,4=budget)": reason_hist}
    for d in sched_diffs[:1]:
        corr_breaks.append((progs[d["result"]], {"what": "statement visit sequence of a frame differs from the frozen scheduler model Sched0", **d}))
    ctx.cov["correspondence"] = {"compared_runs": ctx.cov["evaluations"] - len(crashes), "differences": len(corr_breaks),
                                 "sched0_frames_compared": sched_n, "sched0_differences": len(sched_diffs)}
    ctx.cov["skipped_programs_not_running_under_cpython"] = skipped
    ctx.cov["lian_crashes"] = len(crashes)
    ctx.cov["fingerprints"] = fingerprints()
    ctx.cov["params"] = {"MAX_ANALYSIS_ROUND_FOR_CALL_SITE": results and next((r["log"]["max"] for r in results if "log" in r), None)}
    ctx.cov["known_finding_hits"] = known_counts
    ctx.assumptions += [
        "statement analysis (stmt_states.py) is an oracle of the driver model: the theorems hold for every oracle, the tie to the real resolution is the dynamic monitor only",
        "dynamic ground truth covers the executions of the generated decision vectors (all 2^k vectors, k<=3)",
    ]
    open_ids = set(ctx.finding_ids("open"))
    for fid, n in sorted(known_counts.items()):
        if fid in open_ids:
            line = next(f["line"] for f in ctx.findings if f["id"] == fid)
            ctx.known(fid, f"{line} [{n} dynamic calls in this run]")
            ctx.known_hits[fid] = n
        else:
            # matched a shape that is not an OPEN finding (e.g. fixed): treat as unexplained
            for prog, m in [(p, mm) for p, r_, rep in zip(progs, results, replies) if "log" in r_ and "crash" not in r_["log"]
                            for mm in evaluate(p, r_, rep)[1] if mm["finding"] == fid][:1]:
                unexplained.append((prog, m))

    if crashes:
        prog, why = crashes[0]
        ctx.violation({"what": "lian aborted on a generated project: no call graph at all", "files": prog["files"], "ndec": prog.get("ndec", 0),
                       "runs": prog.get("runs"), "ep": prog.get("ep"), "crash": why, "mode": "crash"})
    if unexplained:
        prog, m = unexplained[0]
        small = prog
        try:
            target_kind = m["kind"]
            def still(c):
                r = full_check(c, "shr")
                return "skip" not in r and any(x["kind"] == target_kind for x in r["unexplained"])
            small = shrink_program(prog, still, budget_s=75 if tier == "quick" else 400)
            r = full_check(small, "shr")
            m2 = (r.get("unexplained") or [m])[0]
        except Exception as e:
            m2 = m
        ctx.violation({"what": "a call that happens at run time has no call edge / its callee is never analysed under that call site, and no recorded finding explains it",
                       "files": small["files"], "ndec": small.get("ndec", 0), "runs": small.get("runs", ["m.py"]), "ep": small.get("ep", False),
                       "main": small.get("main", "m.py"), "miss": m2, "unexplained_in_run": len(unexplained), "mode": "miss"})
    elif corr_breaks or not proofs_ok:
        prog, diff = corr_breaks[0] if corr_breaks else (None, None)
        ctx.violation({"what": "proof obligation or driver correspondence broken; the dynamic monitor found no unexplained missing call on any program of this run",
                       "broken_theorems": ctx.audit["failures"],
                       "correspondence": {"model": "LianVerif.Frames.step/drive (lvdrv model 'frames')", "difference": diff,
                                          "files": prog["files"] if prog else None, "ndec": prog.get("ndec", 0) if prog else None},
                       "mode": "correspondence"}, no_input=True)


def replay(rp):
    common.use_repo()
    mode = rp.get("mode")
    files = rp.get("files") or (rp.get("correspondence") or {}).get("files")
    if not files:
        print(json.dumps({"note": "replay file carries no program (proof obligation only)"}))
        return 1
    prog = dict(files=files, ndec=rp.get("ndec") or (rp.get("correspondence") or {}).get("ndec") or 0, main=rp.get("main", "m.py"),
                runs=rp.get("runs") or ["m.py"], ep=rp.get("ep", False))
    scratch = os.path.join(common.SCRATCH_ROOT, "lv-%d" % os.getpid())
    os.makedirs(scratch, exist_ok=True)
    _W["root"] = scratch
    try:
        r = full_check(prog, "rp")
    finally:
        shutil.rmtree(scratch, ignore_errors=True)
    if "skip" in r:
        print(json.dumps({"skip": r}))
        return 2
    out = {"crash": r.get("crash"), "correspondence_difference": r.get("diff"), "unexplained": r.get("unexplained"),
           "known": sorted(set(m["finding"] for m in r.get("misses", []) if m["finding"]))}
    print(json.dumps(out, indent=1, default=str))
    if mode == "correspondence":
        return 1 if r.get("diff") else 0
    return 1 if (r.get("unexplained") or r.get("crash")) else 0
