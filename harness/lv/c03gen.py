"""Input generators for C03: random/exhaustive GIR trees (tie a), small structured programs rendered
in the seven languages whose grammar is present, and byte-level mutants (tie b)."""
import itertools, random

# --------------------------------------------------------------------------------------------------
# GIR trees (Python values: None | int | str | list | dict)
# --------------------------------------------------------------------------------------------------
OPS = ["assign_stmt", "call_stmt", "variable_decl", "method_decl", "if_stmt", "while_stmt", "class_decl",
       "import_stmt", "return_stmt", "export_stmt", "type_alias_decl", "x_decl", "field_write", "for_stmt"]
BAD_OPS = ["block_start", "block_end"]
KEYS = ["name", "target", "operand", "attrs", "body", "then_body", "else_body", "parameters", "fields",
        "methods", "data_type", "start_row", "positional_args", "init_body", "original_stmt", "k"]
RESERVED = ["operation", "stmt_id", "parent_stmt_id"]
STRS = ["x", "y", "%vv1", "", "a'b", 'c"d', "a'b\"c", "back\\slash", "nl\nx", "tab\t", "\x01\x7f", "é中", "1", "None",
        "variable_decl", "%unit_init"]


def gen_leaf(rng):
    r = rng.random()
    if r < 0.45:
        return rng.choice(STRS)
    if r < 0.7:
        return rng.choice([0, 1, 2, 7, 120, 121, 122, -1, 10 ** 12])
    return None


def gen_plain_list(rng, depth):
    """a list that is NOT gir format (no non-empty dict in front)"""
    n = rng.randint(0, 3)
    items = []
    for i in range(n):
        r = rng.random()
        if r < 0.5:
            items.append(rng.choice(STRS))
        elif r < 0.65:
            items.append(rng.choice([0, 5, -3]))
        elif r < 0.75:
            items.append(None)
        elif r < 0.85 and depth > 0:
            items.append(gen_plain_list(rng, depth - 1))
        elif r < 0.93:
            items.append({} if i == 0 or rng.random() < 0.5 else {rng.choice(STRS): rng.choice(STRS)})
        else:
            items.append({rng.choice(STRS): gen_leaf(rng)} if i > 0 else rng.choice(STRS))
    return items


def gen_stmt(rng, depth, malformed):
    """malformed: probability of each malformation"""
    r = rng.random()
    if r < malformed * 0.25:
        return rng.choice([None, 5, "stmt", [], ["x"], 0])          # not a dict
    if r < malformed * 0.35:
        return {}                                                    # IndexError
    op = rng.choice(BAD_OPS) if rng.random() < malformed * 0.1 else rng.choice(OPS)
    r = rng.random()
    if r < 0.06:
        content = rng.choice([None, "s", 3, [], ["a"]])             # content not a dict
        return {op: content}
    content = {}
    for _ in range(rng.randint(0, 4)):
        k = rng.choice(RESERVED) if rng.random() < malformed * 0.06 else rng.choice(KEYS)
        if k in content:
            continue
        r = rng.random()
        if k in RESERVED:
            v = rng.choice(["if_stmt", "method_decl", 5, 130, 0, None, -2, "7"])
        elif r < 0.35 and depth > 0:
            v = [gen_stmt(rng, depth - 1, malformed) for _ in range(rng.randint(1, 3))]
            if not (isinstance(v[0], dict) and v[0]) and rng.random() < 0.7:
                v[0] = gen_stmt(rng, depth - 1, 0.0)
        elif r < 0.5:
            v = gen_plain_list(rng, 1)
        elif r < 0.5 + malformed * 0.06:
            v = rng.choice([{}, {"a": 1}])                           # dict attribute: error_and_quit
        else:
            v = gen_leaf(rng)
        content[k] = v
    stmt = {op: content}
    if rng.random() < malformed * 0.05:
        stmt[rng.choice(OPS) + "2"] = {"ignored": 1}                 # second key is ignored
    return stmt


def gen_tree(rng):
    malformed = rng.choice([0.0, 0.0, 0.0, 0.3, 1.0])
    r = rng.random()
    if r < malformed * 0.04:
        return rng.choice([None, [], [None], [{}], "s", {"a": {}}, [[]], 0, [5, {"a": {}}]])
    depth = rng.randint(0, 4)
    stmts = [gen_stmt(rng, depth, malformed) for _ in range(rng.randint(1, 5))]
    if malformed < 1.0 and not (isinstance(stmts[0], dict) and stmts[0]):
        stmts[0] = gen_stmt(rng, depth, 0.0)
    return stmts


def small_stmt_alphabet():
    atoms = [
        {"variable_decl": {"name": "x"}},
        {"assign_stmt": {"target": "x", "operand": "1"}},
        {"call_stmt": None},
        {"method_decl": {"name": "f", "body": []}},
        {"import_stmt": {"name": "os"}},
        {"x_stmt": {"attrs": ["a'"], "e": []}},
        5,
        {},
        {"y_stmt": {"k": {}}},
    ]
    comp = []
    for a in atoms[:8]:
        comp.append({"if_stmt": {"condition": "c", "then_body": [a] if isinstance(a, dict) and a else [atoms[0], a],
                                 "else_body": []}})
    comp.append({"method_decl": {"name": "g", "parameters": [{"parameter_decl": {"name": "a"}}],
                                 "body": [atoms[0], atoms[1], {"while_stmt": {"condition": "a", "body": [atoms[2]]}}]}})
    comp.append({"class_decl": {"name": "A", "methods": [atoms[3]], "fields": [atoms[0]], "nested": []}})
    comp.append({"method_decl": {"body": ["notastmt"]}})
    return atoms + comp


def exhaustive_trees(maxlen):
    alpha = small_stmt_alphabet()
    for n in range(1, maxlen + 1):
        for combo in itertools.product(range(len(alpha)), repeat=n):
            yield [alpha[i] for i in combo]


# --------------------------------------------------------------------------------------------------
# Structured programs rendered in 7 languages
# --------------------------------------------------------------------------------------------------
LANG_EXT = {"c": ".c", "go": ".go", "java": ".java", "javascript": ".js", "php": ".php", "python": ".py",
            "typescript": ".ts"}


class G:
    """tiny AST: expr = ('int', n) | ('var', v) | ('bin', op, a, b) | ('call', f, [args]) | ('str', s)
    | ('idx', v, e) | ('fld', v, name);  stmt = ('assign', v, e) | ('if', c, [..], [..]) | ('while', c, [..])
    | ('for', v, n, [..]) | ('ret', e) | ('call', f, [args]) | ('break',) | ('continue',) | ('aset', v, e, e)
    | ('try', [..], [..]) | ('switch', e, [(n, [..])], [..]) | ('fset', v, name, e)"""

    def __init__(self, rng):
        self.rng = rng
        self.vars = ["a", "b", "x", "y", "z"]
        self.funcs = ["f0", "f1", "g"]

    def expr(self, d=2):
        r = self.rng.random()
        if d <= 0 or r < 0.3:
            return self.rng.choice([("int", self.rng.randint(0, 9)), ("var", self.rng.choice(self.vars))])
        if r < 0.6:
            return ("bin", self.rng.choice(["+", "-", "*", "<", "=="]), self.expr(d - 1), self.expr(d - 1))
        if r < 0.75:
            return ("call", self.rng.choice(self.funcs), [self.expr(d - 1) for _ in range(self.rng.randint(0, 2))])
        if r < 0.85:
            return ("str", self.rng.choice(["s", "hello world", "a.b", ""]))
        if r < 0.93:
            return ("idx", "arr", self.expr(d - 1))
        return ("fld", "obj", self.rng.choice(["p", "q"]))

    def block(self, d, in_loop):
        return [self.stmt(d, in_loop) for _ in range(self.rng.randint(1, 3))]

    def stmt(self, d, in_loop=False):
        r = self.rng.random()
        if d <= 0 or r < 0.3:
            return ("assign", self.rng.choice(self.vars), self.expr())
        if r < 0.45:
            return ("if", self.expr(1), self.block(d - 1, in_loop), self.block(d - 1, in_loop) if self.rng.random() < 0.5 else [])
        if r < 0.55:
            return ("while", self.expr(1), self.block(d - 1, True))
        if r < 0.65:
            return ("for", self.rng.choice(["i", "j"]), self.rng.randint(1, 5), self.block(d - 1, True))
        if r < 0.72:
            return ("ret", self.expr(1))
        if r < 0.8:
            return ("call", self.rng.choice(self.funcs), [self.expr(1) for _ in range(self.rng.randint(0, 2))])
        if r < 0.84 and in_loop:
            return self.rng.choice([("break",), ("continue",)])
        if r < 0.88:
            return ("aset", "arr", self.expr(1), self.expr(1))
        if r < 0.92:
            return ("try", self.block(d - 1, in_loop), self.block(d - 1, in_loop))
        if r < 0.96:
            return ("switch", self.expr(1), [(k, self.block(d - 1, False)) for k in range(self.rng.randint(1, 2))], self.block(d - 1, False))
        return ("fset", "obj", self.rng.choice(["p", "q"]), self.expr(1))

    def program(self):
        funcs = [(name, self.rng.sample(self.vars, self.rng.randint(0, 2)), self.block(self.rng.randint(1, 3), False))
                 for name in self.rng.sample(self.funcs, self.rng.randint(1, 3))]
        cls = None
        if self.rng.random() < 0.6:
            cls = ("K" + str(self.rng.randint(0, 9)), [("m" + str(i), ["a"], self.block(2, False)) for i in range(self.rng.randint(1, 2))])
        top = self.block(self.rng.randint(1, 3), False) if self.rng.random() < 0.8 else []
        top = [s for s in top if s[0] != "ret"]
        return funcs, cls, top


def _ind(lines, n=1):
    return ["    " * n + l for l in lines]


def render_expr(e, L):
    k = e[0]
    v = (lambda s: "$" + s) if L == "php" else (lambda s: s)
    if k == "int":
        return str(e[1])
    if k == "var":
        return v(e[1])
    if k == "bin":
        return "(" + render_expr(e[2], L) + " " + e[1] + " " + render_expr(e[3], L) + ")"
    if k == "call":
        return e[1] + "(" + ", ".join(render_expr(a, L) for a in e[2]) + ")"
    if k == "str":
        return '"' + e[1] + '"'
    if k == "idx":
        return v(e[1]) + "[" + render_expr(e[2], L) + "]"
    if k == "fld":
        if L == "php":
            return v(e[1]) + "->" + e[2]
        if L == "c":
            return e[1] + "." + e[2]
        return e[1] + "." + e[2]
    raise ValueError(k)


def render_stmts(stmts, L):
    out = []
    for s in stmts:
        out += render_stmt(s, L)
    return out


def render_stmt(s, L):
    k = s[0]
    v = (lambda x: "$" + x) if L == "php" else (lambda x: x)
    semi = "" if L in ("python", "go") else ";"
    if L == "python":
        if k == "assign":
            return [f"{s[1]} = {render_expr(s[2], L)}"]
        if k == "if":
            r = [f"if {render_expr(s[1], L)}:"] + _ind(render_stmts(s[2], L))
            if s[3]:
                r += ["else:"] + _ind(render_stmts(s[3], L))
            return r
        if k == "while":
            return [f"while {render_expr(s[1], L)}:"] + _ind(render_stmts(s[2], L))
        if k == "for":
            return [f"for {s[1]} in range({s[2]}):"] + _ind(render_stmts(s[3], L))
        if k == "ret":
            return [f"return {render_expr(s[1], L)}"]
        if k == "call":
            return [render_expr(s, L)]
        if k in ("break", "continue"):
            return [k]
        if k == "aset":
            return [f"{s[1]}[{render_expr(s[2], L)}] = {render_expr(s[3], L)}"]
        if k == "try":
            return ["try:"] + _ind(render_stmts(s[1], L)) + ["except Exception as ex:"] + _ind(render_stmts(s[2], L))
        if k == "switch":
            r = [f"match {render_expr(s[1], L)}:"]
            for n, b in s[2]:
                r += _ind([f"case {n}:"] + _ind(render_stmts(b, L)))
            r += _ind(["case _:"] + _ind(render_stmts(s[3], L)))
            return r
        if k == "fset":
            return [f"{s[1]}.{s[2]} = {render_expr(s[3], L)}"]
    # brace languages
    decl = {"c": "", "java": "", "go": "", "javascript": "", "typescript": "", "php": ""}[L]
    if k == "assign":
        if L == "go":
            return [f"{s[1]} = {render_expr(s[2], L)}"]
        return [f"{v(s[1])} = {render_expr(s[2], L)}{semi}"]
    if k == "if":
        c = render_expr(s[1], L)
        head = f"if {c} {{" if L == "go" else f"if ({c}) {{"
        r = [head] + _ind(render_stmts(s[2], L))
        if s[3]:
            r += ["} else {"] + _ind(render_stmts(s[3], L))
        return r + ["}"]
    if k == "while":
        c = render_expr(s[1], L)
        head = f"for {c} {{" if L == "go" else f"while ({c}) {{"
        return [head] + _ind(render_stmts(s[2], L)) + ["}"]
    if k == "for":
        i = v(s[1])
        if L == "go":
            head = f"for {i} := 0; {i} < {s[2]}; {i}++ {{"
        elif L in ("c", "java"):
            head = f"for (int {i} = 0; {i} < {s[2]}; {i}++) {{"
        elif L in ("javascript", "typescript"):
            head = f"for (let {i} = 0; {i} < {s[2]}; {i}++) {{"
        else:
            head = f"for ({i} = 0; {i} < {s[2]}; {i}++) {{"
        return [head] + _ind(render_stmts(s[3], L)) + ["}"]
    if k == "ret":
        return [f"return {render_expr(s[1], L)}{semi}"]
    if k == "call":
        return [render_expr(s, L) + semi]
    if k in ("break", "continue"):
        return [k + semi]
    if k == "aset":
        return [f"{v(s[1])}[{render_expr(s[2], L)}] = {render_expr(s[3], L)}{semi}"]
    if k == "try":
        if L in ("c", "go"):
            return ["{"] + _ind(render_stmts(s[1], L)) + ["}"]
        catch = {"java": "catch (Exception ex) {", "javascript": "catch (ex) {", "typescript": "catch (ex) {",
                 "php": "catch (Exception $ex) {"}[L]
        return ["try {"] + _ind(render_stmts(s[1], L)) + ["} " + catch] + _ind(render_stmts(s[2], L)) + ["}"]
    if k == "switch":
        c = render_expr(s[1], L)
        r = [f"switch {c} {{" if L == "go" else f"switch ({c}) {{"]
        for n, b in s[2]:
            r += _ind([f"case {n}:"] + _ind(render_stmts(b, L) + ([] if L == "go" else ["break" + semi])))
        r += _ind(["default:"] + _ind(render_stmts(s[3], L)))
        return r + ["}"]
    if k == "fset":
        acc = "->" if L == "php" else "."
        return [f"{v(s[1])}{acc}{s[2]} = {render_expr(s[3], L)}{semi}"]
    raise ValueError(k)


def render_program(prog, L):
    funcs, cls, top = prog
    out = []
    if L == "python":
        out.append("import os")
        for name, params, body in funcs:
            out += [f"def {name}({', '.join(params)}):"] + _ind(render_stmts(body, L))
        if cls:
            out += [f"class {cls[0]}:"] + _ind(["w = 1"])
            for name, params, body in cls[1]:
                out += _ind([f"def {name}(self, {', '.join(params)}):"] + _ind(render_stmts(body, L)))
        out += render_stmts(top, L)
    elif L in ("javascript", "typescript"):
        ty = (lambda p: p + ": number") if L == "typescript" else (lambda p: p)
        out.append("var arr = [1, 2, 3]; var obj = {p: 1, q: 2};")
        for name, params, body in funcs:
            out += [f"function {name}({', '.join(ty(p) for p in params)}) {{"] + _ind(render_stmts(body, L)) + ["}"]
        if cls:
            out += [f"class {cls[0]} {{"]
            for name, params, body in cls[1]:
                out += _ind([f"{name}({', '.join(ty(p) for p in params)}) {{"] + _ind(render_stmts(body, L)) + ["}"])
            out += ["}"]
        out += render_stmts(top, L)
    elif L == "php":
        out.append("<?php")
        for name, params, body in funcs:
            out += [f"function {name}({', '.join('$' + p for p in params)}) {{"] + _ind(render_stmts(body, L)) + ["}"]
        if cls:
            out += [f"class {cls[0]} {{"] + _ind(["public $w = 1;"])
            for name, params, body in cls[1]:
                out += _ind([f"function {name}({', '.join('$' + p for p in params)}) {{"] + _ind(render_stmts(body, L)) + ["}"])
            out += ["}"]
        out += render_stmts(top, L)
    elif L == "java":
        out += ["package p;", "import java.util.List;", "class Main {"]
        inner = ["static int[] arr = new int[10];", "static Main obj;", "int p; int q; static int a, b, x, y, z;"]
        for name, params, body in funcs:
            inner += [f"static int {name}({', '.join('int ' + p for p in params)}) {{"] + _ind(render_stmts(body, L)) + ["}"]
        if cls:
            inner += [f"static class {cls[0]} {{"]
            for name, params, body in cls[1]:
                inner += _ind([f"int {name}({', '.join('int ' + p for p in params)}) {{"] + _ind(render_stmts(body, L)) + ["}"])
            inner += ["}"]
        inner += ["public static void main(String[] args) {"] + _ind(render_stmts(top, L)) + ["}"]
        out += _ind(inner) + ["}"]
    elif L == "c":
        out += ["int arr[10];", "struct S { int p; int q; } obj;", "int a, b, x, y, z;"]
        for name, params, body in funcs:
            out += [f"int {name}({', '.join('int ' + p for p in params)}) {{"] + _ind(render_stmts(body, L)) + ["}"]
        if cls:
            out += [f"struct {cls[0]} {{ int w; }};"]
            for name, params, body in cls[1]:
                out += [f"int {cls[0]}_{name}({', '.join('int ' + p for p in params)}) {{"] + _ind(render_stmts(body, L)) + ["}"]
        out += ["int main() {"] + _ind(render_stmts(top, L) + ["return 0;"]) + ["}"]
    elif L == "go":
        out += ["package main", "", 'import "fmt"', "var arr [10]int", "type S struct { p int; q int }", "var obj S",
                "var a, b, x, y, z int"]
        for name, params, body in funcs:
            out += [f"func {name}({', '.join(p + ' int' for p in params)}) int {{"] + _ind(render_stmts(body, L)) + ["}"]
        if cls:
            out += [f"type {cls[0]} struct {{ w int }}"]
            for name, params, body in cls[1]:
                out += [f"func (k {cls[0]}) {name}({', '.join(p + ' int' for p in params)}) int {{"] + _ind(render_stmts(body, L)) + ["}"]
        out += ["func main() {"] + _ind(render_stmts(top, L)) + ["}"]
    return "\n".join(out) + "\n"


def gen_program_source(rng, L):
    return render_program(G(rng).program(), L)


# --------------------------------------------------------------------------------------------------
# Byte-level mutants
# --------------------------------------------------------------------------------------------------
TOKENS = [b"(", b")", b"{", b"}", b"[", b"]", b";", b":", b",", b".", b"'", b'"', b"\n", b" ", b"\t", b"=", b"<", b">",
          b"+", b"-", b"*", b"/", b"#", b"@", b"$", b"\\", b"if", b"else", b"class ", b"def ", b"function ", b"return ",
          b"\xff", b"\xc3", b"\x00", b"0", b"x", b"=>", b"::", b"->", b"/*", b"*/", b"//", b"<?php", b"?>", b"import ",
          b"for ", b"while ", b"try", b"catch", b"namespace ", b"var ", b"new ", b"lambda ", b"async ", b"await ", b"`", b"${"]


def mutate(rng, data: bytes, max_edits=3):
    data = bytearray(data)
    kinds = []
    for _ in range(rng.randint(1, max_edits)):
        k = rng.choice(["delete", "insert", "transpose", "truncate", "dup"]) if len(data) > 1 else "insert"
        kinds.append(k)
        if k == "delete":
            i = rng.randrange(len(data))
            n = rng.choice([1, 1, 1, 2, 5, 20])
            del data[i:i + n]
        elif k == "insert":
            i = rng.randint(0, len(data))
            if rng.random() < 0.7 or len(data) < 4:
                tok = rng.choice(TOKENS)
            else:
                j = rng.randrange(len(data)); tok = bytes(data[j:j + rng.randint(1, 12)])
            data[i:i] = tok
        elif k == "transpose":
            i = rng.randrange(len(data) - 1)
            n = rng.choice([1, 1, 3, 8])
            a, b = bytes(data[i:i + n]), bytes(data[i + n:i + 2 * n])
            data[i:i + 2 * n] = b + a
        elif k == "truncate":
            data = data[:rng.randint(0, len(data))]
        elif k == "dup":
            i = rng.randrange(len(data)); n = rng.randint(1, 40)
            data[i:i] = data[i:i + n]
    return bytes(data), kinds
