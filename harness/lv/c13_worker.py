"""C13 worker: one lian run, in this process, with counters wrapped around the loops whose
termination C13 is about.  Nothing under $LIAN_REPO is modified: all wrappers are installed from here.

usage: c13_worker.py <out.json> <cpu_seconds> <lian argv ...>      (argv as for src/lian/main.py)

The time limit is CPU time of this process (RLIMIT_CPU), not wall time, so that a loaded machine
cannot turn a finite run into a "timeout".  When the soft limit is reached the kernel sends SIGXCPU:
faulthandler writes the Python stack of the still-running analysis to <out.json>.stack; two CPU
seconds later the hard limit kills the process.  Writes <out.json> whenever lian returns, raises or
calls sys.exit.
"""
import builtins, faulthandler, hashlib, inspect, json, os, resource, signal, sys, time, traceback

T_START = time.time()
REPO = os.environ.get("LIAN_REPO", "/repo")
SRC = os.path.join(REPO, "src")
sys.path.insert(0, SRC)
sys.path.insert(1, os.path.join(SRC, "lian"))
if not hasattr(builtins, "profile"):
    builtins.profile = lambda f: f

OUT = {"status": "started", "frames": [], "p3": [], "taint": [], "closure": [], "scopes": [],
       "phase_s": {}, "consts": {}, "fingerprints": {}, "probe": {}, "truncated": []}
MAX_FRAME_DETAIL = int(os.environ.get("C13_MAX_FRAME_DETAIL", "400"))
MAX_EVENTS = int(os.environ.get("C13_MAX_EVENTS", "400000"))
N_EVENTS = [0]


OUT_PATH = [None]


def hard_stop(what, **info):
    """a hard monitor bound was exceeded while lian is still running (a loop that the proved bounds say must be
    over by now): record it as the outcome of the run and leave at once, instead of waiting for the CPU limit.
    os._exit, not an exception: lian has bare `except:` clauses on the way up."""
    OUT["status"] = "hard_stop"
    OUT["hard_stop"] = dict(info, what=what)
    OUT["cpu_s"] = round(time.process_time(), 3)
    for fr in OUT["frames"]:
        for k in ("_wl", "_it"):
            fr.pop(k, None)
        fr.pop("events", None); fr["detail"] = False
    for t in OUT["taint"]:
        for k in ("_index", "_prop", "_slot", "_slot_ids", "acts_t", "acts_f"):
            t.pop(k, None)
        t["detail"] = False
    for k in ("closure", "scopes"):
        for r in OUT[k]:
            for kk in [x for x in r if x.startswith("_")] + ["wls"]:
                r.pop(kk, None)
    for e in OUT["p3"]:
        e.pop("_inv", None); e.pop("_initfail", None)
    for e in OUT.get("p2_roots", []):
        e.pop("_inv", None); e.pop("_initfail", None)
    for d in OUT.get("dfs", []):
        d.pop("_index", None)
    try:
        dump(OUT_PATH[0])
    finally:
        sys.stdout.flush()
        os._exit(4)


def dump(path):
    OUT["t_total"] = round(time.time() - T_START, 3)
    tmp = path + ".tmp"
    with open(tmp, "w") as f:
        json.dump(OUT, f, default=str)
    os.replace(tmp, path)


def main():
    out_path, cpu_limit = sys.argv[1], int(float(sys.argv[2]))
    OUT_PATH[0] = out_path
    lian_argv = sys.argv[3:]
    stack_file = open(out_path + ".stack", "w")
    faulthandler.register(signal.SIGXCPU, file=stack_file, all_threads=False, chain=False)
    resource.setrlimit(resource.RLIMIT_CPU, (cpu_limit, cpu_limit + 2))

    import warnings
    warnings.filterwarnings("ignore")
    import pandas as pd
    try:
        pd.options.mode.copy_on_write = False
    except Exception:
        pass
    from lian.config import config
    from lian.util import util
    import lian.common_structs as cs
    from lian.core import prelim_semantics as ps, global_semantics as gs, global_stmt_states as gss
    from lian.core import stmt_states as ss
    from lian.taint import taint_analysis as ta, taint_structs as ts
    from lian.basics import basic_analysis as ba, scope_hierarchy as sh
    from lian.lang import lang_analysis as la
    from lian.config.constants import SFG_NODE_KIND, SFG_EDGE_KIND, LIAN_SYMBOL_KIND
    import lian.main as lmain
    import lian as _lian_pkg
    OUT["lian_file"] = os.path.realpath(_lian_pkg.__file__)
    OUT["t_import"] = round(time.time() - T_START, 3)

    # ---- constants and source fingerprints of the anchored loops
    OUT["consts"] = {
        "R_prelim": config.MAX_ANALYSIS_ROUND_FOR_PRELIM_ANALYSIS,
        "R_global": config.MAX_ANALYSIS_ROUND_FOR_GLOBAL_ANALYSIS,
        "B": config.MAX_ANALYSIS_ROUND_FOR_CALL_SITE,
        "FIRST_ROUND": config.FIRST_ROUND, "SECOND_ROUND": config.SECOND_ROUND,
    }
    anchored = {
        "analyze_stmts": ps.P2PrelimSemanticAnalysis.analyze_stmts,
        "analyze_method": ps.P2PrelimSemanticAnalysis.analyze_method,
        "SimpleWorkList": cs.SimpleWorkList,
        "analyze_frame_stack": gs.P3GlobalSemanticAnalysis.analyze_frame_stack,
        "p3_init_compute_frame": gs.P3GlobalSemanticAnalysis.init_compute_frame,
        "p3_compute_target_method_states": gss.GlobalStmtStates.compute_target_method_states,
        "p2_compute_target_method_states": ss.StmtStates.compute_target_method_states,
        "CallPath": cs.CallPath, "CallSite": cs.CallSite, "PathManager": cs.PathManager,
        "propagate_taint": ta.PathFinder.propagate_taint,
        "_propagate_from_symbol": ta.PathFinder._propagate_from_symbol,
        "_propagate_from_state": ta.PathFinder._propagate_from_state,
        "_propagate_from_stmt": ta.PathFinder._propagate_from_stmt,
        "_enqueue": ta.PathFinder._enqueue,
        "_init_source_contamination": ta.PathFinder._init_source_contamination,
        "_get_node_tag": ta.PathFinder._get_node_tag,
        "find_flows": ta.TaintAnalysis.find_flows,
        "search_impacted_parent_nodes": ba.P1BasicSemanticAnalysis.search_impacted_parent_nodes,
        "summarize_symbol_decls": sh.UnitScopeHierarchyAnalysis.summarize_symbol_decls,
        "strict_eval": util.strict_eval,
        "reconstruct_define_use_path": ta.PathFinder.reconstruct_define_use_path,
        "is_folding_too_large": getattr(ss.StmtStates, "is_folding_too_large", None),
        "compute_two_states": ss.StmtStates.compute_two_states,
        "p2_init_compute_frame": ps.P2PrelimSemanticAnalysis.init_compute_frame,
        "p2_run": ps.P2PrelimSemanticAnalysis.run,
    }
    for k, fn in anchored.items():
        try:
            OUT["fingerprints"][k] = hashlib.sha256(inspect.getsource(fn).encode()).hexdigest()[:16]
        except Exception as e:
            OUT["fingerprints"][k] = "unavailable:" + type(e).__name__
    # the "callee already on path" test of compute_target_method_states compares an int with CallSites
    try:
        OUT["probe"]["callee_id_in_callpath"] = bool(5 in cs.CallPath((cs.CallSite(1, 2, 5),)))
        OUT["probe"]["count_cycles_selfself"] = cs.CallPath((cs.CallSite(1, 2, 1), cs.CallSite(1, 2, 1), cs.CallSite(1, 2, 1))).count_cycles()
    except Exception as e:
        OUT["probe"]["error"] = repr(e)

    # worklist discipline probe on the live SimpleWorkList (before any wrapper is installed)
    try:
        import networkx as nx
        pg = nx.DiGraph()
        pg.add_edges_from([(1, 2), (2, 3), (3, 4), (4, 5), (5, 6), (6, 7), (7, 8), (8, 9)])
        pwl = cs.SimpleWorkList(graph=pg)
        script = [["push", 5], ["push", 3], ["push", 8], ["push", 1], ["push", 3], ["pop"], ["push", 2], ["push", 9],
                  ["pop"], ["push", 4], ["push", 1], ["pop"], ["pop"], ["push", 7], ["push", 6], ["pop"], ["pop"],
                  ["pop"], ["pop"], ["pop"], ["pop"]]
        states = []
        for op in script:
            if op[0] == "push":
                pwl.add(op[1])
            else:
                pwl.pop()
            states.append([[int(p), int(i)] for p, i in pwl.work_list])
        OUT["probe"]["wl"] = {"prio": [[int(k), int(v)] for k, v in pwl.priority_dict.items()], "ops": script, "states": states}
    except Exception as e:
        OUT["probe"]["wl_error"] = repr(e)

    MAX_DRIVER_EVENTS = int(os.environ.get("C13_MAX_DRIVER_EVENTS", "200000"))

    def ent_event(ent, ev):
        """record one driver event of the current entry point (capped: a spinning driver must not eat the memory)"""
        if len(ent["events"]) < MAX_DRIVER_EVENTS:
            ent["events"].append(ev)
        else:
            ent["truncated"] = True

    CUR = {"frame": None, "entry": None, "clo": None, "scope": None, "taint": None, "p2root": None}
    KEEP = []          # keep frames alive so that id() stays unique
    FRAME_REC = {}     # id(frame) -> record

    # ------------------------------------------------------------------ statement loop
    orig_peek, orig_pop, orig_wl_init = cs.SimpleWorkList.peek, cs.SimpleWorkList.pop, cs.SimpleWorkList.__init__

    def wl_init(self, *a, **k):
        orig_wl_init(self, *a, **k)
        sc = CUR["scope"]
        if sc is not None:
            sc["wls"].append(id(self)); sc["pops"].append([]); KEEP.append(self)

    def peek(self):
        r = orig_peek(self)
        fr = CUR["frame"]
        if fr is not None and self is fr["_wl"]:
            fr["_it"] = [int(r) if r is not None else None, "skip"]
            fr["n_iter"] += 1
            if fr["detail"] and N_EVENTS[0] < MAX_EVENTS:
                fr["events"].append(fr["_it"]); N_EVENTS[0] += 1
            elif fr["detail"]:
                fr["detail"] = False; OUT["truncated"].append("events")
        return r

    def pop(self):
        r = orig_pop(self)
        fr = CUR["frame"]
        if fr is not None and self is fr["_wl"]:
            fr["n_pop"] += 1
        clo = CUR["clo"]
        if clo is not None and self is clo.get("_wl"):
            clo["pops"].append(int(r) if r is not None else None)
        sc = CUR["scope"]
        if sc is not None and id(self) in sc["wls"]:
            sc["pops"][sc["wls"].index(id(self))].append(int(r) if r is not None else None)
        return r

    cs.SimpleWorkList.peek, cs.SimpleWorkList.pop, cs.SimpleWorkList.__init__ = peek, pop, wl_init

    orig_css = ps.P2PrelimSemanticAnalysis.compute_stmt_states
    OUT["stmt_cpu"] = {"n": 0, "sum": 0.0, "max": 0.0, "argmax": None}

    def compute_stmt_states(self, stmt_id, stmt, frame):
        fr = CUR["frame"]
        if fr is not None and fr.get("_it") is not None:
            fr["_it"][1] = "visit"
            fr["n_visit"] += 1
        t_stmt = time.process_time()
        res = orig_css(self, stmt_id, stmt, frame)
        t_stmt = time.process_time() - t_stmt
        SLOW = OUT["stmt_cpu"]
        SLOW["n"] += 1; SLOW["sum"] += t_stmt
        if t_stmt > SLOW["max"]:
            SLOW["max"] = round(t_stmt, 4)
            SLOW["argmax"] = {"stmt_id": int(stmt_id), "operation": str(getattr(stmt, "operation", "")),
                              "operator": str(getattr(stmt, "operator", "")), "method": int(frame.method_id),
                              "phase": int(self.analysis_phase_id), "line": int(getattr(stmt, "start_row", -1)) + 1}
        if fr is not None and res is not None and getattr(res, "interruption_flag", False):
            fr["_it"][1] = "intr"
            fr["n_visit"] -= 1
            fr["n_intr"] += 1
            fr["intr_stmts"].append(int(stmt_id))
        return res

    ps.P2PrelimSemanticAnalysis.compute_stmt_states = compute_stmt_states

    orig_as = ps.P2PrelimSemanticAnalysis.analyze_stmts

    def snapshot_frame(self, frame):
        wl = frame.stmt_worklist
        rec = {"phase": int(self.analysis_phase_id), "method": int(frame.method_id), "R": int(self.max_analysis_round),
               "entry_idx": (len(OUT["p3"]) - 1) if CUR["entry"] is not None else None,
               "n_iter": 0, "n_pop": 0, "n_visit": 0, "n_intr": 0, "intr_stmts": [], "events": [],
               "invocations": 0, "detail": len(FRAME_REC) < MAX_FRAME_DETAIL, "_wl": wl, "_it": None}
        V = [int(k) for k in frame.stmt_counters.keys()]
        rec["nV"] = len(V)
        nodes = list(frame.cfg.nodes) if frame.cfg is not None else []
        allnodes = list(dict.fromkeys([int(x) for x in nodes] + V))
        succ = [[n, [int(s) for s in util.graph_successors(frame.cfg, n)]] for n in allnodes]
        rec["nE_V"] = sum(len(s) for n, s in succ if n in frame.stmt_counters)
        rec["dmax"] = max([len(s) for n, s in succ] + [0])
        rec["w0"] = len(wl.work_list)
        rec["cnt0_sum"] = int(sum(frame.stmt_counters.values()))
        rec["cnt0_uniform"] = (sorted(set(frame.stmt_counters.values())) + [0])[0] if len(set(frame.stmt_counters.values())) <= 1 else None
        rec["loop_rounds"] = [[int(k), int(v)] for k, v in frame.loop_total_rounds.items()]
        if rec["detail"]:
            rec["V"] = V
            rec["cnt0"] = [[int(k), int(v)] for k, v in frame.stmt_counters.items() if v]
            rec["succ"] = succ
            rec["prio"] = [[int(k), int(v)] for k, v in wl.priority_dict.items()]
            rec["heap_mode"] = bool(wl.priority_dict)
            rec["init"] = [[int(x[0]), int(x[1])] if isinstance(x, tuple) else int(x) for x in wl.work_list]
        return rec

    def analyze_stmts(self, frame):
        key = id(frame)
        rec = FRAME_REC.get(key)
        if rec is None:
            KEEP.append(frame)
            rec = snapshot_frame(self, frame)
            FRAME_REC[key] = rec
            OUT["frames"].append(rec)
        rec["invocations"] += 1
        prev = CUR["frame"]
        CUR["frame"] = rec
        ent = CUR["entry"]
        if ent is not None:
            ent["_inv"] = []
        root = CUR.get("p2root")
        if root is not None:
            root["_inv"] = []
        try:
            res = orig_as(self, frame)
        finally:
            CUR["frame"] = prev
            rec["_it"] = None
        if ent is not None:
            ent["invocations"].append(ent["_inv"])
            ent["_inv"] = None
        if root is not None:
            if root["detail"]:
                root["invocations"].append(root["_inv"])
            root["_inv"] = None
        return res

    ps.P2PrelimSemanticAnalysis.analyze_stmts = analyze_stmts

    # ------------------------------------------------------------------ P2 driver (counts only)
    orig_am = ps.P2PrelimSemanticAnalysis.analyze_method
    P2 = {"analyze_method_calls": 0, "frames_pushed": 0, "max_stack": 0, "on": False}
    OUT["p2"] = P2

    OUT["p2_roots"] = []
    P2_DETAIL_MAX = int(os.environ.get("C13_MAX_P2_DETAIL", "400"))

    def analyze_method(self, method_id):
        P2["analyze_method_calls"] += 1
        P2["on"] = True
        try:
            n_methods = len(self.loader.get_all_method_ids())
        except Exception:
            n_methods = 10 ** 6
        root = {"root": int(method_id), "events": [], "invocations": [], "frames": 1, "interruptions": 0,
                "n_methods": n_methods, "analyzed_before": sorted(int(x) for x in self.analyzed_method_list),
                "_inv": None, "_initfail": None, "detail": len(OUT["p2_roots"]) < P2_DETAIL_MAX}
        if not root["detail"]:
            root["analyzed_before"] = None
        OUT["p2_roots"].append(root)
        CUR["p2root"] = root
        try:
            return orig_am(self, method_id)
        finally:
            P2["on"] = False
            CUR["p2root"] = None
            root.pop("_inv", None); root.pop("_initfail", None)

    def p2_event(root, ev):
        if root["detail"] and len(root["events"]) < MAX_DRIVER_EVENTS:
            root["events"].append(ev)

    orig_p2_init = ps.P2PrelimSemanticAnalysis.init_compute_frame

    def p2_init(self, frame, frame_stack):
        r = orig_p2_init(self, frame, frame_stack)
        root = CUR.get("p2root")
        if root is not None:
            if r is None:
                root["_initfail"] = frame
            else:
                p2_event(root, ["init", int(frame.method_id)])
        return r

    ps.P2PrelimSemanticAnalysis.init_compute_frame = p2_init

    orig_p2_ctms = ss.StmtStates.compute_target_method_states

    def p2_ctms(self, stmt_id, stmt, status, in_states, callee_method_ids, *a, **k):
        root = CUR.get("p2root")
        raw = [int(x) for x in callee_method_ids]
        res = orig_p2_ctms(self, stmt_id, stmt, status, in_states, callee_method_ids, *a, **k)
        if root is not None:
            if root.get("_inv") is not None and root["detail"]:
                root["_inv"].append([int(stmt_id), raw])
            if res is not None and getattr(res, "interruption_flag", False):
                root["interruptions"] += 1
                p2_event(root, ["intr", int(self.frame.method_id), int(stmt_id),
                                [int(x) for x in res.interruption_data.callee_ids]])
                # hand bound, now a theorem (C13_prelim_bound): every interruption of one analyze_method run puts
                # a method on the stack that was neither analysed nor on it: at most |methods| interruptions
                if root["interruptions"] > root["n_methods"] + 1:
                    hard_stop("p2_interruptions", root=root["root"], interruptions=root["interruptions"],
                              n_methods=root["n_methods"], stmt_id=int(stmt_id), method=int(self.frame.method_id))
        return res

    ss.StmtStates.compute_target_method_states = p2_ctms

    ps.P2PrelimSemanticAnalysis.analyze_method = analyze_method

    # ------------------------------------------------------------------ P3 driver
    orig_stack_add, orig_stack_pop = cs.ComputeFrameStack.add, cs.ComputeFrameStack.pop

    def stack_add(self, element):
        ent = CUR["entry"]
        if ent is not None and not getattr(element, "is_meta_frame", False):
            site = (int(element.caller_id), int(element.call_stmt_id), int(element.method_id))
            ent_event(ent, ["push", list(site)])
            ent["frames"] += 1
            if site[0] >= 0:
                c = ent["_per_site"].get(site, 0) + 1
                ent["_per_site"][site] = c
                # C13_frames_bound: at most B + 1 descents per call site and entry point
                if c > 4 * (OUT["consts"]["B"] + 1) + 8:
                    ent.pop("_per_site", None)
                    hard_stop("p3_frames_per_site", entry=ent["entry"], site=list(site), frames=c, B=OUT["consts"]["B"])
        if P2["on"]:
            P2["frames_pushed"] += 1
            P2["max_stack"] = max(P2["max_stack"], len(self._stack) + 1)
            root = CUR.get("p2root")
            if root is not None and len(self._stack) > 0:
                root["frames"] += 1
                p2_event(root, ["push", int(element.method_id)])
        return orig_stack_add(self, element)

    def stack_pop(self):
        el = orig_stack_pop(self)
        ent = CUR["entry"]
        if ent is not None and el is not None and not getattr(el, "is_meta_frame", False):
            if ent["_initfail"] is el:
                ent_event(ent, ["initFail", int(el.method_id)])
            else:
                ent_event(ent, ["done", int(el.method_id)])
            ent["_initfail"] = None
        root = CUR.get("p2root")
        if root is not None and el is not None:
            p2_event(root, ["initFail" if root["_initfail"] is el else "done", int(el.method_id)])
            root["_initfail"] = None
        return el

    cs.ComputeFrameStack.add, cs.ComputeFrameStack.pop = stack_add, stack_pop

    orig_p3_init = gs.P3GlobalSemanticAnalysis.init_compute_frame

    def p3_init(self, frame, frame_stack, global_space):
        r = orig_p3_init(self, frame, frame_stack, global_space)
        ent = CUR["entry"]
        if ent is not None:
            if r is None:
                ent["_initfail"] = frame
            else:
                path = [[int(c.caller_id), int(c.call_stmt_id), int(c.callee_id)] for c in frame.call_path.path]
                ent_event(ent, ["init", int(frame.method_id), path])
                ent["max_path"] = max(ent["max_path"], len(path))
        return r

    gs.P3GlobalSemanticAnalysis.init_compute_frame = p3_init

    orig_ctms = gss.GlobalStmtStates.compute_target_method_states

    def ctms(self, stmt_id, stmt, status, in_states, callee_method_ids, *a, **k):
        ent = CUR["entry"]
        raw = [int(x) for x in callee_method_ids]
        res = orig_ctms(self, stmt_id, stmt, status, in_states, callee_method_ids, *a, **k)
        if ent is not None and ent.get("_inv") is not None:
            ent["_inv"].append([int(stmt_id), raw, int(self.frame.method_id)])
            ent["requests"] += 1
            if res is not None and getattr(res, "interruption_flag", False):
                ent_event(ent, ["intr", int(self.frame.method_id), int(stmt_id),
                                [int(x) for x in res.interruption_data.callee_ids]])
                ent["interruptions"] += 1
        return res

    gss.GlobalStmtStates.compute_target_method_states = ctms

    orig_afs = gs.P3GlobalSemanticAnalysis.analyze_frame_stack

    def afs(self, frame_stack, global_space, sfg):
        entry_frame = frame_stack[1]
        ent = {"entry": int(entry_frame.method_id), "events": [], "invocations": [], "frames": 1,
               "interruptions": 0, "requests": 0, "max_path": 0, "_inv": None, "_initfail": None, "_per_site": {},
               "R": int(self.max_analysis_round)}
        OUT["p3"].append(ent)
        CUR["entry"] = ent
        try:
            return orig_afs(self, frame_stack, global_space, sfg)
        finally:
            CUR["entry"] = None
            ent["counters"] = [[[int(k.caller_id), int(k.call_stmt_id), int(k.callee_id)], int(v)]
                               for k, v in self.call_site_analyze_counter.items()]
            ent["paths"] = sorted([[int(c.caller_id), int(c.call_stmt_id), int(c.callee_id)] for c in p.path]
                                  for p in self.path_manager.paths)
            ent.pop("_inv", None); ent.pop("_initfail", None); ent.pop("_per_site", None)

    gs.P3GlobalSemanticAnalysis.analyze_frame_stack = afs

    # ------------------------------------------------------------------ closure (P1 call-graph search)
    orig_sipn = ba.P1BasicSemanticAnalysis.search_impacted_parent_nodes

    def sipn(self, graph, node):
        rec = None
        if node in graph:
            nodes = [int(x) for x in graph.nodes]
            rec = {"start": int(node), "N": nodes,
                   "next": [[int(n), [int(p) for p in util.graph_predecessors(graph, n)]] for n in graph.nodes],
                   "pops": [], "_wl": None}
            OUT["closure"].append(rec)
            # the worklist is created inside the function: catch the first one constructed
            orig_init = cs.SimpleWorkList.__init__
            def init_once(wself, *a, **k):
                orig_init(wself, *a, **k)
                if rec["_wl"] is None:
                    rec["_wl"] = wself
            cs.SimpleWorkList.__init__ = init_once
            CUR["clo"] = rec
        try:
            res = orig_sipn(self, graph, node)
        finally:
            if rec is not None:
                cs.SimpleWorkList.__init__ = wl_init
                CUR["clo"] = None
                rec.pop("_wl", None)
        if rec is not None:
            rec["result"] = sorted(int(x) for x in res)
        return res

    ba.P1BasicSemanticAnalysis.search_impacted_parent_nodes = sipn

    # ------------------------------------------------------------------ scope closure
    orig_ssd = sh.UnitScopeHierarchyAnalysis.summarize_symbol_decls
    SCOPE_KINDS = [LIAN_SYMBOL_KIND.CLASS_KIND, LIAN_SYMBOL_KIND.METHOD_KIND, LIAN_SYMBOL_KIND.BLOCK_KIND,
                   LIAN_SYMBOL_KIND.NAMESPACE_KIND, LIAN_SYMBOL_KIND.FOR_KIND, LIAN_SYMBOL_KIND.WITH_KIND]

    def ssd(self):
        avail = {}
        try:
            for row in self.scope_space:
                if row.scope_kind in SCOPE_KINDS:
                    avail.setdefault(int(row.stmt_id), [])
                    if int(row.scope_id) not in avail[int(row.stmt_id)]:
                        avail[int(row.stmt_id)].append(int(row.scope_id))
        except Exception as e:
            avail = {"error": repr(e)}
        rec = {"avail": [[k, v] for k, v in avail.items()] if "error" not in avail else None,
               "wls": [], "pops": []}
        OUT["scopes"].append(rec)
        CUR["scope"] = rec
        try:
            return orig_ssd(self)
        finally:
            CUR["scope"] = None
            rec.pop("wls", None)

    sh.UnitScopeHierarchyAnalysis.summarize_symbol_decls = ssd

    # ------------------------------------------------------------------ taint queue
    orig_mark = ts.TaintEnv.mark_processed_node

    def mark(self, node):
        t = CUR["taint"]
        if t is not None:
            t["n_deq"] += 1
            if t["detail"]:
                t["dequeued"].append(t["_index"].get(node, -1))
        return orig_mark(self, node)

    ts.TaintEnv.mark_processed_node = mark

    orig_apr = ta.TaintRuleApplier.apply_propagation_rules

    def apr(self, node):
        r = orig_apr(self, node)
        t = CUR["taint"]
        if t is not None and t["detail"]:
            i = t["_index"].get(node, -1)
            t["_prop"].setdefault(i, set()).add(bool(r))
        return r

    ta.TaintRuleApplier.apply_propagation_rules = apr

    def abstract_sfg(pf, source, detail):
        g = pf.sfg
        nodes = list(g.nodes)
        index = {n: i for i, n in enumerate(nodes)}
        rec = {"n": len(nodes), "edges": g.number_of_edges(), "n_deq": 0, "dequeued": [], "detail": detail,
               "_index": index, "_prop": {}, "source": index.get(source, -1)}
        if not detail:
            return rec
        slot_ids = {}
        def slot(kind, nid):
            return slot_ids.setdefault((kind, nid), len(slot_ids))
        K = SFG_NODE_KIND; E = SFG_EDGE_KIND
        kinds, src, acts_t, acts_f = [], [], [], []
        typing_ok = True
        for u in nodes:
            ut = u.node_type
            kinds.append(int(ut) if isinstance(ut, int) else str(ut))
            a = []       # acts when apply_propagation_rules(u) is True (or u is not a stmt)
            if ut == K.SYMBOL:
                src.append([slot("y", u.node_id)])
                for v in g.successors(u):
                    ed = g.get_edge_data(u, v)
                    if ed:
                        for data in ed.values():
                            et = data.edge_type
                            if et == E.SYMBOL_STATE:
                                a.append(["g", index[v], slot("s", v.node_id), False])
                            elif et == E.SYMBOL_IS_USED:
                                a.append(["a", index[v]])
                                if v.node_type == K.SYMBOL:
                                    typing_ok = False
                            elif et in (E.SYMBOL_FLOW, E.INDIRECT_SYMBOL_FLOW):
                                if v.node_type != K.SYMBOL:
                                    continue
                                a.append(["g", index[v], slot("y", v.node_id), False])
                acts_t.append(a); acts_f.append(a)
            elif ut == K.STATE:
                src.append([slot("s", u.node_id)])
                for v in g.predecessors(u):
                    ed = g.get_edge_data(v, u)
                    if ed:
                        for data in ed.values():
                            if data.edge_type in (E.SYMBOL_STATE, E.STATE_INCLUSION):
                                a.append(["g", index[v], slot("y", v.node_id), False])
                for v in g.successors(u):
                    if v.node_type == K.STATE:
                        ed = g.get_edge_data(u, v)
                        if ed:
                            for data in ed.values():
                                if data.edge_type in (E.STATE_INCLUSION, E.INDIRECT_STATE_INCLUSION):
                                    a.append(["g", index[v], slot("s", v.node_id), False])
                acts_t.append(a); acts_f.append(a)
            elif ut == K.STMT:
                s = []
                for pred in g.predecessors(u):
                    ed = g.get_edge_data(pred, u)
                    if ed:
                        for data in ed.values():
                            if data.edge_type == E.SYMBOL_IS_USED:
                                s.append(slot("y", pred.node_id))
                src.append(s)
                for v in g.successors(u):
                    ed = g.get_edge_data(u, v)
                    if ed:
                        for data in ed.values():
                            if data.edge_type == E.SYMBOL_IS_DEFINED:
                                a.append(["g", index[v], slot("y", v.node_id), True])
                if getattr(u, "name", None) == "object_call_stmt":
                    for pred in g.predecessors(u):
                        ed = g.get_edge_data(pred, u)
                        if not ed:
                            continue
                        for data in ed.values():
                            if not data:
                                continue
                            if data.edge_type != E.SYMBOL_IS_USED:
                                continue
                            if getattr(data, "pos", -1) != 0:
                                continue
                            if pred.node_type != K.SYMBOL:
                                continue
                            a.append(["g", index[pred], slot("y", pred.node_id), True])
                            break
                acts_t.append(a); acts_f.append([])
            else:
                src.append([]); acts_t.append([]); acts_f.append([])
        rec.update({"kinds": kinds, "src": src, "acts_t": acts_t, "acts_f": acts_f, "typing_ok": typing_ok,
                    "_slot": slot, "_slot_ids": slot_ids})
        return rec

    orig_pt = ta.PathFinder.propagate_taint
    TAINT_DETAIL_MAX = int(os.environ.get("C13_MAX_TAINT_DETAIL", "12"))

    def propagate_taint(self, source):
        detail = len([t for t in OUT["taint"] if t.get("detail")]) < TAINT_DETAIL_MAX
        try:
            rec = abstract_sfg(self, source, detail)
        except Exception as e:
            rec = {"n": -1, "edges": -1, "n_deq": 0, "dequeued": [], "detail": False, "_index": {}, "_prop": {},
                   "abstract_error": repr(e)}
        OUT["taint"].append(rec)
        CUR["taint"] = rec
        try:
            tag = orig_pt(self, source)
        finally:
            CUR["taint"] = None
        rec["tag"] = tag
        if rec.get("detail"):
            K = SFG_NODE_KIND; E = SFG_EDGE_KIND
            slot = rec["_slot"]
            g = self.sfg
            index = rec["_index"]
            bits = [i for i in range(max(1, int(tag).bit_length())) if (int(tag) >> i) & 1] if tag else []
            rec["bits"] = bits
            # seeded state (mirror of _init_source_contamination)
            tags, queue = [], []
            if source.node_type == K.SYMBOL:
                tags.append([slot("y", source.node_id), bits]); queue.append(index[source])
                for v in g.successors(source):
                    ed = g.get_edge_data(source, v)
                    if ed:
                        for data in ed.values():
                            if data.edge_type == E.SYMBOL_STATE:
                                tags.append([slot("s", v.node_id), bits])
                                if index[v] not in queue:
                                    queue.append(index[v])
            elif source.node_type == K.STATE:
                tags.append([slot("s", source.node_id), bits]); queue.append(index[source])
            elif source.node_type == K.STMT:
                queue.append(index[source])
            rec["tags0"] = tags
            rec["queue0"] = queue
            rec["n_slots"] = len(rec["_slot_ids"])
            prop = rec["_prop"]
            rec["prop_unstable"] = any(len(v) > 1 for v in prop.values())
            rec["acts"] = [rec["acts_t"][i] if (i not in prop or True in prop[i]) else rec["acts_f"][i]
                           for i in range(rec["n"])]
            rec["amax"] = max([sum(1 for x in a if x[0] == "a") for a in rec["acts"]] + [0])
            rec.pop("acts_t", None); rec.pop("acts_f", None)
        for k in ("_index", "_prop", "_slot", "_slot_ids"):
            rec.pop(k, None)
        return tag

    ta.PathFinder.propagate_taint = propagate_taint

    # ---- path reconstruction: visited-set DFS over the SFG (one call per flow found)
    OUT["dfs"] = []
    DFS_DETAIL_MAX = int(os.environ.get("C13_MAX_DFS_DETAIL", "12"))

    class CountingGraph:
        """stands in for the networkx graph during one reconstruct_define_use_path call: counts and logs the
        nodes whose successors the DFS asks for (= the nodes it expands)"""
        def __init__(self, g, rec):
            self.__dict__["_g"] = g
            self.__dict__["_rec"] = rec
        def successors(self, u):
            rec = self._rec
            rec["expansions"] += 1
            if rec["detail"]:
                rec["expanded"].append(rec["_index"].get(u, -1))
            # a visit-once search expands every node at most once (C13_closure_bound: <= 1 + |E| pops)
            if rec["expansions"] > rec["n"] + rec["edges"] + 2:
                hard_stop("dfs_expansions", expansions=rec["expansions"], nodes=rec["n"], edges=rec["edges"])
            return self._g.successors(u)
        def __getattr__(self, k):
            return getattr(self._g, k)
        def __bool__(self):
            return True
        def __len__(self):
            return len(self._g)
        def __iter__(self):
            return iter(self._g)
        def __contains__(self, x):
            return x in self._g

    orig_rdup = ta.PathFinder.reconstruct_define_use_path

    def rdup(self, source, sink):
        g = self.ta.sfg
        detail = len([d for d in OUT["dfs"] if d.get("detail")]) < DFS_DETAIL_MAX
        rec = {"n": g.number_of_nodes(), "edges": g.number_of_edges(), "expansions": 0, "expanded": [], "detail": detail}
        nodes = list(g.nodes)
        rec["_index"] = {n: i for i, n in enumerate(nodes)}
        if detail:
            rec["succ"] = [[rec["_index"][v] for v in g.successors(u)] for u in nodes]
            rec["source"] = rec["_index"].get(source, -1)
            rec["sink"] = rec["_index"].get(sink, -1)
        OUT["dfs"].append(rec)
        self.ta.sfg = CountingGraph(g, rec)
        t = time.process_time()
        try:
            return orig_rdup(self, source, sink)
        finally:
            self.ta.sfg = g
            rec["cpu"] = round(time.process_time() - t, 4)
            rec.pop("_index", None)

    ta.PathFinder.reconstruct_define_use_path = rdup

    orig_ff = ta.TaintAnalysis.find_flows
    OUT["taint_pairs"] = []

    OUT["flows_found"] = 0

    def find_flows(self, sources, sinks):
        OUT["taint_pairs"].append([len(sources), len(sinks)])
        r = orig_ff(self, sources, sinks)
        try:
            OUT["flows_found"] += len(r)
        except Exception:
            pass
        return r

    ta.TaintAnalysis.find_flows = find_flows

    # ------------------------------------------------------------------ phase timers
    def timed(cls, name, label):
        orig = getattr(cls, name)
        def w(self, *a, **k):
            t = time.process_time()
            try:
                return orig(self, *a, **k)
            finally:
                OUT["phase_s"][label] = round(OUT["phase_s"].get(label, 0) + time.process_time() - t, 3)
        setattr(cls, name, w)

    timed(la.LangAnalysis, "run", "lang")
    timed(ba.P1BasicSemanticAnalysis, "run", "p1")
    timed(ps.P2PrelimSemanticAnalysis, "run", "p2")          # P3.run overrides run and does not call it
    timed(gs.P3GlobalSemanticAnalysis, "run", "p3")
    timed(ta.TaintAnalysis, "run", "taint")

    # ------------------------------------------------------------------ run
    sys.argv = ["main.py"] + lian_argv
    t0 = time.process_time()
    try:
        lmain.Lian().run()
        OUT["status"] = "ok"
    except SystemExit as e:
        OUT["status"] = "exit"
        OUT["exit_code"] = e.code if isinstance(e.code, int) else 1
    except BaseException as e:
        OUT["status"] = "exception"
        tb = traceback.extract_tb(e.__traceback__)
        OUT["exc"] = {"type": type(e).__name__, "msg": str(e)[:300],
                      "frames": [[os.path.relpath(f.filename, SRC) if f.filename.startswith(SRC) else f.filename,
                                  f.name, f.lineno] for f in tb][-25:]}
    OUT["t_run"] = round(time.process_time() - t0, 3)
    OUT["cpu_s"] = round(time.process_time(), 3)
    # strip helper fields
    for fr in OUT["frames"]:
        for k in ("_wl", "_it"):
            fr.pop(k, None)
        if not fr.get("detail"):
            fr.pop("events", None)
    OUT["n_methods_p3_frames"] = len({fr["method"] for fr in OUT["frames"]})
    dump(out_path)
    stack_file.close()
    try:
        if os.path.getsize(out_path + ".stack") == 0:
            os.unlink(out_path + ".stack")
    except OSError:
        pass
    code = 0 if OUT["status"] == "ok" else 3
    sys.stdout.flush()
    os._exit(code)


if __name__ == "__main__":
    main()
