"""Real flattened GIR rows (frontend/gir.bundle*) -> structured GIR programs (JSON) for the Lean
driver model "girexec" (LianVerif/Gir/Sem.lean).  Shared by C01 and C02.

The structured form of one statement is the row as an object {"op": operation, attr: value...}:
  * bodies (attributes whose value is the id of a block owned by the statement) become lists of statements;
  * `positional_args`, `attrs`, `supers` (stringified Python lists) become lists of strings;
  * `named_args` (stringified dict) becomes a list of [name, token] pairs;
  * position/bookkeeping columns are dropped (start/end row/col, decorators, unit_id, ids, original_stmt,
    data_type — except the data_type of new_object, which names the instantiated class).
Nothing else is normalised.  Structural inconsistencies of the rows (parent ids that contradict the
block_start/block_end nesting, dangling block references) raise Malformed.
"""
import ast, json, math, os

DROP = {"stmt_id", "parent_stmt_id", "unit_id", "start_row", "start_col", "end_row", "end_col",
        "decorators", "original_stmt", "data_type", "operation"}
LIST_ATTRS = {"positional_args", "attrs", "supers", "attr"}
# `data_type` is part of the meaning of these operations (the class that is instantiated); everywhere else it is a
# type annotation and dropped
KEEP_DATA_TYPE = {"new_object"}


class Malformed(Exception):
    pass


def clean_row(r):
    """pandas row dict -> dict without missing cells; integral floats -> int."""
    d = {}
    for k, v in r.items():
        if v is None:
            continue
        if isinstance(v, float):
            if math.isnan(v):
                continue
            if v == int(v):
                v = int(v)
            else:
                raise Malformed(f"non-integral float in column {k}: {v}")
        elif hasattr(v, "item") and not isinstance(v, (str, bytes)):
            try:
                v = v.item()
            except Exception:
                pass
            if isinstance(v, float):
                if math.isnan(v):
                    continue
                if v == int(v):
                    v = int(v)
        d[k] = v
    return d


def read_bundles(frontend_dir):
    """All rows of frontend/gir.bundle* in bundle order, as clean dicts."""
    import pandas as pd
    rows = []
    i = 0
    while True:
        p = os.path.join(frontend_dir, f"gir.bundle{i}")
        if not os.path.exists(p):
            break
        df = pd.read_feather(p)
        cols = list(df.columns)
        for tup in df.itertuples(index=False, name=None):
            rows.append(clean_row(dict(zip(cols, tup))))
        i += 1
    return rows


def unit_paths(workspace):
    """unit_id -> unit path (relative to the workspace src dir) from frontend/module_symbols."""
    import pandas as pd
    p = os.path.join(workspace, "frontend", "module_symbols")
    df = pd.read_feather(p)
    out = {}
    for r in df.to_dict("records"):
        up = r.get("unit_path")
        uid = r.get("unit_id")
        if uid is None or (isinstance(uid, float) and math.isnan(uid)):
            continue
        if isinstance(up, str) and up:
            out[int(uid)] = up
    return out


def split_units(rows):
    units = {}
    for r in rows:
        units.setdefault(r.get("unit_id"), []).append(r)
    return units


def _listy(v, key):
    if isinstance(v, (list, tuple)):
        return [str(x) for x in v]
    try:
        x = ast.literal_eval(v)
    except Exception:
        raise Malformed(f"attribute {key} is not a list literal: {v!r}")
    if not isinstance(x, (list, tuple)):
        raise Malformed(f"attribute {key} is not a list: {v!r}")
    return [str(e) for e in x]


def rows_to_tree(rows):
    """rows of ONE unit (in file order) -> list of top-level structured statements."""
    # pass 1: block nesting by sequence
    blocks = {}            # block id -> {"owner": stmt id, "items": [row...]}
    stack = []
    top = []
    pos_parent = {}        # id(row) -> enclosing block id by position (0 = top level)
    for r in rows:
        op = r.get("operation")
        if op == "block_start":
            bid = r["stmt_id"]
            if bid in blocks:
                raise Malformed(f"block {bid} opened twice")
            blocks[bid] = {"owner": r["parent_stmt_id"], "items": []}
            stack.append(bid)
        elif op == "block_end":
            if not stack or stack[-1] != r["stmt_id"]:
                raise Malformed(f"block_end {r.get('stmt_id')} does not match open block {stack[-1] if stack else None}")
            if blocks[stack[-1]]["owner"] != r["parent_stmt_id"]:
                raise Malformed(f"block_end {r['stmt_id']} has a different parent than its block_start")
            stack.pop()
        else:
            here = stack[-1] if stack else 0
            if r.get("parent_stmt_id") != here:
                raise Malformed(f"statement {r.get('stmt_id')} ({op}) has parent_stmt_id {r.get('parent_stmt_id')} "
                                f"but sits in block {here}")
            (blocks[here]["items"] if here else top).append(r)
    if stack:
        raise Malformed(f"unclosed blocks {stack}")
    used = set()

    def conv(r):
        sid = r["stmt_id"]
        node = {"op": r["operation"]}
        for k, v in r.items():
            if k in DROP and not (k == "data_type" and r["operation"] in KEEP_DATA_TYPE):
                continue
            if isinstance(v, int) and not isinstance(v, bool) and v in blocks and blocks[v]["owner"] == sid:
                used.add(v)
                node[k] = [conv(x) for x in blocks[v]["items"]]
            elif k in LIST_ATTRS:
                node[k] = _listy(v, k)
            elif k == "named_args":
                try:
                    d = ast.literal_eval(v) if isinstance(v, str) else v
                except Exception:
                    raise Malformed(f"named_args is not a dict literal: {v!r}")
                if not isinstance(d, dict):
                    raise Malformed(f"named_args is not a dict: {v!r}")
                node[k] = [[str(a), str(b)] for a, b in d.items()]
            elif isinstance(v, (int, float)) and not isinstance(v, bool):
                node[k] = str(v)
            else:
                node[k] = v if isinstance(v, str) else str(v)
        return node

    tree = [conv(r) for r in top]
    dangling = set(blocks) - used
    if dangling:
        raise Malformed(f"blocks never referenced by their owner statement: {sorted(dangling)[:5]}")
    return tree


def load_workspace(workspace):
    """workspace dir (…/lian_workspace) -> {unit path: structured program or Malformed instance}."""
    rows = read_bundles(os.path.join(workspace, "frontend"))
    paths = unit_paths(workspace)
    res = {}
    for uid, urows in split_units(rows).items():
        name = paths.get(uid, f"unit{uid}")
        try:
            res[name] = rows_to_tree(urows)
        except Malformed as e:
            res[name] = e
    return res
