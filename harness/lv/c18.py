"""C18 — running lian never alters inputs and writes only inside its workspace.

Real side  : the real `ArgsParser`, `Lian.set_workspace_dir`, `Lian.update_lang_config` and
             `WorkspaceBuilder.run` called in-process inside a throw-away scratch tree (bulk), plus a
             few complete `main.py lang|run` subprocess runs.  File-system snapshots (path, type,
             sha256, link target) are taken before and after.
Model side : `LianVerif.Workspace.prepare` (variant "live") through lvdrv on the same initial tree.
Oracle     : the snapshot diff, judged by `oracle()` below — written from the property statement,
             independent of both lian and the Lean model.
Safety     : every run happens below /var/tmp/lv-<pid>/; a depth watchdog stops runaway copying
             in-process; subprocesses get a timeout and RLIMIT_FSIZE.
"""
import atexit, contextlib, hashlib, io, itertools, json, os, random, resource, shutil, subprocess, sys, time
import common
from common import drv_batch, drv_ok
import c18_sites

DEFAULT = "lian_workspace"
SCRATCH = None
_ORIG_SCANDIR = os.scandir
_ORIG_LISTDIR = os.listdir
_ORIG_MAKEDIRS = os.makedirs
_ORIG_COPY2 = shutil.copy2


# ----------------------------------------------------------------------------------------------
# scratch area
# ----------------------------------------------------------------------------------------------

def _worker_init(parent_root):
    """pool worker: scratch below the parent's root (children exit without running atexit handlers)"""
    global SCRATCH
    SCRATCH = os.path.join(parent_root, f"w{os.getpid()}")
    _ORIG_MAKEDIRS(SCRATCH, exist_ok=True)


def eval_many(cases, workers):
    """eval_real over many placements, in a fork pool when workers > 1 (order preserved)"""
    if workers <= 1 or len(cases) < 64:
        return [eval_real(c) for c in cases]
    import multiprocessing
    root = scratch_root()
    with multiprocessing.get_context("fork").Pool(workers, initializer=_worker_init, initargs=(root,)) as pool:
        return pool.map(eval_real, cases, chunksize=max(1, len(cases) // (workers * 8)))


def scratch_root():
    global SCRATCH
    if SCRATCH is None:
        SCRATCH = os.path.realpath(os.path.join(common.SCRATCH_ROOT, f"lv-{os.getpid()}"))
        _ORIG_MAKEDIRS(SCRATCH, exist_ok=True)
        atexit.register(_cleanup, SCRATCH, os.getpid())
    return SCRATCH


def _cleanup(path, pid):
    if os.getpid() == pid:
        try:
            os.chdir("/")
        except OSError:
            pass
        shutil.rmtree(path, ignore_errors=True)


# ----------------------------------------------------------------------------------------------
# trees and snapshots.  A tree is a list of [relpath, "d"] | [relpath, "f", id] | [relpath, "l", target];
# "$R" inside link targets / options / inputs stands for the absolute case root.
# ----------------------------------------------------------------------------------------------

def subst(s, root):
    return s.replace("$R", root)


def build_tree(root, tree):
    _ORIG_MAKEDIRS(root, exist_ok=True)
    for e in tree:
        p = os.path.join(root, e[0])
        if e[1] == "d":
            _ORIG_MAKEDIRS(p, exist_ok=True)
    for e in tree:
        p = os.path.join(root, e[0])
        if e[1] == "d":
            continue
        _ORIG_MAKEDIRS(os.path.dirname(p), exist_ok=True)
        if e[1] == "f":
            with open(p, "w") as f:
                f.write(f"#{e[2]}\n")
        else:
            os.symlink(subst(e[2], root), p)


def snapshot(root):
    """path (absolute) -> ("d",) | ("f", sha256, size) | ("l", target) | ("o",) for everything below root."""
    snap = {}
    stack = [root]
    while stack:
        d = stack.pop()
        try:
            with _ORIG_SCANDIR(d) as it:
                entries = list(it)
        except OSError:
            continue
        for e in entries:
            if e.is_symlink():
                snap[e.path] = ("l", os.readlink(e.path))
            elif e.is_dir(follow_symlinks=False):
                snap[e.path] = ("d",)
                stack.append(e.path)
            elif e.is_file(follow_symlinks=False):
                with open(e.path, "rb") as f:
                    data = f.read()
                snap[e.path] = ("f", hashlib.sha256(data).hexdigest(), len(data))
            else:
                snap[e.path] = ("o",)
    return snap


def file_id(path):
    """content id of a file written by build_tree (or copied from one), None when unreadable"""
    try:
        with open(path, "rb") as f:
            data = f.read()
        if data.startswith(b"#") and data.endswith(b"\n"):
            return int(data[1:-1])
    except (OSError, ValueError):
        pass
    return None


def snapshot_to_model_fs(root, snap):
    """serialise a snapshot for lvdrv; ancestors of the case root are plain directories"""
    fs = []
    parts = root.strip("/").split("/")
    for i in range(1, len(parts) + 1):
        fs.append(["/" + "/".join(parts[:i]), "d"])
    for p in sorted(snap):
        v = snap[p]
        if v[0] == "d":
            fs.append([p, "d"])
        elif v[0] == "l":
            fs.append([p, "l", v[1]])
        elif v[0] == "f":
            fid = file_id(p)
            fs.append([p, "f", fid if fid is not None else 999999])
    return fs


def canon_real(root, snap):
    out = {}
    for p, v in snap.items():
        if v[0] == "d":
            out[p] = ["d"]
        elif v[0] == "l":
            out[p] = ["l", v[1]]
        elif v[0] == "f":
            fid = file_id(p)
            out[p] = ["f", fid if fid is not None else 999999]
        else:
            out[p] = ["o"]
    return out


def canon_model(root, fs):
    out = {}
    pre = root + "/"
    for e in fs:
        if e[0].startswith(pre):
            out[e[0]] = e[1:2] + e[2:3]
    return out


# ----------------------------------------------------------------------------------------------
# running the real code
# ----------------------------------------------------------------------------------------------

class RunawayCopy(Exception):
    pass


class _SortedScandir:
    """os.scandir in sorted order: directory order is unspecified by the OS; sorting it makes a run
    that stops half-way (exception) comparable with the model, which lists names sorted."""
    def __init__(self, path):
        with _ORIG_SCANDIR(path) as it:
            self._it = iter(sorted(it, key=lambda e: e.name))
    def __iter__(self):
        return self
    def __next__(self):
        return next(self._it)
    def __enter__(self):
        return self
    def __exit__(self, *a):
        return False
    def close(self):
        pass


@contextlib.contextmanager
def patched_os(depth_limit):
    def sorted_listdir(path="."):
        return sorted(_ORIG_LISTDIR(path))
    def guarded_makedirs(name, *a, **k):
        if os.path.abspath(name).count("/") > depth_limit:
            raise RunawayCopy(f"makedirs at depth {os.path.abspath(name).count('/')}")
        return _ORIG_MAKEDIRS(name, *a, **k)
    def guarded_copy2(src, dst, *a, **k):
        if os.path.abspath(dst).count("/") > depth_limit:
            raise RunawayCopy("copy2 too deep")
        return _ORIG_COPY2(src, dst, *a, **k)
    os.scandir, os.listdir, os.makedirs, shutil.copy2 = _SortedScandir, sorted_listdir, guarded_makedirs, guarded_copy2
    try:
        yield
    finally:
        os.scandir, os.listdir, os.makedirs, shutil.copy2 = _ORIG_SCANDIR, _ORIG_LISTDIR, _ORIG_MAKEDIRS, _ORIG_COPY2


_PARAMS = None


def live_params():
    """constants the model depends on, read from the live modules (never copied)"""
    global _PARAMS
    if _PARAMS is None:
        common.use_repo()
        from lian.config import config
        from lian import preparation
        import types
        wb = preparation.WorkspaceBuilder(types.SimpleNamespace(workspace="x"))
        _PARAMS = {"backup_dir": config.BACKUP_DIR,
                   "subdirs": list(wb.required_subdirs), "src_dir": config.SOURCE_CODE_DIR,
                   "externs_dir": config.EXTERNS_DIR, "default": config.DEFAULT_WORKSPACE,
                   "mock_dir": config.EXTERNS_MOCK_CODE_DIR}
    return _PARAMS


def runs_of(case):
    """the consecutive lian runs of a placement: [{"force": bool, "flags": [extra argv]}]; one by default"""
    return case.get("runs") or [{"force": case["force"], "flags": list(case.get("flags") or [])}]


def is_plain(case):
    """one run without extra flags: the only shape the Lean model covers (everything else is oracle-only)"""
    runs = runs_of(case)
    return len(runs) == 1 and not runs[0]["flags"]


def argv_of(case, root, run=None):
    run = run or runs_of(case)[0]
    argv = [case.get("sub", "lang"), "-l", case.get("lang", "python"), "-q"]
    if case.get("ws") is not None:
        argv += ["-w", subst(case["ws"], root)]
    if run["force"]:
        argv.append("-f")
    if not case.get("mock"):
        argv.append("--nomock")
    argv += [subst(f, root) for f in run["flags"]]
    return argv + [subst(i, root) for i in case["inputs"]]


_STUB_BIN = {}

STUB_CLANG = """#!/bin/sh
# hermetic stand-in for clang/clang++ -P -E <in> -o <out> [-I dir]: writes its -o target, nothing else
in=""; out=""
while [ $# -gt 0 ]; do
  case "$1" in
    -o) out="$2"; shift;;
    -I) shift;;
    -*) ;;
    *) in="$1";;
  esac
  shift
done
[ -n "$out" ] && cat "$in" > "$out"
exit 0
"""


def stub_bin():
    """directory with stub `clang`/`clang++` (per process, below the scratch root, never inside a case tree)"""
    pid = os.getpid()
    if pid not in _STUB_BIN:
        d = os.path.join(scratch_root(), "stub-bin")
        _ORIG_MAKEDIRS(d, exist_ok=True)
        for name in ("clang", "clang++"):
            fn = os.path.join(d, name)
            with open(fn, "w") as f:
                f.write(STUB_CLANG)
            os.chmod(fn, 0o755)
        _STUB_BIN[pid] = d
    return _STUB_BIN[pid]


def real_inproc(case, root, top, run=None):
    """Run the real preparation in-process (one run) on the tree already built at `root`, return
    (before, after, status, exts, dst->src map, message, cwd_deleted)."""
    run = run or runs_of(case)[0]
    common.use_repo()
    from lian.main import Lian
    from lian import preparation
    from lian.config import config
    cwd = os.path.join(root, case["cwd"])
    before = snapshot(top)
    old_argv, old_cwd, old_mock = sys.argv, os.getcwd(), config.EXTERNS_MOCK_CODE_DIR
    old_path = os.environ.get("PATH", "")
    depth_limit = max([p.count("/") for p in before] + [root.count("/")]) + 24
    status, exts, mapping, msg = "ok", None, {}, ""
    cwd_ino = os.stat(cwd).st_ino
    sink = io.StringIO()
    try:
        os.chdir(cwd)
        sys.argv = ["lian"] + argv_of(case, root, run)
        os.environ["PATH"] = stub_bin() + os.pathsep + old_path      # -I: hermetic clang / clang++
        if case.get("mock"):
            config.EXTERNS_MOCK_CODE_DIR = os.path.join(root, case["mock"])
        with contextlib.redirect_stdout(sink), contextlib.redirect_stderr(sink), patched_os(depth_limit):
            try:
                lian = Lian()
                lian.parse_cmds()
                lian.set_workspace_dir()
                lian.update_lang_config()
                exts = list(lian.options.lang_extensions)
                mapping = preparation.WorkspaceBuilder(lian.options).run()
            except SystemExit:
                status = "quit"
            except RunawayCopy as e:
                status = "runaway"
                msg = str(e)
            except RecursionError:
                status = "runaway"
            except Exception as e:                      # uncaught exception of the real code = a crash of lian
                status = "exc:" + type(e).__name__
                msg = str(e)[:200]
                if isinstance(e, OSError) and e.errno == 36:
                    status = "runaway"
    finally:
        sys.argv = old_argv
        os.environ["PATH"] = old_path
        config.EXTERNS_MOCK_CODE_DIR = old_mock
        os.chdir(old_cwd)
    after = snapshot(top)
    if exts is None:
        exts = lang_exts(case.get("lang", "python"))
    try:
        cwd_deleted = os.stat(cwd).st_ino != cwd_ino
    except OSError:
        cwd_deleted = True
    return before, after, status, exts, dict(mapping or {}), msg + sink.getvalue()[-300:], cwd_deleted


_EXTS = {}


def lang_exts(lang):
    if lang not in _EXTS:
        common.use_repo()
        from lian.config import lang_config
        langs = [l.strip() for l in lang.split(",") if l.strip()]
        lang_config.update_lang_extensions(lang_config.LANG_TABLE, langs)
        _EXTS[lang] = [e for l in langs for e in lang_config.LANG_EXTENSIONS.get(l, [])]
    return _EXTS[lang]


def model_request(case, root, top, before, exts, variant="live", fuel=None):
    P = live_params()
    req = {"m": "workspace", "op": "prepare", "variant": variant,
           "cwd": os.path.join(root, case["cwd"]).rstrip("/"),
           "ws": subst(case["ws"], root) if case.get("ws") is not None else P["default"],
           "inputs": [subst(i, root) for i in case["inputs"]], "force": bool(runs_of(case)[0]["force"]),
           "exts": exts, "subdirs": P["subdirs"], "src_dir": P["src_dir"], "externs_dir": P["externs_dir"],
           "default": P["default"],
           "mock": os.path.join(root, case["mock"]) if case.get("mock") else None,
           "fs": snapshot_to_model_fs(top, before)}
    if fuel is not None:
        req["fuel"] = fuel
    return req


def status_class(s):
    if s.startswith("exc"):
        return "exc"
    if s in ("runaway", "fuel"):
        return "runaway"
    return s


# ----------------------------------------------------------------------------------------------
# the independent oracle: the statement of C18 over a before/after snapshot pair
# ----------------------------------------------------------------------------------------------

def expected_ws_option(case, root):
    """the documented rule: the default name is appended unless the option already contains it"""
    ws = subst(case["ws"], root) if case.get("ws") is not None else DEFAULT
    return ws if DEFAULT in ws else os.path.join(ws, DEFAULT)


def inside(p, w):
    return p == w or p.startswith(w.rstrip("/") + "/")


def oracle(case, root, before, after, status, pre, run=None):
    """returns a list of (kind, detail) violations for ONE run.  `pre` = facts computed BEFORE the run:
    W (physical workspace directory), realpaths of the inputs.  `run` = {"force", "flags"} of that run."""
    run = run or runs_of(case)[0]
    force = run["force"]
    incremental = any(f in ("--incremental", "-inc") for f in run["flags"])
    flagged = bool(run["flags"])
    W = pre["W"]
    viol = []
    changed = sorted(p for p in set(before) | set(after) if before.get(p) != after.get(p))
    out_changed = []
    for p in changed:
        if inside(p, W):
            continue
        # the only thing allowed outside the workspace: creating the missing ancestors of the workspace
        if p not in before and after[p] == ("d",) and inside(W, p):
            continue
        out_changed.append(p)
    if out_changed:
        viol.append(("outside-workspace-changed", out_changed[:6]))
    if not force and not incremental and changed:
        viol.append(("changed-without-force", changed[:6]))
    if not force and incremental:
        # --incremental re-uses the workspace: it may add and overwrite below W, but without --force the only
        # thing it may delete is its own previous backup (<W>/bak)
        bak = os.path.join(W, live_params()["backup_dir"])
        gone = [p for p in changed if p in before and p not in after and not inside(p, bak)]
        if gone:
            viol.append(("deleted-without-force", gone[:6]))
    # deletions / modifications inside the workspace: only previous contents, only when forced — and
    # never a designated input (or anything below it)
    for i, real in zip(case["inputs"], pre["input_real"]):
        if inside(real, W):
            hit = [p for p in changed if p in before and inside(p, real) and p != W]
            if hit:
                viol.append(("input-in-workspace-destroyed", {"input": i, "paths": hit[:6],
                                                              "identical": real == W}))
    # bounded copying
    n_files_before = sum(1 for v in before.values() if v[0] == "f") + pre.get("extra_files", 0)
    # (complete runs also write analysis results into the workspace: there only the copy areas count)
    roots = pre.get("copy_roots")
    n_new_files = sum(1 for p, v in after.items() if v[0] == "f" and before.get(p) != v
                      and (roots is None or any(inside(p, r) for r in roots)))
    bound = (len(case["inputs"]) + 1) * max(n_files_before, 1)
    if flagged:      # -I adds <unit>_processed.<ext> and <unit>.i per copied unit; --incremental copies W into W/bak
        bound = 3 * bound + n_files_before
    depth_before = max([p.count("/") for p in before] + [W.count("/")])
    depth_after = max([p.count("/") for p in after] + [0])
    if status_class(status) == "runaway" or n_new_files > bound or depth_after > 2 * depth_before + 8:
        viol.append(("unbounded-copy", {"new_files": n_new_files, "bound": bound,
                                        "depth_before": depth_before, "depth_after": depth_after,
                                        "status": status}))
    return viol


def precompute(case, root):
    """facts about the placement BEFORE the run; no chdir (this is also called from worker threads)"""
    cwd = os.path.join(root, case["cwd"]) if case["cwd"] else root
    wsopt = expected_ws_option(case, root)
    return {"W": os.path.realpath(os.path.join(cwd, wsopt)), "ws_option": wsopt,
            "W_lexical": os.path.realpath(os.path.normpath(os.path.join(cwd, wsopt))),
            "input_real": [os.path.realpath(os.path.join(cwd, subst(i, root))) for i in case["inputs"]]}


# ----------------------------------------------------------------------------------------------
# known findings (narrow matchers; ids must be open entries of known_findings.json)
# ----------------------------------------------------------------------------------------------

def has_interior_dotdot(ws):
    comps = [c for c in ws.split("/") if c not in ("", ".")]
    seen_name = False
    for c in comps:
        if c == "..":
            if seen_name:
                return True
        else:
            seen_name = True
    return False


def match_known(case, root, pre, viols, before, after, run=None):
    """returns finding id when *all* violations of this placement are explained by one open finding"""
    kinds = {k for k, _ in viols}
    W = pre["W"]
    # (a) the workspace itself is passed as an input under --force: its previous contents are deleted
    if kinds == {"input-in-workspace-destroyed"} and (run or runs_of(case)[0])["force"]:
        if all(d["identical"] for _, d in viols):
            return "C18/input-is-workspace"
    # (b) `..` after a symbolic link in the workspace option: manage_directory works on the textual
    #     abspath (cleans / creates THAT directory), run() on the kernel's reading of the raw option
    if kinds == {"outside-workspace-changed"} and has_interior_dotdot(pre["ws_option"]) \
            and pre["W_lexical"] != W:
        L = pre["W_lexical"]
        changed = [p for p in set(before) | set(after) if before.get(p) != after.get(p) and not inside(p, W)
                   and not (p not in before and after.get(p) == ("d",) and inside(W, p))]
        ok = True
        for p in changed:
            created_anc = p not in before and after.get(p) == ("d",) and inside(L, p)
            wiped_child = p in before and p not in after and inside(p, L) and p != L
            if not (created_anc or wiped_child):
                ok = False
        if ok:
            return "C18/ws-dotdot-after-symlink"
    # (c) --incremental (no --force) over an old workspace that already holds a symbolic link below src/ or externs/:
    #     makedirs / copy2 go through the link and create or overwrite files at its target
    r = run or runs_of(case)[0]
    if kinds == {"outside-workspace-changed"} and not r["force"] and any(f in ("--incremental", "-inc") for f in r["flags"]):
        P = live_params()
        areas = [os.path.join(W, P["src_dir"]), os.path.join(W, P["externs_dir"])]
        targets = [os.path.realpath(p) for p, v in before.items()
                   if v[0] == "l" and any(inside(p, a) for a in areas)]
        changed = [p for p in set(before) | set(after) if before.get(p) != after.get(p) and not inside(p, W)
                   and not (p not in before and after.get(p) == ("d",) and inside(W, p))]
        if targets and changed and all(p in after and any(inside(p, t) for t in targets) for p in changed):
            return "C18/incremental-writes-through-workspace-link"
    # (d) --incremental (no --force): an input that lies inside the kept workspace at the very place where the copy
    #     of another input lands is overwritten by that copy (nothing is deleted, nothing outside W changes)
    if kinds == {"input-in-workspace-destroyed"} and not r["force"] and any(f in ("--incremental", "-inc") for f in r["flags"]):
        outside_files = {v for q, v in before.items() if v[0] == "f" and not inside(q, W)}
        if all(not d["identical"] and all(p in after and after[p][0] == "f" and after[p] in outside_files for p in d["paths"])
               for _, d in viols):
            return "C18/incremental-overwrites-input-inside-workspace"
    return None


# ----------------------------------------------------------------------------------------------
# placements
# ----------------------------------------------------------------------------------------------

BASE_TREE = [
    ["cwd", "d"],
    ["cwd/proj/a.py", "f", 1], ["cwd/proj/b.txt", "f", 2], ["cwd/proj/sub/c.py", "f", 3],
    ["cwd/proj/sub/D.PY", "f", 4], ["cwd/proj/.hidden.py", "f", 5], ["cwd/proj/empty", "d"],
    ["cwd/proj/lk_file.py", "l", "a.py"], ["cwd/proj/lk_dir", "l", "sub"], ["cwd/proj/self", "l", "."],
    ["cwd/proj/broken.py", "l", "nothere.py"], ["cwd/proj/loop", "l", "loop"], ["cwd/proj/up", "l", ".."],
    ["cwd/single.py", "f", 6],
    ["cwd/other/proj/a.py", "f", 7], ["cwd/other/proj/z.py", "f", 8],
    ["cwd/lnk", "l", "../elsewhere"], ["cwd/abs_lnk", "l", "$R/elsewhere"],
    ["elsewhere/keep.py", "f", 9], ["elsewhere/d", "d"],
    ["precious/data.py", "f", 10], ["precious/deep/more.py", "f", 11],
    ["sentinel.txt", "f", 12],
    ["mock/python/m.py", "f", 13], ["mock/js/m.js", "f", 14],
]

# workspace option -> (option string or None, where the workspace directory then physically is, relative to $R)
WS_KINDS = {
    "absent":            (None, "cwd/lian_workspace"),
    "relative":          ("out", "cwd/out/lian_workspace"),
    "absolute":          ("$R/cwd/out", "cwd/out/lian_workspace"),
    "custom-contains":   ("my_lian_workspace_x", "cwd/my_lian_workspace_x"),
    "nested-default":    ("w/lian_workspace", "cwd/w/lian_workspace"),
    "via-symlink":       ("lnk/out", "elsewhere/out/lian_workspace"),
    "via-abs-symlink":   ("abs_lnk", "elsewhere/lian_workspace"),
    "symlinked-name":    ("lian_workspace_link", "realws"),
    "trailing-slash":    ("out/", "cwd/out/lian_workspace"),
    "leading-dotdot":    ("../out", "out/lian_workspace"),
    "dot":               (".", "cwd/lian_workspace"),
    "in-proj":           ("proj", "cwd/proj/lian_workspace"),
    "dotdot-after-link": ("lnk/../out2", "out2/lian_workspace"),
    "dotdot-plain":      ("proj/../out3", "cwd/out3/lian_workspace"),
}

# C / C++ sources for the flag dimension (-I needs them); x_processed.c is the name -I itself would produce for x.c
C_TREE = [
    ["cwd/cproj/m.c", "f", 40], ["cwd/cproj/m_processed.c", "f", 41], ["cwd/cproj/inc/u.h", "f", 42],
    ["cwd/cproj/sub/k.cpp", "f", 43], ["cwd/cproj/sub/k.i", "f", 44], ["cwd/cproj/notes.txt", "f", 45],
    ["cwd/cproj/lk.c", "l", "m.c"], ["cwd/one.c", "f", 46], ["hdrs/h.h", "f", 47],
]

# extra flags x languages; everything here is judged by the snapshot oracle only (the Lean model covers none of them)
FLAG_SETS = {
    "I-c":            ("c",        [{"force": True,  "flags": ["-I"]}]),
    "I-c-cpp":        ("c,cpp",    [{"force": True,  "flags": ["-I"]}]),
    "I-mix":          ("python,c", [{"force": True,  "flags": ["-I"]}]),
    "I-hdrs":         ("c",        [{"force": True,  "flags": ["-I", "-i", "$R/hdrs"]}]),
    "I-noforce":      ("c",        [{"force": False, "flags": ["-I"]}]),
    "strict":         ("python,c", [{"force": True,  "flags": ["--strict-parse-mode"]}]),
    "strict-I":       ("c",        [{"force": True,  "flags": ["--strict-parse-mode", "-I"]}]),
    "inc-only":       ("python",   [{"force": False, "flags": ["--incremental"]}]),
    "force-then-inc": ("python,c", [{"force": True,  "flags": []}, {"force": False, "flags": ["--incremental"]},
                                    {"force": False, "flags": ["--incremental"]}]),
    "I-then-inc-I":   ("c",        [{"force": True,  "flags": ["-I"]}, {"force": False, "flags": ["--incremental", "-I"]}]),
    "inc-force":      ("python",   [{"force": True,  "flags": ["--incremental"]}]),
}

WS_KINDS["in-cproj"] = ("cproj", "cwd/cproj/lian_workspace")

PREPOP = [
    ["old.txt", "f", 20], ["src/in/x.py", "f", 21], ["src/in/deep/y.py", "f", 22],
    ["frontend/gir", "f", 23], ["ext", "l", "$R/precious"], ["extf", "l", "$R/precious/data.py"],
    ["dangling", "l", "nowhere"],
]


def ws_tree(kind, prepop):
    opt, wsdir = WS_KINDS[kind]
    t = [list(e) for e in BASE_TREE]
    if kind == "symlinked-name":
        t.append(["cwd/lian_workspace_link", "l", "$R/realws"])
        t.append(["realws", "d"])
    if prepop:
        t.append([wsdir, "d"])
        for e in PREPOP:
            t.append([wsdir + "/" + e[0]] + e[1:])
    return opt, wsdir, t


def family_placements():
    """the systematic family of DESIGN §5 C18: workspace option x relation x input kind x force x prepopulated"""
    cases = []
    for kind in WS_KINDS:
        if kind == "in-cproj":          # belongs to the flag family (C sources)
            continue
        for prepop in (True, False):
            opt, wsdir, tree = ws_tree(kind, prepop)
            wsabs = "$R/" + wsdir
            input_sets = {
                "disjoint-dir": ["proj"] if kind != "in-proj" else ["other"],
                "disjoint-file": ["single.py"],
                "file-and-dir": ["single.py", "proj/sub"],
                "equal-basenames": ["proj", "other/proj"],
                "trailing-slash": ["proj/"],
                "dir-symlink-toplevel": ["proj/lk_dir"],
                "missing": ["nope.py"],
                "ws-inside-input-dot": ["."],
                "ws-inside-input-root": ["$R"],
                "ws-inside-input-parent": [os.path.dirname(wsabs)],
                "identical": [wsabs],
                "input-inside-ws": [wsabs + "/src/in"],
                "input-inside-ws-file": [wsabs + "/src/in/x.py"],
                "input-inside-ws-plus-other": ["single.py", wsabs + "/src/in"],
                "sibling-prefix": [wsabs + "2"],
                "dotdot-input": [".."],
            }
            if kind == "absent":
                input_sets["identical-relative"] = ["lian_workspace"]
                input_sets["inside-relative"] = ["lian_workspace/src/in"]
            for rel, inputs in input_sets.items():
                t = [list(e) for e in tree]
                if rel == "sibling-prefix":
                    t.append([wsdir + "2/s.py", "f", 30])
                for force in (True, False):
                    for mock in ((None, "mock") if rel in ("disjoint-dir", "ws-inside-input-root") else (None,)):
                        cases.append({"name": f"{kind}/{rel}/{'prepop' if prepop else 'fresh'}/{'force' if force else 'noforce'}"
                                              + ("/mock" if mock else ""),
                                      "tree": t, "cwd": "cwd", "ws": opt, "inputs": inputs, "force": force, "mock": mock})
    return cases


def flag_placements():
    """the flag dimension: -I with C/C++ inputs, --strict-parse-mode, --incremental (incl. a second and third run
    over the workspace the first run left), language mixes — x workspace option x inputs x prepopulated"""
    cases = []
    for kind in ("absent", "relative", "via-symlink", "symlinked-name", "in-cproj"):
        for prepop in (True, False):
            opt, wsdir, tree = ws_tree(kind, prepop)
            tree = tree + [list(e) for e in C_TREE]
            wsabs = "$R/" + wsdir
            input_sets = {"c-dir": ["cproj"], "c-file": ["one.c"], "mixed": ["proj", "cproj", "single.py"],
                          "ws-inside-input": ["."], "input-inside-ws": [wsabs + "/src/in"]}
            for rel, inputs in input_sets.items():
                for fname, (lang, runs) in FLAG_SETS.items():
                    cases.append({"name": f"flags/{fname}/{kind}/{rel}/{'prepop' if prepop else 'fresh'}",
                                  "tree": tree, "cwd": "cwd", "ws": opt, "inputs": inputs, "force": runs[0]["force"],
                                  "runs": [dict(r) for r in runs], "lang": lang, "mock": None})
    return cases


NAMES = ["a", "b", "p", "lian_workspace", "x_lian_workspace_y", "src", "in", "m.py", "n.py", "t.txt", "K.PY", "w",
         "m.c", "u.h"]
RANDOM_FLAGS = ["I-c", "I-mix", "I-c-cpp", "strict", "inc-only", "force-then-inc", "I-then-inc-I", "inc-force"]


def random_placement(rng):
    """a random small tree with links, a random workspace option and random inputs taken from the tree"""
    dirs = [""]
    tree = []
    nid = [100]
    for _ in range(rng.randint(2, 7)):
        parent = rng.choice(dirs)
        name = rng.choice(NAMES)
        p = (parent + "/" + name).lstrip("/")
        if any(e[0] == p for e in tree):
            continue
        r = rng.random()
        if "." in name and r < 0.8:
            nid[0] += 1
            tree.append([p, "f", nid[0]])
        elif r < 0.75:
            tree.append([p, "d"])
            dirs.append(p)
        else:
            target = rng.choice(["..", ".", "$R/" + rng.choice(dirs), rng.choice(NAMES), "../" + rng.choice(NAMES), p.split("/")[-1]])
            tree.append([p, "l", target])
    for d in list(dirs):
        if rng.random() < 0.6:
            nid[0] += 1
            tree.append([(d + "/" + rng.choice(["m.py", "n.py", "q.py"])).lstrip("/"), "f", nid[0]])
    seen, uniq = set(), []
    for e in tree:
        if e[0] not in seen:
            seen.add(e[0]); uniq.append(e)
    tree = uniq
    cwd = rng.choice(dirs)
    everything = [e[0] for e in tree] + dirs
    def pick_path():
        p = rng.choice(everything)
        r = rng.random()
        if r < 0.45:
            s = os.path.relpath("/" + p, "/" + cwd) if p != cwd else "."
        elif r < 0.85:
            s = "$R/" + p if p else "$R"
        else:
            s = rng.choice(NAMES)
        if rng.random() < 0.15:
            s += "/" + rng.choice(NAMES)
        if rng.random() < 0.07:
            s += "/"
        return s
    ws = None if rng.random() < 0.15 else pick_path()
    if ws is not None and rng.random() < 0.7:       # mostly directories / fresh names: a file there just makes makedirs fail
        d = rng.choice(dirs)
        ws = rng.choice(["$R/" + d if d else "$R", os.path.relpath("/" + d, "/" + cwd)])
        if rng.random() < 0.4:
            ws += "/" + rng.choice(["out", "lian_workspace", "x_lian_workspace_y", "w"])
    inputs = [pick_path() for _ in range(rng.randint(1, 3))]
    if not any(e[0] == cwd for e in tree) and cwd:
        tree.append([cwd, "d"])
    case = {"name": "random", "tree": tree, "cwd": cwd, "ws": ws, "inputs": inputs,
            "force": rng.random() < 0.8, "mock": None}
    r = rng.random()
    if r < 0.2:                         # flag dimension: judged by the oracle only
        lang, runs = FLAG_SETS[rng.choice(RANDOM_FLAGS)]
        case.update({"name": "random-flags", "lang": lang, "runs": [dict(x) for x in runs], "force": runs[0]["force"]})
    elif r < 0.3:                       # plain run in another language mix: still compared with the model
        case["lang"] = rng.choice(["c", "python,c", "c,cpp"])
    return case


# ----------------------------------------------------------------------------------------------
# evaluation of one placement
# ----------------------------------------------------------------------------------------------

_counter = itertools.count()


def eval_real(case):
    """runs the real code on a fresh copy of the placement (all its consecutive runs); returns a record"""
    top = os.path.join(scratch_root(), f"c{next(_counter):06d}")
    root = os.path.join(top, "r0", "r1", "r2")  # links climbing out of $R by ".." stay inside the snapshot
    try:
        build_tree(root, case["tree"])
        runs = runs_of(case)
        viols, knowns, first_before, first_pre, statuses = [], [], None, None, []
        cwd_deleted = False
        for k, r in enumerate(runs):
            pre = precompute(case, root)
            pre["extra_files"] = 0
            before, after, status, exts, mapping, msg, gone = real_inproc(case, root, top, r)
            cwd_deleted = cwd_deleted or gone
            v = oracle(case, root, before, after, status, pre, r)
            if v:
                knowns.append(match_known(case, root, pre, v, before, after, r))
                viols += v if len(runs) == 1 else [(kind, {"run": k, "detail": d}) for kind, d in v]
            if first_before is None:
                first_before, first_pre = before, pre
            statuses.append(status)
            if gone:
                break
        known = knowns[0] if knowns and all(x is not None and x == knowns[0] for x in knowns) else None
        rec = {"root": root, "top": top, "pre": first_pre, "cwd_deleted": cwd_deleted,
               "status": statuses[-1], "statuses": statuses, "exts": exts, "msg": msg,
               "viols": viols, "known": known, "oracle_only": not is_plain(case),
               "real_fs": canon_real(top, after), "before_fs": canon_real(top, first_before),
               "real_map": sorted([k, v] for k, v in mapping.items()),
               "request": model_request(case, root, top, first_before, exts)}
        return rec
    finally:
        shutil.rmtree(top, ignore_errors=True)


def relativise(obj, root):
    return json.loads(json.dumps(obj).replace(root, "$R"))


def diff_model(rec, reply):
    """None when real and model agree, else a short description of the first difference"""
    root = rec["root"]
    if status_class(rec["status"]) != status_class(reply["status"]):
        return f"status real={rec['status']} model={reply['status']}"
    if status_class(rec["status"]) == "runaway":
        return None            # both sides run away; where the real run was cut off is the watchdog's choice
    m = canon_model(rec["top"], reply["fs"])
    r = rec["real_fs"]
    if m != r:
        for p in sorted(set(m) | set(r)):
            if m.get(p) != r.get(p):
                return f"fs differs at {p.replace(root, '$R')}: real={r.get(p)} model={m.get(p)}"
    # the theorems speak about the model's W; the oracle about realpath(option): they must be the same directory
    if reply.get("in_fragment") and reply.get("ws_phys") != rec["pre"]["W"]:
        return f"workspace directory differs: oracle W={rec['pre']['W']} model W={reply.get('ws_phys')}"
    if status_class(rec["status"]) == "ok":
        mm = sorted(reply["map"])
        if mm != rec["real_map"]:
            return f"dst->src map differs: real={rec['real_map'][:3]} model={mm[:3]}"
    return None


def shrink_case(case, fails):
    """remove tree entries / inputs while the placement keeps failing"""
    cur = dict(case)
    def with_tree(t):
        c = dict(cur); c["tree"] = t; return c
    def with_inputs(i):
        c = dict(cur); c["inputs"] = i; return c
    if len(cur["inputs"]) > 1:
        cur["inputs"] = common.shrink_list(cur["inputs"], lambda i: len(i) > 0 and fails(with_inputs(i)))
    cur["tree"] = common.shrink_list(cur["tree"], lambda t: fails(with_tree(t)))
    return cur


# ----------------------------------------------------------------------------------------------
# complete subprocess runs (oracle only)
# ----------------------------------------------------------------------------------------------

def subprocess_run(case, idx):
    top = os.path.join(scratch_root(), f"s{idx:04d}")
    root = os.path.join(top, "r0", "r1", "r2")
    build_tree(root, case["tree"])
    P = live_params()
    mock_before = snapshot(P["mock_dir"]) if case.get("mock") else None   # the installation itself must stay untouched
    def limits():
        resource.setrlimit(resource.RLIMIT_FSIZE, (256 << 20, 256 << 20))
    t = time.time()
    viols, knowns, statuses, tail, n_ws = [], [], [], "", 0
    runs = runs_of(case)
    for k, r in enumerate(runs):
        pre = precompute(case, root)
        pre["extra_files"] = sum(len(f) for _, _, f in os.walk(P["mock_dir"])) if case.get("mock") else 0
        pre["copy_roots"] = [os.path.join(pre["W"], P["src_dir"]), os.path.join(pre["W"], P["externs_dir"])]
        before = snapshot(top)
        argv = argv_of(dict(case, mock=True if case.get("mock") else None), root, r)
        try:
            p = subprocess.run(["/venv/bin/python", os.path.join(common.REPO, "src/lian/main.py")] + argv,
                               cwd=os.path.join(root, case["cwd"]), capture_output=True, text=True,
                               timeout=120, preexec_fn=limits,
                               # the /venv editable install points at /repo/src: put the tree under test first;
                               # stub clang/clang++ first on PATH (-I runs stay hermetic)
                               env=dict(os.environ, PYTHONPATH=os.path.join(common.REPO, "src"),
                                        PATH=stub_bin() + os.pathsep + os.environ.get("PATH", "")))
            status = "ok" if p.returncode == 0 else ("quit" if "[ERROR]" in p.stderr and "Traceback" not in p.stderr
                                                     else "exc:exit%d" % p.returncode)
            if "File name too long" in p.stderr:
                status = "runaway"
            tail = (p.stderr or "")[-300:]
        except subprocess.TimeoutExpired:
            status, tail = "runaway", "timeout 120 s"
        after = snapshot(top)
        statuses.append(status)
        v = oracle(case, root, before, after, status, pre, r)
        if v:
            knowns.append(match_known(case, root, pre, v, before, after, r))
            viols += v if len(runs) == 1 else [(kind, {"run": k, "detail": d}) for kind, d in v]
        n_ws += sum(1 for q in after if inside(q, pre["W"]) and q not in before)
    if mock_before is not None:
        mock_after = snapshot(P["mock_dir"])
        if mock_after != mock_before:
            viols.append(("outside-workspace-changed", sorted(q for q in set(mock_before) | set(mock_after)
                                                              if mock_before.get(q) != mock_after.get(q))[:6]))
            knowns.append(None)
    known = knowns[0] if knowns and all(x is not None and x == knowns[0] for x in knowns) else None
    shutil.rmtree(top, ignore_errors=True)
    return {"case": case["name"], "status": statuses[-1], "statuses": statuses, "viols": relativise(viols, root),
            "known": known, "created_in_ws": n_ws, "wall": round(time.time() - t, 1),
            "stderr_tail": tail.replace(root, "$R")}


def subprocess_cases(tier):
    def mk(kind, inputs, force=True, prepop=True, sub="lang", mock=None):
        opt, wsdir, tree = ws_tree(kind, prepop)
        return {"name": f"subprocess/{sub}/{kind}/{'+'.join(inputs)}/{'force' if force else 'noforce'}",
                "tree": tree, "cwd": "cwd", "ws": opt, "inputs": inputs, "force": force, "sub": sub, "mock": mock}
    cases = [mk("absent", ["."]), mk("relative", ["proj"], mock=True), mk("absolute", ["single.py"], force=False),
             mk("via-symlink", ["$R/cwd"]), mk("in-proj", ["proj"], sub="run", mock=True),
             mk("custom-contains", ["proj", "other/proj"])]
    def mkf(kind, inputs, lang, runs, sub="lang", prepop=False, mock=None):
        opt, wsdir, tree = ws_tree(kind, prepop)
        return {"name": f"subprocess/{sub}/{kind}/{'+'.join(inputs)}/{lang}/" + ";".join(
                    ("f" if r["force"] else "nf") + "".join(r["flags"]) for r in runs),
                "tree": tree + [list(e) for e in C_TREE], "cwd": "cwd", "ws": opt, "inputs": inputs, "force": runs[0]["force"],
                "runs": runs, "lang": lang, "sub": sub, "mock": mock}
    cases += [mkf("relative", ["cproj"], "c", [{"force": True, "flags": ["-I"]}]),
              mkf("absent", ["proj", "cproj"], "python,c", [{"force": True, "flags": ["-I", "-i", "$R/hdrs"]}], mock=True),
              mkf("relative", ["proj"], "python", [{"force": True, "flags": []}, {"force": False, "flags": ["--incremental"]}])]
    if tier == "thorough":
        cases += [mkf("via-symlink", ["cproj", "one.c"], "c,cpp", [{"force": True, "flags": ["-I"]}, {"force": False, "flags": ["--incremental", "-I"]}]),
                  mkf("absent", ["."], "python", [{"force": True, "flags": ["--strict-parse-mode"]}]),
                  mkf("in-cproj", ["cproj"], "c", [{"force": True, "flags": ["-I"]}], prepop=True)]
        cases += [mk("symlinked-name", ["$R"]), mk("nested-default", ["$R/cwd/w/lian_workspace/src/in"]),
                  mk("absent", ["lian_workspace"]), mk("trailing-slash", ["proj/"], sub="run", mock=True),
                  mk("leading-dotdot", [".."], sub="semantic"), mk("dot", ["single.py", "."], prepop=False)]
    return cases


# ----------------------------------------------------------------------------------------------
# Fs reference definitions vs os.path (validates the trusted Spec/Fs.lean directly)
# ----------------------------------------------------------------------------------------------

def prims_batch(rng, n):
    reqs, expect = [], []
    base = os.path.join(scratch_root(), "prims")
    for k in range(n):
        case = random_placement(rng)
        top = os.path.join(base, f"t{k:04d}")
        root = os.path.join(top, "r0", "r1", "r2", "r3")
        build_tree(root, case["tree"])
        cwd = os.path.join(root, case["cwd"])
        paths = [subst(i, root) for i in case["inputs"]] + ([subst(case["ws"], root)] if case["ws"] else [])
        extra = [e[0] for e in case["tree"]]
        for _ in range(4):
            p = "$R/" + rng.choice(extra) if extra else "$R"
            if rng.random() < 0.5:
                p += "/" + rng.choice(NAMES + ["..", ".", "../..", "x/../.."])
            paths.append(subst(p, root))
        snap = snapshot(top)
        old = os.getcwd()
        os.chdir(cwd)
        try:
            exp = []
            for p in paths:
                try:
                    ls = sorted(_ORIG_LISTDIR(p))
                except OSError:
                    ls = None
                exp.append([os.path.realpath(p), os.path.exists(p), os.path.isdir(p), os.path.isfile(p),
                            os.path.islink(p), ls, os.path.abspath(p), os.path.basename(p),
                            os.path.splitext(p)[1].lower(), os.path.relpath(p, ".")])
        finally:
            os.chdir(old)
        reqs.append({"m": "workspace", "op": "prims", "cwd": cwd, "fs": snapshot_to_model_fs(top, snap), "paths": paths})
        expect.append((paths, exp, root))
    shutil.rmtree(base, ignore_errors=True)
    outs = drv_ok(drv_batch(reqs))
    diffs, total = [], 0
    names = ["realpath", "exists", "isdir", "isfile", "islink", "listdir", "abspath", "basename", "ext", "relpath"]
    for (paths, exp, root), out in zip(expect, outs):
        for p, e, o in zip(paths, exp, out):
            total += 1
            for nm, a, b in zip(names, e, o):
                if a != b:
                    diffs.append({"path": p.replace(root, "$R"), "fn": nm, "real": a, "model": b})
    return total, diffs


# ----------------------------------------------------------------------------------------------
# the check
# ----------------------------------------------------------------------------------------------

def load_corpus():
    d = os.path.join(common.VERIF, "corpus", "C18")
    out = []
    if os.path.isdir(d):
        for f in sorted(os.listdir(d)):
            if f.endswith(".json"):
                c = json.load(open(os.path.join(d, f)))
                c.setdefault("name", "corpus/" + f[:-5])
                c.setdefault("mock", None)
                out.append(c)
    return out


def run(ctx):
    common.use_repo()
    proofs_ok = ctx.proofs()
    tier = ctx.tier
    open_ids = set(ctx.finding_ids("open"))

    # 1. write-site inventory
    baked = {tuple(x) for x in drv_ok(drv_batch([{"m": "workspace", "op": "write_sites"}]))[0]}
    found = set(c18_sites.scan_write_sites(common.REPO))
    new_sites = sorted(found - baked)
    ctx.cov["write_sites"] = {"found": len(found), "baked": len(baked), "new": [list(s) for s in new_sites],
                              "gone": [list(s) for s in sorted(baked - found)]}

    # source fingerprints of the anchored functions (scheduling information only, DESIGN §1.3)
    import inspect
    from lian.main import Lian
    from lian import preparation, args_parser
    fps = {}
    for name, fn in [("Lian.set_workspace_dir", Lian.set_workspace_dir),
                     ("ArgsParser.parse_cmds", args_parser.ArgsParser.parse_cmds),
                     ("ArgsParser.merge_options", args_parser.ArgsParser.merge_options),
                     ("WorkspaceBuilder.__init__", preparation.WorkspaceBuilder.__init__),
                     ("WorkspaceBuilder.manage_directory", preparation.WorkspaceBuilder.manage_directory),
                     ("WorkspaceBuilder.prepare_directory", preparation.WorkspaceBuilder.prepare_directory),
                     ("WorkspaceBuilder.copytree_with_extension", preparation.WorkspaceBuilder.copytree_with_extension),
                     ("WorkspaceBuilder.is_inside_workspace", getattr(preparation.WorkspaceBuilder, "is_inside_workspace", None)),
                     ("WorkspaceBuilder.run", preparation.WorkspaceBuilder.run)]:
        try:
            fps[name] = hashlib.sha256(inspect.getsource(fn).encode()).hexdigest()[:16]
        except (TypeError, OSError):
            fps[name] = "absent"
    ctx.cov["fingerprints"] = fps

    # 2. reference file-system definitions against os.path
    n_prims, prim_diffs = prims_batch(random.Random(ctx.seed + 1), 150 if tier == "quick" else 1500)
    ctx.cov["fs_reference_vs_os"] = {"path_queries": n_prims, "differences": len(prim_diffs), "first": prim_diffs[:3]}

    # 3. placements: corpus, systematic family, random
    corpus = load_corpus()
    family = family_placements()
    n_rand = 1200 if tier == "quick" else 90000
    flagfam = flag_placements()
    cases = corpus + family + flagfam + [random_placement(ctx.rng) for _ in range(n_rand)]
    workers = int(os.environ.get("VERIF_WORKERS", "6" if tier == "quick" else "12"))

    stats = {"status": {}, "effects": {"creates": 0, "deletes": 0, "unchanged": 0}, "known": {}, "model_status": {},
             "flagged": {}}
    fragment = {"inside": 0, "outside": 0, "outside_forced_ok": 0, "violations_inside": 0,
                "termination_hypotheses_hold": 0, "runaway_despite_termination_theorem": 0,
                "cwd_deleted_oracle_only": 0, "oracle_only_flagged": 0}
    distinct, corr_breaks, failing = set(), [], []
    pinned_pairs, sample_idx = [], {len(corpus) + 3, len(corpus) + len(family) + 1, len(cases) - 1}
    CHUNK = 6000          # evaluate, compare and forget chunk by chunk (memory)
    triples = ((i, case, rec, rep)
               for lo in range(0, len(cases), CHUNK)
               for chunk in [cases[lo:lo + CHUNK]]
               for recs in [eval_many(chunk, workers)]
               for replies in [drv_ok(drv_batch([r["request"] for r in recs]))]
               for i, (case, rec, rep) in enumerate(zip(chunk, recs, replies), lo))
    for i, case, rec, rep in triples:
        ctx.cov["evaluations"] += 1
        if case.get("pinned_expect"):
            pinned_pairs.append((case, rec))
        if i in sample_idx:
            ctx.cov["samples"].append(relativise({"name": case["name"], "cwd": case["cwd"], "ws": case["ws"], "inputs": case["inputs"],
                                                  "force": case["force"], "lang": case.get("lang", "python"), "runs": case.get("runs"),
                                              "tree": case["tree"][:12], "status": rec["status"],
                                                  "created": sorted(p for p in rec["real_fs"] if p not in rec["before_fs"])[:12]}, rec["root"]))
        root = rec["root"]
        sc = status_class(rec["status"])
        stats["status"][sc] = stats["status"].get(sc, 0) + 1
        modelled = not rec.get("oracle_only")
        if modelled:
            stats["model_status"][rep["status"]] = stats["model_status"].get(rep["status"], 0) + 1
        if modelled and rep.get("in_fragment_bound"):
            fragment["termination_hypotheses_hold"] += 1
            if status_class(rep["status"]) == "runaway" or sc == "runaway":
                fragment["runaway_despite_termination_theorem"] += 1   # would contradict C18_copy_terminates_partial
        if not modelled:
            pass
        elif rep.get("in_fragment"):
            fragment["inside"] += 1
            if any(k == "outside-workspace-changed" for k, _ in rec["viols"]):
                fragment["violations_inside"] += 1      # would contradict C18_outside_unchanged_partial
        else:
            fragment["outside"] += 1
            if case["force"] and sc == "ok":
                fragment["outside_forced_ok"] += 1
        created = [p for p in rec["real_fs"] if p not in rec["before_fs"]]
        deleted = [p for p in rec["before_fs"] if p not in rec["real_fs"]]
        copied = [p for p in created if rec["real_fs"][p][0] == "f"]
        stats["effects"]["creates"] += len(created)
        stats["effects"]["deletes"] += len(deleted)
        if not created and not deleted:
            stats["effects"]["unchanged"] += 1
        if copied or deleted:           # non-trivial: something was copied or deleted
            distinct.add(json.dumps(relativise([case["tree"], case["cwd"], case["ws"], case["inputs"], case["force"], case["mock"],
                                                case.get("lang"), case.get("runs")], root), sort_keys=True))
        if rec.get("oracle_only"):
            # extra flags (-I, --incremental, --strict-parse-mode) or several consecutive runs: not modelled,
            # the snapshot oracle alone decides
            fragment["oracle_only_flagged"] += 1
            key = "+".join(sorted({f for r in runs_of(case) for f in r["flags"] if f.startswith("-") and f != "-i"})) or "multi-run"
            stats["flagged"][key] = stats["flagged"].get(key, 0) + 1
            d = None
        elif rec["cwd_deleted"]:
            # --force deleted the process's own working directory (run started inside the workspace): the
            # model lets every relative path fail from then on, the kernel still resolves leading ".."s from
            # the deleted directory.  Outside the fragment by definition; judged by the oracle only.
            fragment["cwd_deleted_oracle_only"] += 1
            d = None
        else:
            d = diff_model(rec, rep)
        if d:
            corr_breaks.append((case, rec, rep, d))
        if rec["viols"]:
            if rec["known"] and rec["known"] in open_ids:
                stats["known"][rec["known"]] = stats["known"].get(rec["known"], 0) + 1
                ctx.known(rec["known"], f"{case['name']}: {relativise(rec['viols'][0], root)}")
            else:
                failing.append((case, rec))
    ctx.cov["distinct_nontrivial"] = len(distinct)
    ctx.cov["exhaustive"] = True
    ctx.cov["rule"] = (f"corpus ({len(corpus)}) + the complete family workspace-option({len(WS_KINDS)}) x relation/input-kind(16-18) x "
                       f"prepopulated x force (+mock for two relations) = {len(family)} placements (exhaustive for that family) + "
                       f"the flag family: {len(FLAG_SETS)} flag/language sets (-I with C/C++ inputs and a stub clang, --strict-parse-mode, "
                       f"--incremental incl. second and third runs over the same workspace, language mixes) x 5 workspace options x 5 input "
                       f"sets x prepopulated = {len(flagfam)} placements, judged by the snapshot oracle only + "
                       f"{n_rand} random placements (random tree of <=8 nodes with links, names containing the default name, random "
                       "workspace option and 1-3 inputs drawn from the tree); each is run in-process through the real ArgsParser, "
                       "set_workspace_dir, update_lang_config and WorkspaceBuilder.run in a fresh scratch tree; non-trivial = distinct "
                       "placement in which at least one file was copied or something was deleted")
    ctx.cov["outcomes"] = stats
    ctx.cov["fragment"] = dict(fragment, predicate="LianVerif.Workspace.inFragment (decidable hypothesis of the *_partial theorems), evaluated by lvdrv on every placement")
    ctx.cov["correspondence"] = {"compared": len(cases) - fragment["oracle_only_flagged"] - fragment["cwd_deleted_oracle_only"],
                                 "oracle_only": fragment["oracle_only_flagged"] + fragment["cwd_deleted_oracle_only"],
                                 "differences": len(corr_breaks),
                                 "model": "LianVerif.Workspace.prepare Variant.live"}

    # 4. frozen model still reproduces the pinned behaviour on the corpus witnesses (model side only)
    pinned_reqs = [dict(r["request"], variant="pinned") for c, r in pinned_pairs]
    pinned_out = drv_ok(drv_batch(pinned_reqs)) if pinned_reqs else []
    pinned_bad = []
    for (c, r), o in zip(pinned_pairs, pinned_out):
        exp = c["pinned_expect"]
        okp = True
        if "status" in exp and status_class(o["status"]) != exp["status"]:
            okp = False
        for p in exp.get("deleted", []):
            if any(e[0] == subst(p, r["root"]) for e in o["fs"]):
                okp = False
        if not okp:
            pinned_bad.append(c["name"])
    ctx.cov["frozen_model_witnesses"] = {"checked": len(pinned_reqs), "not_reproduced": pinned_bad}

    # 5. complete runs as subprocesses (oracle only)
    from concurrent.futures import ThreadPoolExecutor
    scs = subprocess_cases(tier)
    with ThreadPoolExecutor(max_workers=8) as ex:
        sub_res = list(ex.map(lambda a: subprocess_run(a[1], a[0]), enumerate(scs)))
    ctx.cov["subprocess_runs"] = sub_res
    ctx.cov["evaluations"] += len(sub_res)
    sub_failing = []
    for c, r in zip(scs, sub_res):
        if r["viols"]:
            if r["known"] and r["known"] in open_ids:
                ctx.known(r["known"], f"{c['name']}: {r['viols'][0]}")
            else:
                sub_failing.append((c, r))

    ctx.assumptions += [
        "workspace preparation is modelled without --incremental, --strict-parse-mode and -I; later phases (Loader, taint, dot files) are covered by the subprocess snapshot oracle only",
        "os.scandir/os.listdir order is forced to sorted in the in-process runs (the OS leaves it unspecified)",
        "file-system model: no permissions, hard links, special files, PATH_MAX; ASCII file names",
    ]

    # ---- verdicts
    # a verdict must be reproducible: preparation is deterministic, so a violation that does not show up again
    # on a fresh copy of the same placement is an accident of the environment (e.g. somebody else removing
    # /var/tmp/lv-* while we run), i.e. a harness error (exit 2), never a VIOLATION.
    def still_fails(c):
        r = eval_real(c)
        return bool(r["viols"]) and not (r["known"] and r["known"] in open_ids)
    confirmed = [(c, r) for c, r in failing[:5] if still_fails(c)]
    if failing and not confirmed:
        raise RuntimeError(f"{len(failing)} oracle violation(s) did not reproduce on re-evaluation "
                           f"(first: {failing[0][0]['name']}: {relativise(failing[0][1]['viols'], failing[0][1]['root'])}) "
                           "— environment disturbed; no verdict")
    failing = confirmed
    if sub_failing:
        again = []
        for k, (c, r) in enumerate(sub_failing[:3]):
            r2 = subprocess_run(c, 900 + k)
            if r2["viols"] and not (r2["known"] and r2["known"] in open_ids):
                again.append((c, r2))
        if not again and not failing:
            raise RuntimeError(f"subprocess violation did not reproduce: {sub_failing[0][1]['case']} {sub_failing[0][1]['viols']}")
        sub_failing = again
    if failing:
        case, rec = failing[0]
        def fails(c):
            try:
                r = eval_real(c)
            except Exception:
                return False
            return bool(r["viols"]) and not (r["known"] and r["known"] in open_ids)
        small = shrink_case(case, fails)
        r2 = eval_real(small)
        ctx.violation({"what": "snapshot oracle: the real workspace preparation violates C18",
                       "mode": "inproc", "case": small,
                       "violations": relativise(r2["viols"], r2["root"]), "status": r2["status"],
                       "failing_placements_in_run": len(failing)})
    elif sub_failing:
        c, r = sub_failing[0]
        ctx.violation({"what": "snapshot oracle: a complete lian run violates C18", "mode": "subprocess",
                       "case": c, "violations": r["viols"], "status": r["status"]})
    elif corr_breaks or new_sites or prim_diffs or pinned_bad or not proofs_ok or fragment["violations_inside"] \
            or fragment["runaway_despite_termination_theorem"]:
        what = []
        detail = {}
        if corr_breaks:
            case, rec, rep, d = corr_breaks[0]
            what.append("correspondence real vs model broken")
            detail["correspondence"] = {"model": "LianVerif.Workspace.prepare Variant.live", "first_difference": d,
                                        "case": relativise(case, rec["root"]), "real_status": rec["status"],
                                        "model_status": rep["status"], "differences_in_run": len(corr_breaks)}
        if new_sites:
            what.append("new write site in src/lian not covered by the inventory")
            detail["new_write_sites"] = [list(s) for s in new_sites]
        if prim_diffs:
            what.append("Spec/Fs.lean disagrees with os.path")
            detail["fs_reference"] = prim_diffs[:5]
        if pinned_bad:
            what.append("frozen model no longer reproduces a recorded witness")
            detail["frozen"] = pinned_bad
        if fragment["runaway_despite_termination_theorem"]:
            what.append("a placement satisfying the hypotheses of C18_copy_terminates_partial ran away (theorem vs code)")
        if fragment["violations_inside"]:
            what.append("a placement inside the proved fragment changed something outside the workspace (theorem vs code)")
        if not proofs_ok:
            what.append("proof obligation broken")
        ctx.violation(dict({"what": "; ".join(what) + " — the snapshot oracle found no violating placement among all placements of this run",
                            "broken_theorems": ctx.audit["failures"]}, **detail), no_input=True)


def replay(rp):
    common.use_repo()
    if "case" not in rp:
        print(json.dumps({"note": "no concrete input recorded (proof / correspondence break)"}))
        return 1
    case = rp["case"]
    case.setdefault("mock", None)
    open_ids = {f["id"] for f in json.load(open(os.path.join(common.VERIF, "known_findings.json")))["findings"]
                if f["property"] == "C18" and f.get("status") == "open"}
    if rp.get("mode") == "subprocess":
        r = subprocess_run(case, 0)
        print(json.dumps(r))
        return 1 if r["viols"] and not (r["known"] in open_ids) else 0
    r = eval_real(case)
    print(json.dumps({"status": r["status"], "violations": relativise(r["viols"], r["root"]), "known": r["known"]}))
    return 1 if r["viols"] and not (r["known"] in open_ids) else 0
