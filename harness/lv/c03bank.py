"""Construct banks for C03 (tie b): hand-written snippets per language, declaration-position x
expression templates, depth/width stress programs and numeric-literal forms.

The generators are *coverage driven*: c03.py measures, per language, which tree-sitter node types
with a handler in the live Parser dispatch tables were actually dispatched by the inputs of a run and
reports the rest under `uncovered`; the banks below were grown against that report.

Every item is (name, source text).  `items(lang, rng, tier)` returns the items for one run: all of
them in thorough, a seed-rotated subset in quick.
"""
import itertools

# --------------------------------------------------------------------------------------------------
# expressions that need evaluation statements (not a literal, not a bare identifier) + two that do not
# --------------------------------------------------------------------------------------------------
EXPR = {
    "python": ["f(1)", "a.b", "a[0]", "a + b", "(lambda: 1)", "[i for i in y]", "f\"{x}\"", "(a if b else c)", "a.b(c)[d]",
               "{1: f(2)}", "not a", "-a", "(a, *b)", "a < b < c", "a and f(b)", "(x := 5)", "{*a}", "g(*a, **k)", "a[1:2]",
               "\"lit\"", "IDENT"],
    "javascript": ["f(1)", "a.b", "Symbol.iterator", "make(\"x\")", "a + b", "`t${x}`", "(a ? b : c)", "new K()", "a?.b", "(x = 1)",
                   "(() => 1)()", "typeof a", "a[0]", "{p: f(1)}", "[f(1), 2]", "a++", "-a", "function(){ return 1; }", "class {}",
                   "a.b.c(d)", "await0(p)", "\"lit\"", "IDENT"],
    "java": ["f(1)", "a.b", "a[0]", "a + b", "(a ? b : c)", "new K()", "a.b(c).d", "(int) a", "new int[]{f(1)}", "K.class",
             "a instanceof K", "() -> 1", "K::m", "-a", "a++", "\"s\" + a", "new K() { int z = f(2); }", "\"lit\"", "IDENT"],
    "php": ["f(1)", "$a->b", "$a[0]", "$a + $b", "($a ? $b : $c)", "new K()", "K::m()", "K::$s", "\\App\\g(1)", "$a ?? f(2)",
            "fn($x) => $x + 1", "function() { return 1; }", "[f(1), 2]", "$a?->b", "-$a", "\"s{$a}\"", "K::C", "\\App\\K::C", "\"lit\"", "1 + 2"],
    "c": ["f(1)", "a.b", "a[0]", "a + b", "(a ? b : c)", "p->q", "(int) a", "sizeof(a)", "*p", "&a", "a++", "-a", "(a, b)", "f(g(1))",
          "\"lit\"", "IDENT", "1 + 2"],
    "go": ["f(1)", "a.b", "a[0]", "a + b", "K{p: 1}", "&K{}", "func() int { return 1 }()", "a.b(c)", "[]int{f(1)}", "*p", "-a", "<-ch",
           "a[1:2]", "int(a)", "a.(K)", "\"lit\"", "IDENT", "1 + 2"],
}
EXPR["typescript"] = EXPR["javascript"] + ["a as K", "a!", "<K>a", "a satisfies K"]

# positions at declaration level where an expression occurs; {E} is replaced
POS = {
    "python": [
        "@{E}\ndef m(self): pass", "@{E}\nclass D: pass", "def m(self, a={E}): pass", "def m(self, a: {E}) -> {E}: pass",
        "class D({E}): pass", "class D(metaclass={E}): pass", "x = {E}", "x: {E} = 1", "x: int = {E}", "def m(self, *a, k={E}, **kw): pass",
        "async def m(self, a={E}): return a", "def m(self):\n    return {E}", "m = lambda a={E}: a", "x, y = {E}, 2", "x += {E}",
        "if {E}:\n    z = 1", "for q in {E}:\n    pass", "with {E} as w:\n    pass", "assert {E}", "del x[{E}]", "try:\n    pass\nexcept {E}:\n    pass",
        "def m(self, a={E}):\n    class L({E}):\n        def n(self, b={E}): pass",
    ],
    "javascript": [
        "[{E}]() {}", "static [{E}]() {}", "*[{E}]() {}", "get [{E}]() { return 1; }", "set [{E}](v) {}", "async [{E}]() {}",
        "async *[{E}]() {}", "[{E}] = 1;", "static [{E}] = 2;", "x = {E};", "static x = {E};", "static { this.z = {E}; }", "m(a = {E}) {}",
        "#p = {E};", "m({a = {E}}) {}", "m([a = {E}]) {}", "'s'() { return {E}; }", "1() { return {E}; }",
    ],
    "java": [
        "int x = {E};", "static int y = {E};", "static { z = {E}; }", "{ z = {E}; }", "@A({E}) void m() {}", "@A(v = {E}) int w;",
        "void m() { int q = {E}; }", "K(int a) { this({E}); }", "int[] arr = { {E} };", "final Object o = {E};",
    ],
    "php": [
        "public $x = {E};", "const X = {E};", "public static $y = {E};", "function m($a = {E}) {}", "#[A({E})] function m() {}",
        "function m(): void { $q = {E}; }", "public function __construct(private $p = {E}) {}", "static function s() { return {E}; }",
        "abstract function ab(int $a = {E});",
    ],
    "c": [
        "int x = {E};", "int arr[] = { {E} };", "struct S s = { .p = {E} };", "int g(void) { return {E}; }", "enum En { A = {E} };",
        "int arr2[{E}];", "struct B { int x : {E}; };", "static int y = {E};", "int (*fp)(int) = {E};",
    ],
    "go": [
        "var x = {E}", "const C = {E}", "var (\n\tx1 = {E}\n\ty1 = 2\n)", "var arr = [...]int{{E}}", "func g() int { return {E} }",
        "var m = map[string]int{\"k\": {E}}", "func (k K) mm(a int) int { return {E} }", "var s = struct{ p int }{ {E} }", "var arr2 [{E}]int",
        "func init() { _ = {E} }",
    ],
}
POS["typescript"] = POS["javascript"] + ["@dec({E}) m() {}", "x: number = {E};", "m(a: number = {E}): void {}", "readonly r = {E};",
                                          "declare d: number;", "abstract ab(a = {E}): void;", "m<T extends K>(a: T = {E}) {}"]

# how a member text is placed: top level / class / nested class / interface-like / namespace-like / function
CTX = {
    "python": ["{M}", "class C:\n{M4}", "class C:\n    class N:\n{M8}", "def fn():\n{M4}", "class C:\n    def fn(self):\n{M8}",
               "if True:\n{M4}", "class C:\n    if True:\n{M8}"],
    "javascript": ["class C {\n{M}\n}", "class C extends B {\n{M}\n}", "var o = class {\n{M}\n};", "class C { static N = class {\n{M}\n}; }",
                   "function fn() { return class {\n{M}\n}; }", "export default class {\n{M}\n}"],
    "java": ["class C {\n{M}\n}", "class C { class N {\n{M}\n} }", "class C { static class N {\n{M}\n} }", "enum En { A, B;\n{M}\n}",
             "interface I { class N {\n{M}\n} }", "class C { void fn() { class L {\n{M}\n} } }", "record R(int a) {\n static int sy = 1;\n}"],
    "php": ["<?php\nclass C {\n{M}\n}", "<?php\nnamespace A\\B;\nclass C {\n{M}\n}", "<?php\nnamespace A\\B {\nclass C {\n{M}\n}\n}",
            "<?php\ntrait T {\n{M}\n}", "<?php\nabstract class C extends \\App\\P implements \\App\\I {\n{M}\n}",
            "<?php\n$o = new class {\n{M}\n};", "<?php\nfinal class C {\n use \\App\\T;\n{M}\n}"],
    "c": ["{M}", "void fn(void) {\n{M}\n}"],
    "go": ["package main\n{M}", "package main\nfunc fn() {\n\ttype K struct{}\n}\n{M}"],
}
CTX["typescript"] = CTX["javascript"] + ["abstract class C {\n{M}\n}", "namespace NS { export class C {\n{M}\n} }",
                                          "declare module 'm' { class C {\n{M}\n} }"]


def _indent(text, n):
    return "\n".join(" " * n + l if l else l for l in text.split("\n"))


def templates(lang):
    """all context x position x expression instances"""
    out = []
    for ci, ctx in enumerate(CTX.get(lang, [])):
        for pi, pos in enumerate(POS.get(lang, [])):
            for ei, e in enumerate(EXPR.get(lang, [])):
                if lang == "c" and ci == 1 and pi in (3, 4, 6):          # no nested functions / keep it valid-ish
                    continue
                m = pos.replace("{E}", e)
                src = ctx.replace("{M8}", _indent(m, 8)).replace("{M4}", _indent(m, 4)).replace("{M}", m)
                out.append((f"t{ci}_{pi}_{ei}", src + "\n"))
    return out


# --------------------------------------------------------------------------------------------------
# hand-written snippets (constructs the corpora and the small program generator do not reach)
# --------------------------------------------------------------------------------------------------
SNIPPETS = {
    "python": [
        "import os.path; total = 2 ** 10\n",
        "import os.path, a.b.c as d; x = (1\n + 2); y = [0] * 3\n",
        "import a.b\nfrom . import c\nfrom ..p.q import (r as s, t)\nfrom m import *\nimport x.y.z as w; w.f(a.b)\n",
        "x = 1; y = 2; z = x + y\nif x: y = 1; z = 2\n",
        "def gen():\n    yield 1\n    yield from other()\n    x = yield\n    return x\n",
        "async def co():\n    async with a as b, c as d:\n        await b.f()\n    async for i in it:\n        pass\n    return [await q async for q in w]\n",
        "class P:\n    @property\n    def v(self): return self._v\n    @v.setter\n    def v(self, x): self._v = x\n    @staticmethod\n    def s(a, /, b, *, c): pass\n    @classmethod\n    def c(cls): return cls()\n",
        "def f(a, b=1, *args, c, d=2, **kw): pass\nf(1, *x, c=3, **y)\n",
        "match cmd:\n    case [1, 2, *rest]:\n        pass\n    case {'k': v, **o}:\n        pass\n    case P(x=1) | Q():\n        pass\n    case str() as s if s:\n        pass\n    case _:\n        pass\n",
        "try:\n    pass\nexcept* (A, B) as e:\n    raise X from e\nelse:\n    pass\nfinally:\n    pass\n",
        "with open(a) as f, open(b) as g:\n    pass\nwith (yield):\n    pass\n",
        "x = [a for a in b if a for c in d]\ny = {k: v for k, v in z.items()}\nw = {e for e in f}\ng = (h for h in i)\n",
        "a = b = c = 1\na, (b, c) = 1, (2, 3)\n*a, b = x\na[0], b.c = 1, 2\na += 1; b -= 1; c *= 2; d /= 2; e //= 2; f %= 2; g **= 2; h >>= 1; i <<= 1; j &= 1; k ^= 1; l |= 1; m @= n\n",
        "global g1\ndef o():\n    x = 1\n    def i():\n        nonlocal x\n        global g1, g2\n        x = 2\n",
        "n = [0x1F, 0b101, 0o17, 1e10, 1_000, .5, 5., 1j, 0xFFFFFFFFFFFFFFFFFFFFFFFF, 1e400, 1E-5, 0XaB, 00, 1_0.0_1e+1_0]\n",
        "s = ['a' 'b', r'\\d', b'x', f'{a!r:>{w}}', '''t\nq''', u'u', rb'\\x', f'{{}}', f\"{x = }\", '\\N{DASH}\\x41\\u1234\\101']\n",
        "x = a if b else c if d else e\ny = lambda *a, **k: (a, k)\nz = not a or b and c\nw = a < b <= c != d is not e not in f\nv = ~a ^ b | c & d << e >> f\n",
        "print(a)[0].b(c)(d)[e:f:g][..., 1]\nx = a[1:, ::2, None]\ndel a[0], b.c\nassert x, 'm'\nraise\n",
        "type Alias[T] = list[T]\ndef gf[T: int, *Ts, **P](a: T) -> T: return a\nclass G[T](Base[T]): pass\n",
        "while a:\n    if b: continue\n    break\nelse:\n    pass\nfor i, (j, k) in e:\n    pass\nelse:\n    pass\n",
        "class A:\n    x: int\n    y: 'A' = None\n    __slots__ = ('x',)\n    def __init__(self): self.x: int = 1\n    class Meta(Base.Meta): ordering = [f('a')]\n",
        "if (n := len(a)) > 1: print(n)\nprint(*a, sep='')\nexec('x')\n@a\n@b.c(d)\nclass K: pass\n",
        "x = 1 if True else 2\n\n\n# c\n\"\"\"doc\"\"\"\npass\n...\n",
        "def f():\n    \"\"\"doc\"\"\"\n    return\nlambda: (yield)\n",
        "class A(B, metaclass=M, k=f(1)):\n    a, b = 1, 2\n    [c, d] = e\n    for i in range(3): z = i\n    while False: pass\n    try: q = 1\n    except: q = 2\n    with o as p: r = p\n    del a\n    import os.path\n    from m import n\n    def m(self): pass\n    lam = lambda self: 1\n",
    ],
    "javascript": [
        '@dec(1) class A { @m(2) x() {} @n y = 1; @p.q(3) static z() {} }\nexport @d2(4) class B {}\n',
        "class A { *[Symbol.iterator]() {} static [make('x')]() {} get [k.l]() { return 1; } ['lit']() {} [IDENT]() {} }\n",
        "class B extends mix(A, C) { constructor(...a) { super(...a); } #p = 1; static #s; get v() { return this.#p; } set v(x) { this.#p = x; } static { B.q = 1; } }\n",
        "function* g() { yield 1; yield* h(); const x = yield; return x; }\nasync function* ag() { for await (const x of y) yield x; }\n",
        "const {a, b: {c = f(1)}, ...r} = o; let [d, , e = 2, ...s] = arr; var x = 1, y;\n",
        "const o = {a, [k + 1]: 2, get g() { return 1; }, set g(v) {}, m() {}, *gen() {}, async am() {}, ...rest, 'q': 1, 2: 3, async *[z()]() {}};\n",
        "label: for (let i = 0, j = 1; i < 3; i++, j--) { if (i) continue label; else break label; }\nfor (const k in o) ;\nfor (var v of a) {}\ndo x++; while (x < 3)\n",
        "switch (x) { case 1: case f(2): y = 1; break; default: y = 2; case 3: }\ntry { t(); } catch { c(); } finally { f(); }\ntry { t(); } catch ({message}) {}\nwith (o) { p = 1; }\n",
        "x = a ? b : c ? d : e; y = a ?? b; z = a?.b?.[c]?.(d); a ||= 1; b &&= 2; c ??= 3; d **= 2; e >>>= 1; f = -a + +b - ~c * !d; typeof a; void 0; delete o.p; a in b; a instanceof B;\n",
        "const t = `a${b}c${`n${d}`}`; tag`x${y}`; const r = /a[/]b/gi; const n = [0x1F, 0b101, 0o17, 1e10, 1_000, .5, 5., 10n, 0xFFFFFFFFFFFFFFFFFFFFFFn, 1e400, 017];\n",
        "import d, {a as b, c} from './m.js'; import * as ns from 'n'; import 'side'; export {b as bb}; export * from 'p'; export default function () {}; export const z = 1, w = f(2);\n",
        "const f1 = async (a, b = 1, ...c) => { await a; }; const f2 = x => x * 2; const f3 = function named() {}; (function iife() {})(); new.target; import.meta;\n",
        "a = 1; b = 2; c = a + b\nif (a) b = 1; else c = 2\n;;\n{ let q = 1; }\nthrow new Error('e');\ndebugger;\n",
        "var C2 = class Named extends (a, B) { static x = f(1); [`k${i}`] = 2; static async *[g()]() {} };\n",
        "function f(a, {b, c} = {}, [d] = [], ...rest) { return arguments.length; }\nf(...args, 1)(2)`t`.p[q]++;\n--x; x--;\nx = (1, 2, 3);\n",
        "class A { static m() { return class { [super.x]() {} }; } }\nclass E extends null {}\nclass F extends A.B.C {}\nclass G extends f(1) { m(a = super.z) {} }\n",
    ],
    "java": [
        'class Rv { void m(Rv this, int a) {} class In { In(Rv Rv.this) {} } int x, y = 2, z[] = {1}; void n() { int a, b = 1; for (int i = 0, j = 1;;) { break; } } }\n',
        "package p.q;\nimport java.util.*;\nimport static java.lang.Math.max;\n@interface An { int v() default 1; String[] s() default {\"a\", \"b\"}; Class<?> c() default Object.class; E e() default E.A; }\n",
        "enum E { A(1) { int f() { return g(2); } }, B(h(3)), C; final int v; E() { this(0); } E(int v) { this.v = v; } int f() { return v; } static { init(); } }\n",
        "interface I<T extends Comparable<T>> extends J, K.L { int C = f(1); default T m(T a) { return a; } static void s() {} private void p() {} <U> U g(U u); class N { int w = h(2); } }\n",
        "record R<T>(int a, T b) implements I { R { if (a < 0) throw new X(); } static int s = f(1); int m() { return a; } R(int a) { this(a, null); } }\n",
        "class G<T, U extends List<? super T>> { <V> V m(List<? extends V> l, int... v) throws E1, E2 { return null; } int[][] arr = new int[f(1)][]; T[] g = (T[]) new Object[2]; }\n",
        "class S { int m(Object o, int x) { return switch (x) { case 1, 2 -> f(1); case 3 -> { yield g(2); } default -> 0; }; } void n(Object o) { if (o instanceof String s && s.length() > 0) {} switch (o) { case Integer i when i > 0 -> {} default -> {} } } }\n",
        "class L { Runnable r = () -> f(1); Function<Integer, Integer> g = x -> x + 1; BiFunction<Integer, Integer, Integer> h = (a, b) -> { return a + b; }; Supplier<L> s = L::new; Object o = new Object() { int z = f(2); void m() {} }; }\n",
        "class T { void m() throws Exception { try (var a = open(); var b = f(a)) { g(); } catch (E1 | E2 e) { throw e; } finally { h(); } synchronized (this) { x++; } assert x > 0 : \"m\"; outer: for (;;) { for (int i = 0, j = 1; i < 2; i++, j--) { continue outer; } break outer; } do { x--; } while (x > 0); for (var e : list) {} } }\n",
        "class N { long[] n = {0x1F, 0b101, 017, 1_000L, 0xFFFFFFFFFFFFFFFFL}; double[] d = {1e10, .5, 5., 1e400, 0x1.8p1, 1f, 2D}; char c = '\\u0041'; String t = \"\"\"\n  text \\\"q\\\" block\n  \"\"\"; String s = \"a\" + 1 + 'c'; }\n",
        "class O { int x = 1; { x = f(2); } static int y; static { y = g(3); } O() { this(1); } O(int a) { super(); this.x = a; } class In { int z = O.this.x; } static class SN {} void m() { class Loc { int q = f(4); } new Loc(); this.new In(); } }\n",
        "class X { int a = 1, b = f(2), c[] = {3}; void m() { int i = 0; i += 1; i <<= 2; i >>>= 1; i = i > 0 ? i : -i; boolean z = !(i == 0) && i != 1 || i >= 2; i = (int) 3.0 + ~i % 2; Object o = (Runnable & Serializable) () -> {}; var v = new ArrayList<Map<String, int[]>>(); v.get(0).get(\"k\")[1]++; } }\n",
        "@SuppressWarnings({\"a\", \"b\"}) @Dep(since = \"1\" + V.X, forRemoval = f(1) > 0) public abstract sealed class An permits B, C { @Override public String toString() { return null; } abstract void ab(); native void nat(); }\nfinal class B extends An { void ab() {} }\nnon-sealed class C extends An { void ab() {} }\n",
        "module m.n { requires java.base; exports p.q; }\n",
        "class Y { void m() { ; ;; { } if (a) b(); else if (c) d(); else e(); while (f()) g(); return; } int n() { throw new E(\"x\" + f(1)); } }\n",
    ],
    "php": [
        "<?php\nfunction nv(): never { exit; }\nfunction it(A&B $x, (A&B)|null $y): true|false { return true; }\ninclude_once 'a.php'; require_once('b.php'); include 'c.php'; require 'd.php';\n$t = true; $f = false; $n = null; $i = (int) '1';\nclass S2 extends P { function m() { return parent::m() + $this->x + self::C + static::f(); } }\n$an = function() {}; $ac = new class {};\n",
        "<?php\nclass A { function m(): \\App\\X { return new \\App\\X(); } function n(?\\B\\C $p, int|\\D\\E $q = null, self ...$r): static|null {} public ?\\F\\G $prop = null; }\n",
        "<?php\nnamespace A\\B;\nuse C\\D as E, F\\G;\nuse function H\\i;\nuse const J\\K;\nuse L\\{M, N as O, function p};\n$x = new E(); i(K);\nfunction f() { return \\strlen('a'); }\n",
        "<?php\nnamespace A { const X = 1; function f() {} class C {} $a = f(); }\nnamespace { echo \\A\\X; }\n",
        "<?php\nenum Suit: string implements I { case H = 'h'; case S = 's' . 'x'; const D = self::H; public function l(): string { return match($this) { self::H => 'r', self::S, self::D => f(1), default => 'b' }; } public static function f(): self { return self::H; } }\n",
        "<?php\ninterface I extends J, \\K\\L { const C = 1 + 2; public function m(int $a = self::C): ?array; public static function s(); }\ntrait T { public $p = [1, 2]; abstract function ab(); static function st() { return static::class; } }\nclass U { use T, V { T::st insteadof V; V::x as protected y; } }\n",
        "<?php\n$f = function($a) use ($b, &$c) { return $a + $b; };\n$g = fn($x) => fn($y) => $x + $y;\n$h = strlen(...);\n$o = new class(1, f(2)) extends P implements I { public function __construct(public readonly int $a = 1, private $b = null) {} };\n",
        "<?php\n$s = <<<EOT\nhi {$a->b} $c[0] ${d}\nEOT;\n$n = <<<'N'\nraw $x\nN;\n$t = \"a{$b['k']}c$d->e\"; $u = `ls $v`; $w = 'it''s';\n",
        "<?php\n$n = [0x1F, 0b101, 017, 0o17, 1e10, 1_000, .5, 5., 0xFFFFFFFFFFFFFFFFFFFF, 1e400, PHP_INT_MAX]; list($a, list($b, $c)) = $n; [$d, 'k' => $e] = $n; [, $f] = $n;\n",
        "<?php\nif ($a): echo 1; elseif ($b): echo 2; else: echo 3; endif;\nwhile ($a): $a--; endwhile;\nfor ($i = 0, $j = 1; $i < 3; $i++, $j--): endfor;\nforeach ($a as $k => &$v): endforeach;\nswitch ($a): case 1: break; default: endswitch;\n",
        "<?php\ntry { f(); } catch (A | \\B\\C $e) { throw $e; } catch (D) {} finally { g(); }\ngoto end; end: echo 1;\ndeclare(strict_types=1);\ndeclare(ticks=1) { f(); }\nglobal $g1, $g2; static $s1 = 1, $s2;\nunset($a, $b[0]); isset($a, $b->c); empty($a); exit(1);\n",
        "<?php\n$a = $b ?: $c; $d = $e ?? $f ?? g(); $h ??= 1; $i **= 2; $j .= 'x'; $k <=> $l; $m = !$n && $o || $p xor $q and $r or $s; $t = (int)$u + (array)$v; $w = clone $x; $y = $z instanceof \\A\\B; $aa = @f(); $bb = &$cc; $dd = print 'x'; $$ee = 1; ${'f' . 'g'} = 2; $hh->$ii = 3; $jj::$kk = 4; $ll->{$mm . 'n'}();\n",
        "<?php\nfunction gen() { yield 1; yield 'k' => 2; $x = yield; yield from other(); return 3; }\nfunction &ref(array &$a, ...$rest): iterable { return $a; }\nf(a: 1, b: g(2)); f(...$args); A::{$m}(); $o?->p?->q(); new (f())(); static fn() => 1;\n",
        "<?php\n#[Attr(1, name: f(2)), \\Ns\\Other]\nclass WithAttr { #[Inject] public $p; #[Route('/x', methods: ['GET'])] function m(#[SensitiveParameter] $a) {} const #[Dep] X = 1; }\n#[Pure] function pf() {}\n$c = #[A] fn() => 1;\n",
        "<?php\nabstract class Ab { abstract protected function a(); final public const X = 'x'; public static int $count = 0; private readonly array $arr; var $old = 1; function __get($n) { return $this->$n; } static function make(): static { return new static(); } function __destruct() {} }\n",
        "<?php echo 1 ?><p>html <?= $x ?></p><?php if ($a): ?>yes<?php endif; ?>\n<?php $a = 1; $b = 2; echo $a, $b; print($a); ?>",
    ],
    "c": [
        '#include <stdbool.h>\n#include <stddef.h>\nbool t = true, f = false; void *np = NULL; struct S { int x; };\nint g = _Generic(1, int: 1, default: 2); size_t o = offsetof(struct S, x);\nvoid sl(int x) { __try { __leave; } __finally { } switch (x) { case 1: [[fallthrough]]; case 2: break; } void *q = nullptr; }\n',
        "int a = 1, *b = &a, c[3] = {1, 2, 3}, d[] = {[1] = 4, [0] = f(5)};\nstruct P { int x, y; struct { int z; } in; union { int u; float v; }; unsigned bf : 3, : 0, bg : 1; } p = { .x = 1, .in.z = g(2), {3} };\n",
        "typedef struct N { struct N *next; int (*cmp)(const void *, const void *); } N, *NP;\ntypedef int (*fp_t)(int, ...);\nenum E { A, B = 2, C = B << 1, D = sizeof(int) };\ntypedef enum { X1 } anon_e;\n",
        "int f(int argc, char *argv[], ...) { va_list ap; va_start(ap, argv); int i = va_arg(ap, int); va_end(ap); return i; }\nstatic inline int g(void) { return 0; }\nextern int h(int n, int a[n]);\nint k(a, b) int a; char b; { return a; }\n",
        "void s(int x) { switch (x) { case 1: case 2: x++; break; case 3 ... 5: x--; default: ; } goto out; out: return; }\nvoid l(void) { for (;;) { break; } for (int i = 0, j = 1; i < 2; i++, j--) continue; do { } while (0); while (1) if (f()) break; else continue; }\n",
        "void e(void) { int a = (int) 1.5 + sizeof(struct P) + sizeof a + _Alignof(int); int *p = (int[]){1, 2}; struct P q = (struct P){ .x = 1 }; a = a ? a : -a; a = (a, a + 1); a <<= 1; a |= ~a & a ^ !a; p++; --*p; (*p)--; a = p[1] + *(p + 2) + (&q)->x + q.in.z; }\n",
        "#include <stdio.h>\n#define M(x) ((x) + 1)\n#define S \"s\"\n#ifdef A\nint ia;\n#elif defined(B)\nint ib;\n#else\nint ic;\n#endif\n#pragma once\nconst char *s = \"a\" \"b\" S; char c = '\\n', d = '\\x41', e = L'w'; long n[] = {0x1F, 0b101, 017, 1e10, .5, 5., 1UL, 0xFFFFFFFFFFFFFFFFULL, 1.0f, 1e400, 0x1.8p1};\n",
        "_Static_assert(sizeof(int) == 4, \"m\");\n__attribute__((noreturn)) void die(void);\nint arr2[M(2)][3];\nvolatile const unsigned long long int *restrict vp;\n_Bool b1; _Complex double cd;\nstruct F { int n; char data[]; };\nint (*af[3])(void);\nint (*(*ff)(int))[5];\n",
        "int main(void) { __try { f(); } __except (1) { g(); } __try { h(); } __finally { k(); } __asm__ volatile (\"nop\" : : : \"memory\"); return 0; }\n",
        "int x; int x; ; ;; int y = 1; int g1(void) { { { int z; } } label: ; if (x) ; else ; return 0; }\nint t = 1 ? 2 : 3 ? 4 : 5;\n",
    ],
    "go": [
        'package main\n\ntype Num interface{ ~int | ~float64 }\n\nfunc Sum[T ~int | ~float64, U interface{ int | string }](a T, b (int), c *(int)) T { return a }\n\nvar bt, bf = true, false\nvar pt (int)\nvar np = nil\n',
        "package main\n\nimport (\n\t\"fmt\"\n\tm \"math\"\n\t. \"strings\"\n\t_ \"os\"\n)\n\nconst (\n\tA = iota\n\tB\n\tC = 1 << iota\n\tD, E = f(1), \"s\"\n)\n\nvar (\n\tx, y int = 1, g(2)\n\tz = []int{h(3)}\n)\n",
        "package main\n\ntype S struct {\n\ta, b int `json:\"a\"`\n\tE\n\t*P\n\tf func(int) (int, error)\n\tg map[string][]chan<- int\n\th [f(1)]int\n\ti struct{ j int }\n\tk interface{ M() }\n}\n\ntype I interface {\n\tJ\n\tM(a int, b ...string) (r int, err error)\n\t~int | ~string\n}\n\ntype G[T any, U comparable] struct{ v T }\n\ntype A1 = int\ntype (\n\tB1 int\n\tC1 []B1\n)\n",
        "package main\n\nfunc (s *S) M(a, b int, c ...string) (r int, err error) {\n\tdefer func() { recover() }()\n\tgo s.f(1)\n\tselect {\n\tcase v := <-ch:\n\t\t_ = v\n\tcase ch2 <- f(1):\n\tcase <-done:\n\t\treturn\n\tdefault:\n\t}\n\treturn\n}\n\nfunc Gen[T any](x T) T { return x }\n",
        "package main\n\nfunc c() {\n\tswitch x := f(); {\n\tcase x > 1, x < 0:\n\t\tfallthrough\n\tcase g(x):\n\tdefault:\n\t}\n\tswitch v := i.(type) {\n\tcase int, string:\n\t\t_ = v\n\tcase nil:\n\tcase []T:\n\t}\nouter:\n\tfor i, j := 0, 1; i < 2; i, j = i+1, j-1 {\n\t\tfor k, v := range m {\n\t\t\t_, _ = k, v\n\t\t\tcontinue outer\n\t\t}\n\t\tfor range ch {\n\t\t\tbreak outer\n\t\t}\n\t\tfor {\n\t\t\tgoto end\n\t\t}\n\t}\nend:\n\tif v, ok := m[k]; ok && v > 0 {\n\t} else if !ok {\n\t} else {\n\t}\n}\n",
        "package main\n\nfunc e() {\n\ta, b := 1, 2\n\ta, b = b, a\n\ta += 1\n\tb <<= 2\n\ta &^= b\n\tb++\n\ta--\n\tp := &a\n\t*p = 3\n\ts := []int{1, 2, 3}\n\t_ = s[1:2:3]\n\t_ = s[:]\n\tm := map[string]struct{ x int }{\"k\": {1}}\n\t_ = m[\"k\"].x\n\tf := func(x int) func() int { return func() int { return x } }\n\t_ = f(1)()\n\tvar i interface{} = a\n\t_ = i.(int)\n\t_ = [...]string{2: \"a\", \"b\"}\n\t_ = G[int, string]{v: 1}\n\t_ = Gen[int](1)\n\tch := make(chan int, f2(1))\n\tch <- <-ch\n\t_ = -a + ^b*3%2&1 | 4 ^ 5\n\t_ = a > b && a != b || !(a <= b)\n}\n",
        "package main\n\nvar n = []interface{}{0x1F, 0b101, 0o17, 017, 1e10, 1_000, .5, 5., 1i, 0xFFFFFFFFFFFFFFFFFFFF, 1e400, 0x1.8p1, 'a', '\\n', '\\x41', '\\u1234', \"s\\t\", `raw\n\\n`}\n\nfunc init() {}\nfunc init() { n = nil }\nfunc main() { a := 1; b := 2; _ = a + b; if a > 0 { b = 1 }; for i := 0; i < 2; i++ { b++ } }\n",
    ],
    "typescript": [
        'class P { m(): void {} } interface Q { sig(a: number): void; }\nfor (const [a, {b}] of c) { if (a) continue; x = y!; }\nlabel2: while (true) { continue label2; }\nimport al = NS.Inner;\nlet { p1, ...rest1 } = o, [q1, , r1 = 1] = arr;\n',
        "class A { *[Symbol.iterator]() {} static [make('x')]() {} get [k.l](): number { return 1; } ['lit']() {} [IDENT]() {} }\n",
        "interface I<T extends object = {}> extends J, K.L { a: number; b?: string; readonly c: T; [k: string]: any; m(x: number): void; new (x: number): I<T>; (y: string): number; get g(): number; set g(v: number); }\ntype U = A | B & C; type F = (a: number, ...r: string[]) => void; type M = { [K in keyof T]?: T[K] }; type C2 = T extends U ? X : Y; type Tp = [a: number, b?: string, ...c: boolean[]]; type L = `a${string}`; type Q = typeof x[number]['k'];\n",
        "enum E { A, B = 2, C = B << 1, D = f(1), S = 's' }\nconst enum CE { X = 1 }\ndeclare enum DE { Y }\nnamespace NS.Inner { export const v = f(1); export function g() {} export namespace Deep { let z = g(); } }\ndeclare module 'm' { export function h(): void; }\ndeclare global { interface Window { w: number; } }\n",
        "abstract class B<T> extends mix(A)<T> implements I, J { constructor(private readonly a: number, public b = f(1), protected c?: string) { super(); } abstract ab(): void; protected static override s?: number = g(2); declare d: number; accessor acc = 1; m<U>(this: B<T>, x: U, y?: number): asserts x is U {} }\n",
        "function f<T>(a: T, b?: number, c: number = g(1), ...d: T[]): T; function f(a: any): any { return a as unknown as number; }\nlet x = <number>y; let z = y!; let w = y satisfies T; let v: typeof y = y; let u = obj?.a!.b; function isS(a: any): a is string { return typeof a === 'string'; }\n",
        "@dec class D { @prop() p: number = 1; @m(f(1)) method(@param a: number) {} @acc get g() { return 1; } static @s sm() {} }\nexport default abstract class {}\nexport = D;\nimport fs = require('fs');\nimport type { T } from './t'; export type { T }; import { type U, v } from './u';\n",
        "let n: (number | bigint)[] = [0x1F, 0b101, 0o17, 1e10, 1_000, .5, 5., 10n, 1e400]; let t = `a${b}c`; let r = /x/g; let tu: [number, string] = [1, 's']; let o = { a, [k]: 1, m() {}, get g() { return 1; } } as const; for (const [k, v] of Object.entries(o)) {} label: for (;;) break label;\n",
        "const f1 = async <T,>(a: T): Promise<T> => { await a; return a; }; function* g(): Generator<number> { yield 1; yield* g(); } async function* ag() { for await (const x of y) yield x; } let un: unique symbol; let fn: new () => A; let ov = function (this: Window) {};\n",
        "class A2 { x = 1; y; static z: number; #p = f(1); static #s = g(2); static { A2.z = h(3); } constructor() { this.y = 2; this.x = this.y; } m() { this.x += 1; return this.#p; } }\n",
        "try { t(); } catch (e: unknown) { if (e instanceof Error) throw e; } finally { f(); }\nswitch (x) { case 1: case f(2): break; default: }\nwith (o) {}\ndo x++; while (x < 3);\nfor (var i in o) {}\nif (a) b = 1; else c = 2;\nthrow new Error('e');\ndebugger;\n",
    ],
    "llvm": [
        "define float @f() {\n  ret float 0x3FF0000000000000\n}\n",
        "define float @g() {\n  ret float 0x3FF00000000000001234\n}\ndefine x86_fp80 @h() {\n  ret x86_fp80 0xK4000C000000000000000\n}\ndefine double @d() {\n  ret double 0x7FF8000000000000\n}\n",
        "@g = global i32 42, align 4\n@s = private unnamed_addr constant [3 x i8] c\"hi\\00\"\n%struct.P = type { i32, float, %struct.P* }\ndeclare i32 @printf(i8*, ...)\ndefine i32 @main(i32 %argc, i8** %argv) #0 {\nentry:\n  %x = alloca i32, align 4\n  store i32 0, i32* %x, align 4\n  %0 = load i32, i32* %x, align 4\n  %cmp = icmp slt i32 %0, 10\n  br i1 %cmp, label %then, label %else\nthen:\n  %call = call i32 (i8*, ...) @printf(i8* getelementptr inbounds ([3 x i8], [3 x i8]* @s, i32 0, i32 0))\n  br label %end\nelse:\n  %add = add nsw i32 %0, 1\n  br label %end\nend:\n  %p = phi i32 [ %call, %then ], [ %add, %else ]\n  switch i32 %p, label %d [ i32 0, label %then i32 1, label %else ]\nd:\n  %f = fadd float 1.0, 0x3FB99999A0000000\n  %c = sitofp i32 %p to double\n  %sel = select i1 %cmp, i32 1, i32 2\n  ret i32 %sel\n}\nattributes #0 = { nounwind }\n",
    ],
    "ruby": [
        'x += 1 while x < 3\nx -= 1 until x < 0\nputs 1 unless y\ny = f rescue 0\n[1].each { |i| next }\nunless a then b else c end\nbegin; x += 1; end while x < 3\n',
        "class A < B::C\n  attr_accessor :x\n  X = f(1)\n  def initialize(a, b = g(2), *r, k: 1, **o, &blk)\n    @x = a\n    @@c ||= 0\n    super\n  end\n  def self.s; new(1); end\n  class << self\n    def t; end\n  end\n  module N; end\nend\n",
        "module M\n  def m(x)\n    case x\n    when 1, 2 then :a\n    when String then :b\n    else :c\n    end\n    x.each { |i| puts i }\n    x.map do |i, (j, k)|\n      next if i\n      break\n    end\n    begin\n      f\n    rescue A, B => e\n      retry\n    ensure\n      g\n    end\n    return x unless x.nil?\n    while x; x -= 1; end\n    until x; end\n    for i in 1..3 do end\n    a = b ? c : d\n    s = \"i#{x}\"\n    h = {a: 1, 'b' => 2}\n    l = ->(z) { z * 2 }\n    n = [0x1F, 0b101, 0o17, 1e10, 1_000, 1r, 2i]\n  end\nend\n",
    ],
    "smali": [
        ".class public LA;\n.super Ljava/lang/Object;\n.field private x:I\n.field public static final C:I = 0x1f\n.method public constructor <init>()V\n    .locals 1\n    invoke-direct {p0}, Ljava/lang/Object;-><init>()V\n    const/4 v0, 0x1\n    iput v0, p0, LA;->x:I\n    return-void\n.end method\n.method public static m(I)I\n    .locals 2\n    const/16 v0, 0xa\n    if-ge p0, v0, :cond_0\n    add-int/lit8 v1, p0, 0x1\n    return v1\n    :cond_0\n    invoke-static {p0}, LA;->m(I)I\n    move-result v1\n    return v1\n.end method\n",
    ],
}


# --------------------------------------------------------------------------------------------------
# depth / width stress
# --------------------------------------------------------------------------------------------------
def stress(lang, n):
    """programs whose nesting depth / chain length / statement count is n"""
    out = []
    if lang == "python":
        out.append((f"elif{n}", "def f(x):\n    if x == 0:\n        return 0\n" + "".join(f"    elif x == {i}:\n        return {i}\n" for i in range(1, n)) + "    else:\n        return -1\n"))
        out.append((f"paren{n}", "x = " + "(" * n + "1" + ")" * n + "\n"))
        out.append((f"chain{n}", "x = " + " + ".join(f"a{i}" for i in range(n)) + "\n"))
        out.append((f"nest{n}", "".join(" " * i + f"if a{i}:\n" for i in range(min(n, 90))) + " " * min(n, 90) + "pass\n"))
        out.append((f"attr{n}", "x = a" + "".join(f".b{i}" for i in range(n)) + "\n"))
        out.append((f"call{n}", "x = " + "f(" * n + "1" + ")" * n + "\n"))
        out.append((f"semi{n}", "; ".join(f"v{i} = {i}" for i in range(n)) + "\n"))
        out.append((f"args{n}", "f(" + ", ".join(f"a{i}" for i in range(n)) + ")\n" + "def g(" + ", ".join(f"p{i}=f({i})" for i in range(n)) + "): pass\n"))
        out.append((f"list{n}", "x = " + "[" * n + "]" * n + "\n"))
        out.append((f"bool{n}", "x = " + " and ".join(f"(a{i} or b{i})" for i in range(n)) + "\n"))
        out.append((f"cls{n}", "".join(" " * (4 * i) + f"class C{i}(B.q{i}):\n" for i in range(min(n, 20))) + " " * (4 * min(n, 20)) + "pass\n"))
        out.append((f"cmp{n}", "x = " + " < ".join(f"a{i}" for i in range(n)) + "\n"))
        out.append((f"lam{n}", "x = " + "lambda: " * n + "1\n"))
        out.append((f"sub{n}", "x = a" + "[0]" * n + "\n"))
    elif lang in ("javascript", "typescript", "java", "c", "php", "go"):
        v = "$" if lang == "php" else ""
        pre = {"php": "<?php\n", "go": "package main\nfunc main() {\n", "java": "class C { void m() {\n", "c": "void m(void) {\n"}.get(lang, "")
        post = {"go": "}\n", "java": "} }\n", "c": "}\n"}.get(lang, "")
        semi = "" if lang == "go" else ";"
        decl = {"java": "int ", "c": "int ", "go": "", "php": "", "javascript": "var ", "typescript": "var "}[lang]
        asg = " := " if lang == "go" else " = "
        ifc = (lambda c: f"if {c} {{") if lang == "go" else (lambda c: f"if ({c}) {{")
        out.append((f"elif{n}", pre + ifc(f"{v}x == 0") + " " + "".join("} else " + ifc(f"{v}x == {i}") + " " for i in range(1, n)) + "} else { }\n" + post))
        out.append((f"paren{n}", pre + f"{decl}{v}x{asg}" + "(" * n + "1" + ")" * n + semi + "\n" + post))
        out.append((f"chain{n}", pre + f"{decl}{v}x{asg}" + " + ".join(f"{v}a{i}" for i in range(n)) + semi + "\n" + post))
        out.append((f"nest{n}", pre + "".join(ifc(f"{v}a{i}") + "\n" for i in range(min(n, 200))) + "}\n" * min(n, 200) + post))
        acc = "->" if lang == "php" else "."
        out.append((f"attr{n}", pre + f"{decl}{v}x{asg}{v}a" + "".join(f"{acc}b{i}" for i in range(n)) + semi + "\n" + post))
        out.append((f"call{n}", pre + f"{decl}{v}x{asg}" + "f(" * n + "1" + ")" * n + semi + "\n" + post))
        out.append((f"semi{n}", pre + (" ".join(f"{v}v{i} = {i};" for i in range(n)) if lang != "go" else "; ".join(f"v{i} := {i}" for i in range(n))) + "\n" + post))
        out.append((f"args{n}", pre + "f(" + ", ".join(f"{v}a{i}" for i in range(n)) + ")" + semi + "\n" + post))
        out.append((f"tern{n}", pre + (f"{decl}{v}x{asg}" + "".join(f"{v}c{i} ? {i} : " for i in range(n)) + "0" + semi + "\n" if lang != "go" else "") + post))
        if lang in ("javascript", "typescript"):
            out.append((f"cls{n}", "".join(f"class C{i} extends f({i}) {{ static N = " for i in range(min(n, 30))) + "1" + "; }" * min(n, 30) + "\n"))
            out.append((f"arrow{n}", "var x = " + "() => " * n + "1;\n"))
            out.append((f"tmpl{n}", "var x = " + "`a${" * min(n, 200) + "1" + "}`" * min(n, 200) + ";\n"))
            out.append((f"arr{n}", "var x = " + "[" * n + "]" * n + ";\n"))
            out.append((f"obj{n}", "var x = " + "{a: " * n + "1" + "}" * n + ";\n"))
        if lang == "java":
            out.append((f"cls{n}", "".join(f"class C{i} {{ int x{i} = f({i}); " for i in range(min(n, 30))) + "}" * min(n, 30) + "\n"))
        if lang == "php":
            out.append((f"arr{n}", "<?php\n$x = " + "[" * n + "]" * n + ";\n"))
            out.append((f"concat{n}", "<?php\n$x = " + " . ".join(f"$a{i}" for i in range(n)) + ";\n"))
        if lang == "c":
            out.append((f"ptr{n}", "int " + "*" * min(n, 200) + "p;\n"))
            out.append((f"init{n}", "int a[] = " + "{" * min(n, 100) + "1" + "}" * min(n, 100) + ";\n"))
    elif lang == "llvm":
        out.append((f"hex{n}", "define float @f() {\n  ret float 0x" + "F" * min(n, 64) + "\n}\n"))
    return out


def items(lang, rng, tier):
    """(kind, name, source) triples for one run"""
    out = [("snippet", f"s{i}", s) for i, s in enumerate(SNIPPETS.get(lang, []))]
    tmpl = templates(lang)
    if tier == "quick":
        rng.shuffle(tmpl)
        tmpl = tmpl[:220]
    out += [("template", n, s) for n, s in tmpl]
    sizes = [10, 100] if tier == "quick" else [10, 100, 1000]
    if tier == "quick" and rng.random() < 0.5:
        sizes.append(1000)
    for n in sizes:
        st = stress(lang, n)
        if tier == "quick" and n == 1000:
            rng.shuffle(st)
            st = st[:5]
        out += [("stress", nm, s) for nm, s in st]
    return out
