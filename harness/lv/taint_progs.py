"""Program generator for the end-to-end part of C10 / C11 (tie d).

A generated *case* is a small Python program (1–2 files) built from a typed mini-AST:
scalar variables, objects with fields, lists, dicts, helper functions (parameters / returns, setters, getters,
closures, module-level variables), if/else, while, and 0..k source and sink sites of every rule kind.

Three projections of the same AST:
  render()        the text lian analyses (+ the line number of every source / sink site)
  instrument()    the text CPython executes: every source site returns a fresh marker object tagged with its site,
                  every sink site reports the markers reaching its designated argument; decisions come from a vector
  MayDep          a flow-insensitive, context-insensitive dependence closure over the AST (upper bound for C11)

Ground truth (lower bound for C10) = union over all decision vectors (each loop body at most once) of the
(source site, sink site) pairs observed by identity-tracking the marker objects.
"""
import itertools, random

SCALAR_FIELDS = ["f", "g"]


class Case:
    def __init__(self, idx):
        self.idx = idx
        self.funcs = []        # list of Func
        self.body = []         # top-level statements
        self.helper_funcs = [] # names of functions placed in the helper file
        self.n_src = 0
        self.n_sink = 0
        self.src_names = []    # call-source callee names used
        self.sink_names = []   # call-sink callee names used
        self.param_names = []  # parameter-source names
        self.features = set()


class Func:
    def __init__(self, name, params, body, ret, kind="plain", glob=None, n_defaults=0):
        self.name = name
        self.n_defaults = n_defaults   # the last n_defaults (scalar) parameters are declared `p=0`
        self.params = params   # list of (name, type)
        self.body = body
        self.ret = ret         # atom or None
        self.kind = kind
        self.glob = glob       # module variable written via `global`


# statements are tuples; atoms are ("var", name) | ("const",)
def A(v):
    return ("var", v)


C0 = ("const",)


class Gen:
    def __init__(self, rng, idx, opts=None):
        self.rng = rng
        self.case = Case(idx)
        self.opts = opts or {}
        self.fn_count = 0
        self.tmp = 0

    # ---- names
    def new_src(self, scope_sites, kind=None):
        """a call-source callee name; distinct per method unless the D2 shape is requested"""
        c = self.case
        if scope_sites["src"] and self.rng.random() < self.opts.get("p_repeat", 0.08):
            c.features.add("repeat-callee")
            return self.rng.choice(scope_sites["src"])
        name = f"src{len(c.src_names)}"
        c.src_names.append(name)
        scope_sites["src"].append(name)
        return name

    def new_sink(self, scope_sites):
        c = self.case
        if scope_sites["sink"] and self.rng.random() < self.opts.get("p_repeat", 0.08):
            c.features.add("repeat-callee")
            return self.rng.choice(scope_sites["sink"])
        name = f"sink{len(c.sink_names)}"
        c.sink_names.append(name)
        scope_sites["sink"].append(name)
        return name

    # ---- statement generation in a scope
    def gen_block(self, env, depth, n, scope_sites, in_func=False):
        """env: dict type -> list of variable names visible & initialised"""
        rng = self.rng
        out = []
        for _ in range(n):
            out.extend(self.gen_stmt(env, depth, scope_sites, in_func))
        return out

    def atom(self, env, p_const=0.25):
        if env["s"] and self.rng.random() > p_const:
            return A(self.rng.choice(env["s"]))
        return C0

    def fresh(self, env, t, prefix):
        pool = {"s": ["a", "b", "x", "y", "z", "w"], "o": ["o", "p", "q"], "l": ["l", "m"], "d": ["d", "e"]}[t]
        if env[t] and self.rng.random() < 0.4:
            return self.rng.choice(env[t])     # re-assignment
        cand = [v for v in pool if v not in env[t] and v not in env.get("reserved", [])]
        name = self.rng.choice(cand) if cand else self.rng.choice(env[t])
        return name

    def declare(self, env, t, name):
        if name not in env[t]:
            env[t].append(name)

    def gen_stmt(self, env, depth, scope_sites, in_func):
        rng = self.rng
        c = self.case
        kinds = ["src", "assign", "add", "sink", "sink", "call", "fieldw", "fieldr", "list", "listr", "dict", "dictr",
                 "new", "if", "while", "append", "alias"]
        weights = [3, 2, 2, 3, 1, 3, 1.5, 1.5, 1, 1, 1, 1, 1, 1.2 if depth < 2 else 0, 0.6 if depth < 2 else 0, 0.7, 0.7]
        k = rng.choices(kinds, weights)[0]
        if k == "src":
            x = self.fresh(env, "s", "x")
            r = rng.random()
            if r < 0.55:
                st = ("src_call", x, self.new_src(scope_sites))
            elif r < 0.8:
                st = ("src_obj", x)
                c.features.add("src-objcall")
            else:
                st = ("src_field", x)
                c.features.add("src-fieldread")
            self.declare(env, "s", x)
            c.n_src += 1
            return [st]
        if k == "assign":
            x = self.fresh(env, "s", "x")
            st = ("assign", x, self.atom(env))
            self.declare(env, "s", x)
            return [st]
        if k == "add":
            x = self.fresh(env, "s", "x")
            st = ("add", x, self.atom(env, 0.1), self.atom(env, 0.5))
            self.declare(env, "s", x)
            return [st]
        if k == "sink":
            if not env["s"]:
                return []
            a = self.atom(env, 0.05)
            r = rng.random()
            c.n_sink += 1
            if r < 0.55:
                return [("sink_call", self.new_sink(scope_sites), a, 0)]
            if r < 0.65:
                c.features.add("sink-wrongpos")
                return [("sink_call", self.new_sink(scope_sites), a, 1)]
            if r < 0.8:
                c.features.add("sink-objcall")
                return [("sink_obj", a)]
            if r < 0.9:
                c.features.add("sink-fieldwrite")
                return [("sink_field", a)]
            c.features.add("sink-recordwrite")
            return [("sink_record", "rec", a)]
        if k == "call":
            fs = [f for f in c.funcs if self.callable_here(f, env)]
            if not fs:
                return []
            ps = [f for f in fs if f.kind == "psink"]
            f = rng.choice(ps) if ps and rng.random() < 0.5 else rng.choice(fs)
            args = []
            for (pn, pt) in f.params:
                if pt == "s":
                    args.append(self.atom(env, 0.3))
                else:
                    args.append(A(rng.choice(env[pt])))
            args, spec = self.arg_mode(f, args)
            c.features.add("call-" + f.kind)
            if f.ret is not None:
                x = self.fresh(env, "s", "x")
                st = ("call", x, f.name, args, spec)
                self.declare(env, "s", x)
                return [st]
            return [("call", None, f.name, args, spec)]
        if k == "new":
            o = self.fresh(env, "o", "o")
            self.declare(env, "o", o)
            return [("new", o)]
        if k == "alias":
            if not env["o"]:
                return []
            o = self.fresh(env, "o", "o")
            src = rng.choice(env["o"])
            if o == src:
                return []
            self.declare(env, "o", o)
            c.features.add("alias")
            return [("alias", o, src)]
        if k == "fieldw":
            if not env["o"]:
                return []
            c.features.add("field")
            return [("fieldw", rng.choice(env["o"]), rng.choice(SCALAR_FIELDS), self.atom(env))]
        if k == "fieldr":
            if not env["o"]:
                return []
            x = self.fresh(env, "s", "x")
            st = ("fieldr", x, rng.choice(env["o"]), rng.choice(SCALAR_FIELDS))
            self.declare(env, "s", x)
            c.features.add("field")
            return [st]
        if k == "list":
            l = self.fresh(env, "l", "l")
            st = ("list", l, [self.atom(env), self.atom(env, 0.6)])
            self.declare(env, "l", l)
            c.features.add("list")
            return [st]
        if k == "append":
            if not env["l"]:
                return []
            c.features.add("list")
            return [("append", rng.choice(env["l"]), self.atom(env))]
        if k == "listr":
            if not env["l"]:
                return []
            x = self.fresh(env, "s", "x")
            st = ("listr", x, rng.choice(env["l"]), rng.choice([0, 1]))
            self.declare(env, "s", x)
            return [st]
        if k == "dict":
            d = self.fresh(env, "d", "d")
            if rng.random() < 0.5 or d not in env["d"]:
                st = ("dict", d, rng.choice(["k", "j"]), self.atom(env))
            else:
                st = ("dictw", d, rng.choice(["k", "j"]), self.atom(env))
            self.declare(env, "d", d)
            c.features.add("dict")
            return [st]
        if k == "dictr":
            if not env["d"]:
                return []
            x = self.fresh(env, "s", "x")
            st = ("dictr", x, rng.choice(env["d"]), rng.choice(["k", "j"]))
            self.declare(env, "s", x)
            return [st]
        if k == "if":
            env1 = {t: list(v) for t, v in env.items()}
            env2 = {t: list(v) for t, v in env.items()}
            b1 = self.gen_block(env1, depth + 1, rng.randint(1, 3), scope_sites, in_func)
            b2 = self.gen_block(env2, depth + 1, rng.randint(0, 2), scope_sites, in_func)
            # variables initialised in both branches stay visible; others are pre-initialised before the if
            pre = []
            for t in ("s", "o", "l", "d"):
                for v in env1[t] + env2[t]:
                    if v not in env[t]:
                        pre.append(self.init_stmt(t, v))
                        env[t].append(v)
            c.features.add("if")
            return pre + [("if", b1 or [("pass",)], b2)]
        if k == "while":
            env1 = {t: list(v) for t, v in env.items()}
            b = self.gen_block(env1, depth + 1, rng.randint(1, 3), scope_sites, in_func)
            pre = []
            for t in ("s", "o", "l", "d"):
                for v in env1[t]:
                    if v not in env[t]:
                        pre.append(self.init_stmt(t, v))
                        env[t].append(v)
            c.features.add("while")
            return pre + [("while", b or [("pass",)])]
        return []

    def arg_mode(self, f, args):
        """Chooses how the call passes its arguments: all positional / all keywords in a random (mostly
        non-alphabetical) order / a positional prefix followed by keywords / parameters with a default left out.
        Returns (args aligned with f.params, None = left to its default; spec = [("pos" | "kw", index)] in textual order)."""
        rng = self.rng
        n = len(f.params)
        args = list(args)
        first_default = n - f.n_defaults
        for i in range(first_default, n):
            if rng.random() < 0.3:
                args[i] = None
        supplied = [i for i in range(n) if args[i] is not None]
        mode = rng.choices(["pos", "kw", "mixed"], [4, 3, 2])[0] if n else "pos"
        if mode == "pos":
            # positional arguments must form a prefix: parameters after the first omitted one go by keyword
            prefix = []
            for i in range(n):
                if args[i] is None:
                    break
                prefix.append(i)
            rest = [i for i in supplied if i not in prefix]
            rng.shuffle(rest)
            spec = [("pos", i) for i in prefix] + [("kw", i) for i in rest]
        else:
            k = 0
            if mode == "mixed":
                while k < n and args[k] is not None and rng.random() < 0.6:
                    k += 1
            rest = [i for i in supplied if i >= k]
            rng.shuffle(rest)
            if len(rest) >= 2 and rest == sorted(rest, key=lambda i: f.params[i][0]):
                rest.reverse()             # keyword order that is NOT the alphabetical one
            spec = [("pos", i) for i in range(k)] + [("kw", i) for i in rest]
        if any(t == "kw" for t, _ in spec):
            self.case.features.add("call-keywords")
        if any(a is None for a in args):
            self.case.features.add("call-defaults")
        return args, spec

    def init_stmt(self, t, v):
        if t == "s":
            return ("assign", v, C0)
        if t == "o":
            return ("new", v)
        if t == "l":
            return ("list", v, [C0, C0])
        return ("dict", v, "k", C0)

    def callable_here(self, f, env):
        for (pn, pt) in f.params:
            if pt != "s" and not env[pt]:
                return False
        return True

    # ---- functions
    def gen_funcs(self):
        rng = self.rng
        c = self.case
        n = rng.choice([0, 1, 2, 2, 3, 4])
        for _ in range(n):
            kind = rng.choices(["plain", "setter", "getter", "mk", "use", "gset", "gget", "gret", "closure", "handler", "psink"],
                               [5, 1.5, 1.5, 1.2, 1.5, 0.7, 0.7, 0.7, 0.8, 1.2, 2.2])[0]
            name = f"fn{len(c.funcs)}"
            sites = {"src": [], "sink": []}
            if kind == "plain":
                np_ = rng.choice([1, 1, 2, 2, 3])
                params = [(f"p{i}", "s") for i in range(np_)]
                env = {"s": [p for p, _ in params], "o": [], "l": [], "d": [], "reserved": []}
                body = self.gen_block(env, 1, rng.randint(0, 3), sites, True)
                ret = self.atom(env, 0.15)
                c.funcs.append(Func(name, params, body, ret, "plain", n_defaults=rng.choice([0, 0, 1, np_, np_])))
            elif kind == "psink":
                # every parameter goes to its OWN sink: which argument binds to which parameter is observable
                np_ = rng.choice([2, 2, 3])
                params = [(f"p{i}", "s") for i in range(np_)]
                body = []
                for pn, _ in params:
                    if rng.random() < 0.8 or not body:
                        body.append(("sink_call", self.new_sink(sites), A(pn), 0))
                        c.n_sink += 1
                rng.shuffle(body)
                c.features.add("param-sinks")
                c.funcs.append(Func(name, params, body, None, "psink", n_defaults=rng.choice([0, 0, 1, np_])))
            elif kind == "setter":
                c.funcs.append(Func(name, [("po", "o"), ("pv", "s")], [("fieldw", "po", rng.choice(SCALAR_FIELDS), A("pv"))], None, "setter"))
            elif kind == "getter":
                c.funcs.append(Func(name, [("po", "o")], [("fieldr", "t", "po", rng.choice(SCALAR_FIELDS))], A("t"), "getter"))
            elif kind == "mk":
                c.n_src += 1
                c.funcs.append(Func(name, [], [("src_call", "t", self.new_src(sites))], A("t"), "mk"))
            elif kind == "use":
                c.n_sink += 1
                c.funcs.append(Func(name, [("pv", "s")], [("sink_call", self.new_sink(sites), A("pv"), 0)], None, "use"))
            elif kind == "gset":
                c.features.add("global-write")
                c.funcs.append(Func(name, [("pv", "s")], [("gassign", "GV", A("pv"))], None, "gset", glob="GV"))
            elif kind == "gget":
                c.n_sink += 1
                c.features.add("global-read-sink")
                c.funcs.append(Func(name, [], [("sink_call", self.new_sink(sites), A("GV"), 0)], None, "gget"))
            elif kind == "gret":
                c.features.add("global-read-returned")
                c.funcs.append(Func(name, [], [], A("GV"), "gret"))
            elif kind == "closure":
                c.features.add("closure")
                c.funcs.append(Func(name, [("pv", "s")], [("closure", "t", "pv")], A("t"), "closure"))
            elif kind == "handler":
                pn = f"preq{len(c.param_names)}"
                c.param_names.append(pn)
                c.n_src += 1
                env = {"s": [pn], "o": [], "l": [], "d": [], "reserved": []}
                body = self.gen_block(env, 1, rng.randint(1, 3), sites, True)
                c.features.add("src-param")
                c.funcs.append(Func(name, [(pn, "s")], body, self.atom(env, 0.3) if rng.random() < 0.5 else None, "handler"))

    def gen(self):
        rng = self.rng
        c = self.case
        self.gen_funcs()
        env = {"s": [], "o": [], "l": [], "d": [], "reserved": []}
        uses_gv = any(f.kind in ("gset", "gget", "gret") for f in c.funcs)
        sites = {"src": [], "sink": []}
        body = []
        if uses_gv:
            body.append(("assign", "GV", C0))
            env["s"].append("GV")
        body += self.gen_block(env, 0, rng.randint(3, 9), sites)
        # every handler is called once from the top level
        for f in c.funcs:
            if f.kind == "handler":
                x = None
                if f.ret is not None:
                    x = self.fresh(env, "s", "x")
                    self.declare(env, "s", x)
                body.insert(rng.randint(1 if uses_gv else 0, len(body)), ("call", x, f.name, [C0], [("pos", 0)]))
        if env["s"] and rng.random() < 0.7:
            body.append(("sink_call", self.new_sink(sites), A(rng.choice(env["s"])), 0))
            c.n_sink += 1
        if rng.random() < self.opts.get("p_chain", 0.4):
            body += self.gen_chain(env, sites)
        c.body = body
        if c.funcs and rng.random() < self.opts.get("p_multifile", 0.2):
            movable = [f.name for f in c.funcs if f.kind in ("plain", "setter", "getter", "mk", "use") and
                       not self.calls_other(f)]
            if movable:
                c.helper_funcs = rng.sample(movable, rng.randint(1, min(2, len(movable))))
                c.features.add("multi-file")
        return c

    def gen_chain(self, env, sites):
        """A helper chain of depth 2-3 (each function hands its parameter to the next; the last one sinks it or the
        value is returned all the way up), called 2-3 times from the top level with the tainted value at the first /
        second / last call; sometimes an inner helper is also called directly (the same helper from several sites)."""
        rng = self.rng
        c = self.case
        depth = rng.choice([2, 2, 3])
        returning = rng.random() < 0.4
        base = len(c.funcs)
        names = [f"fn{base + i}" for i in range(depth)]
        for i, nm in enumerate(names):
            fsites = {"src": [], "sink": []}
            last = i == depth - 1
            pname = ["w", "v", "u"][i]
            if last:
                if returning:
                    f = Func(nm, [(pname, "s")], [("assign", "t", A(pname))], A("t"), "chain")
                else:
                    c.n_sink += 1
                    f = Func(nm, [(pname, "s")], [("sink_call", self.new_sink(fsites), A(pname), 0)], None, "chain")
            else:
                if returning:
                    f = Func(nm, [(pname, "s")], [("call", "r", names[i + 1], [A(pname)], [("pos", 0)])], A("r"), "chain")
                else:
                    f = Func(nm, [(pname, "s")], [("call", None, names[i + 1], [A(pname)], [("pos", 0)])], None, "chain")
            c.funcs.append(f)
        n_calls = rng.choice([2, 2, 3])
        hot = rng.choice(["first", "second", "last"])
        hot_idx = {"first": 0, "second": min(1, n_calls - 1), "last": n_calls - 1}[hot]
        c.features.add(f"chain-d{depth}-n{n_calls}-{hot}" + ("-ret" if returning else "-sink"))
        out = []
        t = "ct"
        out.append(("src_call", t, self.new_src(sites)))
        c.n_src += 1
        self.declare(env, "s", t)
        results = []
        for k in range(n_calls):
            arg = A(t) if k == hot_idx else C0
            if returning:
                x = f"cr{k}"
                out.append(("call", x, names[0], [arg], [("pos", 0)]))
                self.declare(env, "s", x)
                results.append(x)
            else:
                out.append(("call", None, names[0], [arg], [("pos", 0)]))
            if rng.random() < 0.25 and depth >= 2:
                inner = rng.choice(names[1:])
                if returning:
                    out.append(("call", f"ci{k}", inner, [C0], [("pos", 0)]))
                else:
                    out.append(("call", None, inner, [C0], [("pos", 0)]))
                c.features.add("chain-inner-direct")
        if returning:
            for x in results:
                out.append(("sink_call", self.new_sink(sites), A(x), 0))
                c.n_sink += 1
        return out

    def calls_other(self, f):
        def walk(b):
            for s in b:
                if s[0] == "call":
                    return True
                if s[0] == "if" and (walk(s[1]) or walk(s[2])):
                    return True
                if s[0] == "while" and walk(s[1]):
                    return True
            return False
        return walk(f.body)


# --------------------------------------------------------------------------------------------------
# rendering
# --------------------------------------------------------------------------------------------------

def at(a):
    return a[1] if a[0] == "var" else "0"


class Renderer:
    """mode 'plain' = analysed text; mode 'inst' = instrumented text (uses the site table of the plain pass)"""

    def __init__(self, case, mode, sites=None):
        self.case = case
        self.mode = mode
        self.lines = {0: [], 1: []}      # file index -> lines
        self.sites = sites if sites is not None else {}   # id(stmt)/key -> (file, line)
        self.file = 0
        self.src_sites = []   # (file, line, kind)
        self.sink_sites = []  # (file, line, kind)
        self.stmt_lines = {}  # AST path -> (file, first line) of every statement; ("ret", fi) for returns

    def emit(self, text, ind):
        self.lines[self.file].append("    " * ind + text)
        return len(self.lines[self.file])

    def site(self, key, ind_line):
        if self.mode == "plain":
            self.sites[key] = (self.file, ind_line)
        return self.sites[key]

    def stmt(self, s, ind, path):
        m = self.mode
        k = s[0]
        key = path
        if m == "plain":
            self.stmt_lines[path] = (self.file, len(self.lines[self.file]) + 1)
        if k == "pass":
            self.emit("pass", ind)
        elif k == "assign":
            self.emit(f"{s[1]} = {at(s[2])}", ind)
        elif k == "gassign":
            self.emit(f"global {s[1]}", ind)
            self.emit(f"{s[1]} = {at(s[2])}", ind)
        elif k == "add":
            self.emit(f"{s[1]} = {at(s[2])} + {at(s[3])}", ind)
        elif k == "src_call":
            if m == "plain":
                ln = self.emit(f"{s[1]} = {s[2]}()", ind)
                self.site(key, ln)
                self.src_sites.append((self.file, ln, "call", s[2]))
            else:
                f, ln = self.sites[key]
                self.emit(f"{s[1]} = _src({f}, {ln})", ind)
        elif k == "src_obj":
            if m == "plain":
                ln = self.emit(f"{s[1]} = req.get()", ind)
                self.site(key, ln)
                self.src_sites.append((self.file, ln, "objcall", "req.get"))
            else:
                f, ln = self.sites[key]
                self.emit(f"{s[1]} = _src({f}, {ln})", ind)
        elif k == "src_field":
            if m == "plain":
                ln = self.emit(f"{s[1]} = cfg.secret", ind)
                self.site(key, ln)
                self.src_sites.append((self.file, ln, "fieldread", "cfg.secret"))
            else:
                f, ln = self.sites[key]
                self.emit(f"{s[1]} = _src({f}, {ln})", ind)
        elif k == "sink_call":
            args = [at(s[2])] if s[3] == 0 else ["0", at(s[2])]
            if m == "plain":
                ln = self.emit(f"{s[1]}({', '.join(args)})", ind)
                self.site(key, ln)
                self.sink_sites.append((self.file, ln, "call", s[1]))
            else:
                f, ln = self.sites[key]
                self.emit(f"_sink({f}, {ln}, {args[0]})", ind)
        elif k == "sink_obj":
            if m == "plain":
                ln = self.emit(f"db.execute({at(s[1])})", ind)
                self.site(key, ln)
                self.sink_sites.append((self.file, ln, "objcall", "db.execute"))
            else:
                f, ln = self.sites[key]
                self.emit(f"_sink({f}, {ln}, {at(s[1])})", ind)
        elif k == "sink_field":
            if m == "plain":
                ln = self.emit(f"out.secret_field = {at(s[1])}", ind)
                self.site(key, ln)
                self.sink_sites.append((self.file, ln, "fieldwrite", "secret_field"))
            else:
                f, ln = self.sites[key]
                self.emit(f"_sink({f}, {ln}, {at(s[1])})", ind)
        elif k == "sink_record":
            if m == "plain":
                ln = self.emit(f"{s[1]} = {{\"data\": {at(s[2])}}}", ind)
                self.site(key, ln)
                self.sink_sites.append((self.file, ln, "recordwrite", "data"))
            else:
                f, ln = self.sites[key]
                self.emit(f"_sink({f}, {ln}, {at(s[2])})", ind)
        elif k == "call":
            f = [g for g in self.case.funcs if g.name == s[2]][0]
            parts = [at(s[3][i]) if how == "pos" else f"{f.params[i][0]}={at(s[3][i])}" for how, i in s[4]]
            call = f"{s[2]}({', '.join(parts)})"
            self.emit(call if s[1] is None else f"{s[1]} = {call}", ind)
        elif k == "new":
            self.emit(f"{s[1]} = O()", ind)
        elif k == "alias":
            self.emit(f"{s[1]} = {s[2]}", ind)
        elif k == "fieldw":
            self.emit(f"{s[1]}.{s[2]} = {at(s[3])}", ind)
        elif k == "fieldr":
            self.emit(f"{s[1]} = {s[2]}.{s[3]}", ind)
        elif k == "list":
            self.emit(f"{s[1]} = [{', '.join(at(a) for a in s[2])}]", ind)
        elif k == "append":
            self.emit(f"{s[1]}.append({at(s[2])})", ind)
        elif k == "listr":
            self.emit(f"{s[1]} = {s[2]}[{s[3]}]", ind)
        elif k == "dict":
            if m == "plain":
                self.emit(f"{s[1]} = {{\"{s[2]}\": {at(s[3])}}}", ind)
            else:
                self.emit(f"{s[1]} = _D({{\"{s[2]}\": {at(s[3])}}})", ind)
        elif k == "dictw":
            self.emit(f"{s[1]}[\"{s[2]}\"] = {at(s[3])}", ind)
        elif k == "dictr":
            self.emit(f"{s[1]} = {s[2]}[\"{s[3]}\"]", ind)
        elif k == "closure":
            self.emit("def inner():", ind)
            self.emit(f"return {s[2]}", ind + 1)
            self.emit(f"{s[1]} = inner()", ind)
        elif k == "if":
            self.emit("if c():" if m == "plain" else "if _c():", ind)
            self.block(s[1], ind + 1, path + (1,))
            if s[2]:
                self.emit("else:", ind)
                self.block(s[2], ind + 1, path + (2,))
        elif k == "while":
            if m == "plain":
                self.emit("while c():", ind)
                self.block(s[1], ind + 1, path + (1,))
            else:
                self.emit("for _once in _loop():", ind)
                self.block(s[1], ind + 1, path + (1,))
        else:
            raise ValueError(k)

    def block(self, b, ind, path):
        for i, s in enumerate(b):
            self.stmt(s, ind, path + (i,))

    def func(self, f, fi):
        m = self.mode
        if m == "plain":
            self.stmt_lines[("def", fi)] = (self.file, len(self.lines[self.file]) + 1)
        nd = len(f.params) - f.n_defaults
        self.emit(f"def {f.name}({', '.join(p if i < nd else p + '=0' for i, (p, _) in enumerate(f.params))}):", 0)
        ln = len(self.lines[self.file])
        if f.kind == "handler":
            pn = f.params[0][0]
            if m == "plain":
                self.sites[("param", fi)] = (self.file, ln)
                self.src_sites.append((self.file, ln, "param", pn))
            else:
                ff, l0 = self.sites[("param", fi)]
                self.emit(f"{pn} = _src({ff}, {l0})", 1)
        n0 = len(self.lines[self.file])
        self.block(f.body, 1, ("f", fi))
        if f.ret is not None:
            ln_ret = self.emit(f"return {at(f.ret)}", 1)
            if m == "plain":
                self.stmt_lines[("ret", fi)] = (self.file, ln_ret)
        if len(self.lines[self.file]) == n0:
            self.emit("pass", 1)

    def render(self):
        c = self.case
        multi = bool(c.helper_funcs) and self.mode == "plain"
        if self.mode == "plain":
            self.file = 0
            if multi:
                self.emit(f"from case{c.idx:04d}_h import {', '.join(c.helper_funcs)}", 0)
            self.emit("class O:", 0)
            self.emit("pass", 1)
        for fi, f in enumerate(c.funcs):
            if self.mode == "plain" and f.name in c.helper_funcs:
                self.file = 1
                if not self.lines[1]:
                    self.emit("class O:", 0)
                    self.emit("pass", 1)
                self.func(f, fi)
                self.file = 0
            else:
                self.file = 0
                self.func(f, fi)
        self.file = 0
        self.block(c.body, 0, ("m",))
        return self


PRELUDE = '''
class T:
    def __init__(self, prov):
        self.prov = frozenset(prov)
    def __add__(self, o):
        return T(self.prov | (o.prov if isinstance(o, T) else frozenset()))
    __radd__ = __add__
class O:
    def __getattr__(self, n):
        return 0
class _D(dict):
    def __missing__(self, k):
        return 0
def _src(f, l):
    return T({(f, l)})
def _sink(f, l, v):
    if isinstance(v, T):
        for s in v.prov:
            _FLOWS.add((s, (f, l)))
def _c():
    _USED[0] += 1
    return _BITS.pop(0) if _BITS else False
def _loop():
    if _c():
        yield 0
'''


def ground_truth(case, sites):
    """Execute the instrumented text for every decision vector; returns (set of (src site, sink site)), stats)."""
    r = Renderer(case, "inst", sites).render()
    text = PRELUDE + "\n".join(r.lines[0]) + "\n"
    code = compile(text, f"<case{case.idx}>", "exec")
    flows = set()
    # number of decision points: explore vectors of growing length until no run consumes more bits than it was given
    maxlen = 0
    vectors = [[]]
    tried = 0
    seen = set()
    while vectors and tried < 600:
        v = vectors.pop()
        tv = tuple(v)
        if tv in seen:
            continue
        seen.add(tv)
        tried += 1
        env = {"_FLOWS": flows, "_BITS": list(v), "_USED": [0]}
        exec(code, env)
        used = env["_USED"][0]
        if used > len(v):
            # decisions beyond the vector defaulted to False: extend with both values at the first missing position
            vectors.append(v + [False])
            vectors.append(v + [True])
        maxlen = max(maxlen, used)
    return flows, {"vectors": tried, "decisions": maxlen, "text": text}


# --------------------------------------------------------------------------------------------------
# may-dependence closure (upper bound)
# --------------------------------------------------------------------------------------------------

CONST0 = ("const", 0, 0)         # the literal 0 (one abstract value: lian shares the state of a constant)
OUT_OBJ = ("h", "out", "*")      # the external object `out` of the field-write sink sites


class MayDep:
    """Flow-insensitive, context-insensitive value dependence over the mini-AST.
    Nodes: ('v', scope, name) variables; ('h', alloc, field) heap cells ('*' = any element of a container);
    ('ret', f) function results.  Pointers: Andersen-style points-to over allocation sites.
    Options (coarsenings lian applies by design; switched on separately so that each spurious flow can be
    attributed):  call_propagates — the result of every call depends on all its arguments, context-insensitively
                                    (arguments of ANY call of f reach the result of EVERY call of f: the callee's
                                    returned abstract value is one state shared by all call sites);
                  cut_global_ret  — drop edges reading a module variable inside a function when the value reaches the
                                    function's result (used by the known-finding matcher, not an upper bound);
                  symmetric       — every dependence edge in both directions: values connected by copies in ANY direction
                                    are one class (used by the matcher of C11/container-taints-alternative-values)."""

    def __init__(self, case, sites, call_propagates=False, cut_global_ret=False, obj_smash=False, symmetric=False):
        self.case = case
        self.sites = sites
        self.edges = {}       # node -> set(node)
        self.pts = {}         # node -> set(alloc)
        self.src_of = {}      # node -> set(src site)
        self.sink_args = []   # (sink site, node or None, designated)
        self.call_propagates = call_propagates
        self.cut_global_ret = cut_global_ret
        self.obj_smash = obj_smash
        self.symmetric = symmetric      # every copy-like edge also in the reverse direction (unification-style reading)
        self.consts = False             # the literal 0 as a value node (only for other_value_pairs)
        self.funcs = {f.name: f for f in case.funcs}
        self.module_vars = set()
        self.collect_module_vars(case.body)
        self.global_read_edges = []   # (func, src node, dst node)
        self.copy_rev = {}            # b -> {a}: edges a -> b that pass the SAME object on (no new value is computed)
        self.param_args = []          # (param source site, node of the actual argument variable)
        self.build()
        self.finalize_param_sources()

    def collect_module_vars(self, b):
        for s in b:
            if s[0] in ("assign", "add", "src_call", "src_obj", "src_field", "fieldr", "listr", "dictr", "new", "alias",
                        "list", "dict", "closure"):
                self.module_vars.add(s[1])
            elif s[0] == "call" and s[1]:
                self.module_vars.add(s[1])
            elif s[0] == "sink_record":
                self.module_vars.add(s[1])
            elif s[0] == "if":
                self.collect_module_vars(s[1]); self.collect_module_vars(s[2])
            elif s[0] == "while":
                self.collect_module_vars(s[1])
        for f in self.case.funcs:
            if f.glob:
                self.module_vars.add(f.glob)

    def var(self, scope, name):
        """resolve a name: local of the scope (parameter or assigned there) else module variable"""
        if scope != "<m>":
            f = self.funcs[scope]
            if name in self.locals_of(f):
                return ("v", scope, name)
        return ("v", "<m>", name)

    def writes_out(self, f, seen=None):
        """does f (or a function it calls) execute a field write on the external object `out`?"""
        seen = seen or set()
        if f.name in seen:
            return False
        seen.add(f.name)
        def walk(b):
            for st in b:
                if st[0] == "sink_field":
                    return True
                if st[0] == "call" and st[2] in self.funcs and self.writes_out(self.funcs[st[2]], seen):
                    return True
                if st[0] == "if" and (walk(st[1]) or walk(st[2])):
                    return True
                if st[0] == "while" and walk(st[1]):
                    return True
            return False
        return walk(f.body)

    def locals_of(self, f):
        if not hasattr(f, "_locals"):
            loc = {p for p, _ in f.params}
            def walk(b):
                for s in b:
                    if s[0] in ("assign", "add", "src_call", "src_obj", "src_field", "fieldr", "listr", "dictr", "new",
                                "alias", "list", "dict", "closure"):
                        loc.add(s[1])
                    elif s[0] == "call" and s[1]:
                        loc.add(s[1])
                    elif s[0] == "sink_record":
                        loc.add(s[1])
                    elif s[0] == "if":
                        walk(s[1]); walk(s[2])
                    elif s[0] == "while":
                        walk(s[1])
            walk(f.body)
            if f.glob:
                loc.discard(f.glob)
            f._locals = loc
        return f._locals

    def edge(self, a, b, copy=True):
        self.edges.setdefault(a, set()).add(b)
        if copy:
            self.copy_rev.setdefault(b, set()).add(a)
        if self.symmetric:
            self.edges.setdefault(b, set()).add(a)

    def finalize_param_sources(self):
        """A parameter source marks the VALUE the parameter receives.  Assignments, parameter passing, returns and
        stores / loads of fields and elements pass the same object on, so every variable or cell from which that
        object reaches the parameter by such copies holds the source value as well (fn1(x, x, x) / def fn1(p0, p1,
        p2): sink0(p2); fn0(p0) / def fn0(preq0): p2, p0, x and preq0 are one object).  `+` computes a new value and
        is no copy."""
        for site, arg in self.param_args:
            seen, todo = {arg}, [arg]
            while todo:
                u = todo.pop()
                for v in self.copy_rev.get(u, ()):
                    if v not in seen:
                        seen.add(v)
                        todo.append(v)
            for n in seen:
                if n != CONST0:
                    self.src_of.setdefault(n, set()).add(site)

    def build(self):
        self.allocs = 0
        self.stmts = []   # (scope, stmt, path)
        def walk(scope, b, path):
            for i, s in enumerate(b):
                p = path + (i,)
                self.stmts.append((scope, s, p))
                if s[0] == "if":
                    walk(scope, s[1], p + (1,)); walk(scope, s[2], p + (2,))
                elif s[0] == "while":
                    walk(scope, s[1], p + (1,))
        for fi, f in enumerate(self.case.funcs):
            walk(f.name, f.body, ("f", fi))
        walk("<m>", self.case.body, ("m",))
        alloc_of = {}
        for scope, s, p in self.stmts:
            if s[0] in ("new", "list", "dict"):
                alloc_of[p] = ("alloc", p)
        # iterate to a fixed point (points-to feeds field edges)
        changed = True
        self.alloc_of = alloc_of
        rounds = 0
        while changed and rounds < 50:
            rounds += 1
            before = (sum(len(v) for v in self.edges.values()), sum(len(v) for v in self.pts.values()))
            self.apply_all()
            self.propagate_pts()
            after = (sum(len(v) for v in self.edges.values()), sum(len(v) for v in self.pts.values()))
            changed = before != after

    def atom_node(self, scope, a):
        return self.var(scope, a[1]) if a[0] == "var" else None

    def dep(self, scope, a, dst, in_func_read=True, copy=True):
        n = self.atom_node(scope, a)
        if n is None and self.consts and a is not None and a[0] == "const":
            n = CONST0
        if n is None:
            return
        if scope != "<m>" and n[1] == "<m>":
            self.global_read_edges.append((scope, n, dst))
        self.edge(n, dst, copy)

    def apply_all(self):
        self.sink_args = []
        self.global_read_edges = []
        self.param_args = []
        for fi, f in enumerate(self.case.funcs):
            if f.kind == "handler":
                self.src_of.setdefault(self.var(f.name, f.params[0][0]), set()).add(self.sites[("param", fi)])
            if f.ret is not None:
                self.dep(f.name, f.ret, ("ret", f.name))
        for scope, s, p in self.stmts:
            k = s[0]
            if k in ("assign",):
                self.dep(scope, s[2], self.var(scope, s[1]))
            elif k == "gassign":
                self.dep(scope, s[2], ("v", "<m>", s[1]))
            elif k == "add":
                self.dep(scope, s[2], self.var(scope, s[1]), copy=False)
                self.dep(scope, s[3], self.var(scope, s[1]), copy=False)
            elif k in ("src_call", "src_obj"):
                self.src_of.setdefault(self.var(scope, s[1]), set()).add(self.sites[p])
            elif k == "src_field":
                # the source value lives in cfg.secret: every read of the field yields the same value
                cell = ("h", "cfg", "secret")
                self.src_of.setdefault(cell, set()).add(self.sites[p])
                self.edge(cell, self.var(scope, s[1]))
            elif k == "sink_call":
                self.sink_args.append((self.sites[p], self.atom_node(scope, s[2]), s[3] == 0))
            elif k == "sink_obj":
                self.sink_args.append((self.sites[p], self.atom_node(scope, s[1]), True))
            elif k == "sink_field":
                # `out.secret_field = v` with target \%target: EVERY used symbol counts (C10_rule_kinds_target_position),
                # i.e. the written value and the receiver object `out`, which flow-insensitively holds whatever any
                # statement stores into it
                self.sink_args.append((self.sites[p], self.atom_node(scope, s[1]), True))
                self.dep(scope, s[1], OUT_OBJ)
                self.sink_args.append((self.sites[p], OUT_OBJ, True))
            elif k == "sink_record":
                self.sink_args.append((self.sites[p], self.atom_node(scope, s[2]), True))
            elif k == "call":
                f = self.funcs[s[2]]
                for (pn, pt), a in zip(f.params, s[3]):
                    if a is None:
                        continue          # left to its default (a constant)
                    self.dep(scope, a, ("v", f.name, pn))
                    if f.kind == "handler" and a[0] == "var":
                        # a parameter source taints the incoming VALUE, which the caller's variables hold too
                        fi = self.case.funcs.index(f)
                        self.param_args.append((self.sites[("param", fi)], self.var(scope, a[1])))
                    if self.call_propagates and s[1]:
                        self.dep(scope, a, self.var(scope, s[1]), copy=False)
                    if self.call_propagates and self.writes_out(f):
                        # ... including the objects the callee writes: a hot call statement tags every symbol it
                        # defines, also the implicitly defined ones that hold the states of side-effected objects
                        self.dep(scope, a, OUT_OBJ, copy=False)
                    if self.call_propagates and f.ret is not None:
                        # ... context-insensitively: the callee's returned abstract value is shared by all call sites
                        self.dep(scope, a, ("ret", f.name), copy=False)
                if s[1]:
                    self.edge(("ret", f.name), self.var(scope, s[1]))
            elif k == "new":
                self.pts.setdefault(self.var(scope, s[1]), set()).add(self.alloc_of[p])
            elif k == "alias":
                self.edge(self.var(scope, s[2]), self.var(scope, s[1]))
            elif k == "fieldw":
                for a in self.pts.get(self.var(scope, s[1]), ()):
                    self.dep(scope, s[3], ("h", a, s[2]))
                    if self.obj_smash:
                        self.dep(scope, s[3], ("h", a, "*"))
            elif k == "fieldr":
                for a in self.pts.get(self.var(scope, s[2]), ()):
                    self.edge(("h", a, s[3]), self.var(scope, s[1]))
                    if self.obj_smash:
                        self.edge(("h", a, "*"), self.var(scope, s[1]))
            elif k == "list":
                self.pts.setdefault(self.var(scope, s[1]), set()).add(self.alloc_of[p])
                for a in s[2]:
                    self.dep(scope, a, ("h", self.alloc_of[p], "*"))
            elif k == "append":
                for a in self.pts.get(self.var(scope, s[1]), ()):
                    self.dep(scope, s[2], ("h", a, "*"))
            elif k == "listr":
                for a in self.pts.get(self.var(scope, s[2]), ()):
                    self.edge(("h", a, "*"), self.var(scope, s[1]))
            elif k == "dict":
                self.pts.setdefault(self.var(scope, s[1]), set()).add(self.alloc_of[p])
                self.dep(scope, s[3], ("h", self.alloc_of[p], "*"))
            elif k == "dictw":
                for a in self.pts.get(self.var(scope, s[1]), ()):
                    self.dep(scope, s[3], ("h", a, "*"))
            elif k == "dictr":
                for a in self.pts.get(self.var(scope, s[2]), ()):
                    self.edge(("h", a, "*"), self.var(scope, s[1]))
            elif k == "closure":
                self.edge(self.var(scope, s[2]), self.var(scope, s[1]))
        if self.cut_global_ret:
            # drop reads of module variables inside a function whose value reaches the function's result
            for (fn, a, b) in self.global_read_edges:
                if b == ("ret", fn) or ("ret", fn) in self.reach_from(b, within=fn):
                    if a in self.edges and b in self.edges[a]:
                        self.edges[a].discard(b)

    def reach_from(self, n, within=None):
        seen, todo = {n}, [n]
        while todo:
            u = todo.pop()
            for v in self.edges.get(u, ()):
                if v in seen:
                    continue
                if within is not None and not (v == ("ret", within) or (v[0] == "v" and v[1] == within)):
                    continue
                seen.add(v)
                todo.append(v)
        return seen

    def propagate_pts(self):
        changed = True
        while changed:
            changed = False
            for a, bs in list(self.edges.items()):
                pa = self.pts.get(a)
                if not pa:
                    continue
                for b in bs:
                    pb = self.pts.setdefault(b, set())
                    if not pa <= pb:
                        pb |= pa
                        changed = True

    def flows(self):
        """set of (src site, sink site) with the sink's DESIGNATED argument depending on the source"""
        out = set()
        for n, srcs in self.src_of.items():
            reach = self.reach_from(n)
            for (site, arg, designated) in self.sink_args:
                if designated and arg is not None and arg in reach:
                    for s in srcs:
                        out.add((s, site))
        return out


ASSIGNING = ("assign", "add", "src_call", "src_obj", "src_field", "fieldr", "listr", "dictr", "new", "alias", "list",
             "dict", "closure")


def assigned_var(st):
    if st[0] in ASSIGNING:
        return st[1]
    if st[0] == "call" and st[1]:
        return st[1]
    if st[0] == "gassign":
        return st[1]
    return None


def direct_uses(st):
    """scalar variables a simple statement reads directly (not inside nested blocks)"""
    k = st[0]
    atoms = []
    if k in ("assign", "gassign"):
        atoms = [st[2]]
    elif k == "add":
        atoms = [st[2], st[3]]
    elif k == "sink_call":
        atoms = [st[2]]
    elif k in ("sink_obj", "sink_field"):
        atoms = [st[1]]
    elif k == "sink_record":
        atoms = [st[2]]
    elif k == "call":
        atoms = [a for a in st[3] if a is not None]
    elif k in ("fieldw", "dict", "dictw"):
        atoms = [st[3]]
    elif k == "append":
        atoms = [st[2]]
    elif k == "list":
        atoms = list(st[2])
    elif k == "closure":
        atoms = [("var", st[2])]
    used = {a[1] for a in atoms if a[0] == "var"}
    if k in ("fieldr", "listr", "dictr", "alias"):
        used.add(st[2])          # the object / container read
    elif k in ("fieldw", "append", "dictw"):
        used.add(st[1])          # the object / container updated in place
    return used


def next_same_block_use(case, path):
    """For the statement at AST `path` that assigns variable x: the first later statement of the SAME block that reads
    x directly, provided no statement in between assigns x or is a compound statement (if / while) — then the
    definition reaches that use on every execution.  Returns the AST path of the use (or ("ret", fi)), or None."""
    if path[0] == "param":
        return None
    if path[0] == "m":
        body, rest, prefix, fi = case.body, path[1:], ("m",), None
    else:
        fi = path[1]
        body, rest, prefix = case.funcs[fi].body, path[2:], ("f", fi)
    top_level = True
    while len(rest) > 1:
        st = body[rest[0]]
        body = st[rest[1]]
        prefix = prefix + (rest[0], rest[1])
        rest = rest[2:]
        top_level = False
    i = rest[0]
    x = assigned_var(body[i])
    if x is None:
        return None
    for j in range(i + 1, len(body)):
        st = body[j]
        if st[0] in ("if", "while"):
            return None
        if x in direct_uses(st):
            return prefix + (j,)
        if assigned_var(st) == x:
            return None
    if top_level and fi is not None:
        f = case.funcs[fi]
        if f.ret is not None and f.ret[0] == "var" and f.ret[1] == x:
            return ("ret", fi)
    return None


def alias_source_flows(case, rend, md):
    """lian's field_read source rule matches the ACCESS PATH OF THE VALUE a field read yields, not the text of the
    read: `z = cfg.secret; p.g = z; y = p.g` makes `y = p.g` a source statement too.  Returns the (site, sink site)
    pairs such flows may legitimately have: site = a `fieldr` statement whose result may be the cfg.secret value,
    sink = any designated sink argument that may hold the cfg.secret value."""
    cell = ("h", "cfg", "secret")
    if cell not in md.src_of:
        return set()
    reach = md.reach_from(cell)
    out = set()
    for scope, st, p in md.stmts:
        if st[0] != "fieldr" or p not in rend.stmt_lines:
            continue
        if md.var(scope, st[1]) in reach:
            for (site, arg, designated) in md.sink_args:
                if designated and arg is not None and arg in reach:
                    out.add((rend.stmt_lines[p], site))
    return out


def assigns_inside(st, x):
    """is variable x assigned anywhere inside statement st (including nested blocks)?"""
    if assigned_var(st) == x:
        return True
    if st[0] == "if":
        return any(assigns_inside(t, x) for t in st[1]) or any(assigns_inside(t, x) for t in st[2])
    if st[0] == "while":
        return any(assigns_inside(t, x) for t in st[1])
    return False


def uses_inside(st, path, x):
    """AST paths of the simple statements inside st (including st itself) that read x directly"""
    out = []
    if st[0] == "if":
        for br in (1, 2):
            for i, t in enumerate(st[br]):
                out += uses_inside(t, path + (br, i), x)
    elif st[0] == "while":
        for i, t in enumerate(st[1]):
            out += uses_inside(t, path + (1, i), x)
    elif x in direct_uses(st):
        out.append(path)
    return out


def must_reach_pairs(case):
    """(scope, x, path of a definition D of x, path of a use U of x) such that D reaches U whenever execution passes D
    and then gets to U: U follows D in D's own block or, after D's block has been left, in an enclosing block — directly
    or nested in a later compound statement — and NO statement on the way assigns x: none after D in its block, none in
    any compound statement that is passed or that contains U (for a loop this covers all iterations).  Returns of
    functions count as uses (("ret", fi))."""
    out = []
    def scan(body, start, prefix, scope, x, dpath):
        """scans body[start:]; returns True when x is (possibly) re-assigned, i.e. the scan must stop"""
        for j in range(start, len(body)):
            t = body[j]
            if t[0] in ("if", "while"):
                if assigns_inside(t, x):
                    return True
                for u in uses_inside(t, prefix + (j,), x):
                    out.append((scope, x, dpath, u))
            else:
                if x in direct_uses(t):
                    out.append((scope, x, dpath, prefix + (j,)))
                if assigned_var(t) == x:
                    return True
        return False
    def block(body, prefix, scope, fi, conts):
        """conts: enclosing blocks to continue in, innermost first: (body, index after the compound statement, prefix)"""
        for i, st in enumerate(body):
            if st[0] == "if":
                block(st[1], prefix + (i, 1), scope, fi, [(body, i + 1, prefix)] + conts)
                block(st[2], prefix + (i, 2), scope, fi, [(body, i + 1, prefix)] + conts)
                continue
            if st[0] == "while":
                block(st[1], prefix + (i, 1), scope, fi, [(body, i + 1, prefix)] + conts)
                continue
            x = assigned_var(st)
            if x is None:
                continue
            dpath = prefix + (i,)
            killed = scan(body, i + 1, prefix, scope, x, dpath)
            for (pb, nxt, pp) in conts:
                if killed:
                    break
                killed = scan(pb, nxt, pp, scope, x, dpath)
            if not killed and fi is not None:
                f = case.funcs[fi]
                if f.ret is not None and f.ret[0] == "var" and f.ret[1] == x:
                    out.append((scope, x, dpath, ("ret", fi)))
    block(case.body, ("m",), "<m>", None, [])
    for fi, f in enumerate(case.funcs):
        block(f.body, ("f", fi), f.name, fi, [])
    return out


def on_flow_path(md, xn, reach_src, sink_args):
    """does variable node xn — or, for an object / container variable, one of the heap cells it points to — lie on a
    dependence path source ->* . ->* designated sink argument?"""
    cands = [xn] + [(k[0], k[1], k[2]) for k in md.edges.keys() if k[0] == "h" and k[1] in md.pts.get(xn, ())] + \
            [n for n in md.copy_rev.keys() if n[0] == "h" and n[1] in md.pts.get(xn, ())]
    for n in cands:
        if n in reach_src:
            rn = md.reach_from(n)
            if any(a in rn for a in sink_args):
                return True
    return False


def other_value_pairs(case, sites):
    """(src site, sink site) pairs explained by C11/tainted-variable-taints-its-other-values: some variable / cell X
    receives the source value, some value C (a variable, a cell or the literal 0) is copied into X as well — an OTHER
    value X may hold — and the sink's designated argument holds C too (it is reached from C by copies only).  lian
    tags X per id, then every abstract value X may hold, then every holder of such a value.  The earlier 'V' shape
    (argument ->* X *<- source) is the case C = the argument."""
    md = MayDep(case, sites, call_propagates=True)
    mc = MayDep.__new__(MayDep)
    # a second closure with the literal 0 as a node, for the copy ancestors / descendants
    mc.__dict__.update({k: v for k, v in md.__dict__.items()})
    mc.edges, mc.pts, mc.src_of, mc.copy_rev, mc.param_args, mc.sink_args = {}, {}, {}, {}, [], []
    mc.global_read_edges = []
    mc.consts = True
    mc.build()
    mc.finalize_param_sources()
    fwd = {}
    for b, as_ in mc.copy_rev.items():
        for a in as_:
            fwd.setdefault(a, set()).add(b)
    def closure(start, graph):
        seen, todo = set(start), list(start)
        while todo:
            u = todo.pop()
            for v in graph.get(u, ()):
                if v not in seen:
                    seen.add(v)
                    todo.append(v)
        return seen
    out = set()
    for n, srcs in mc.src_of.items():
        tainted = mc.reach_from(n)
        values = closure(tainted, mc.copy_rev)          # everything copied into a tainted variable / cell
        holders = closure(values, fwd)                  # everything those values are copied into
        for (site, arg, designated) in mc.sink_args:
            if designated and arg is not None and arg in holders:
                for s_ in srcs:
                    out.add((s_, site))
    return out


def co_descendant_pairs(md):
    """(src site, sink site) pairs in which the sink's designated argument and the source value both flow into a
    common variable / heap cell (a 'V' in the directional dependence graph: arg ->* v *<- source).  lian taints the
    variable v per id and then every abstract value v may hold, hence every other holder of such a value: the
    sink's argument.  Used by the matcher of C11/tainted-variable-taints-its-other-values."""
    out = set()
    reach_src = {}
    for n, srcs in md.src_of.items():
        reach_src[n] = md.reach_from(n)
    for (site, arg, designated) in md.sink_args:
        if not designated or arg is None:
            continue
        ra = md.reach_from(arg)
        for n, srcs in md.src_of.items():
            if ra & reach_src[n]:
                for s in srcs:
                    out.add((s, site))
    return out


def make_case(rng, idx, opts=None):
    case = Gen(rng, idx, opts).gen()
    r = Renderer(case, "plain").render()
    files = {f"case{idx:04d}.py": "\n".join(r.lines[0]) + "\n"}
    if case.helper_funcs:
        files[f"case{idx:04d}_h.py"] = "\n".join(r.lines[1]) + "\n"
    return case, r, files
