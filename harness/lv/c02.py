"""C02 — The same program written in any supported language lowers to equivalent GIR.

MONITOR (certified-monitor leg, the decider for failing inputs): typed core programs (c02gen; reference
semantics `evalCore` = LianVerif/Spec/Core.lean, driver "evalcore") are rendered as Python, JavaScript,
TypeScript, Java, Go, C and PHP; per language ONE packed run of the REAL `lang` phase lowers them; the
REAL rows are converted to structured GIR (girconv) and executed by the common GIR reference semantics
(LianVerif/Gir/Sem.lean, driver "girexec"); outputs + return value are compared with evalCore.
LEG 2: evalCore vs CPython on the Python rendering (validates the reference semantics).
DECL  : structural monitor for the "declarations" clause — per function, every declared core variable has
        exactly one `variable_decl` row (PHP/JS dialect: one per declaring statement of the SAME block).
VOCAB : the operation/attribute vocabulary the analyses consume is extracted AT RUN TIME from the live
        handler tables and the instruction table of the docs; `Vocabulary.vocabCheck` (Lean, proved sound:
        C02_vocabulary_check_sound) is evaluated by lvdrv on the REAL rows of the generated programs and of
        the per-language corpora under $LIAN_REPO/tests.
LEG 1 : Lean model of the lowering (`lowercore`) vs lian's real rows for the modelled languages/fragment.

Known findings are matched narrowly: behavioural ones by *prediction* (a mismatch on program p in
language l is "known" iff the real GIR's behaviour equals what CPython computes for p re-rendered with
exactly the recorded defects that apply to l simulated at source level); vocabulary ones by the exact
(language, kind, operation, attribute) tuple; declaration ones by (language, shape).
"""
import hashlib, json, os, shutil, subprocess, sys, time
import common, girconv, c02gen
import c01, c02_core
from common import drv_batch as _drv_batch

PY = "/venv/bin/python"


def drv_batch(reqs, timeout=1500):
    """common.drv_batch with an optional trace (C02_TRACE=1) of model names, sizes and times on stderr."""
    t = time.time()
    try:
        return _drv_batch(reqs, timeout=timeout)
    finally:
        if os.environ.get("C02_TRACE"):
            ms = sorted({r.get("m") for r in reqs})
            sys.stderr.write(f"[C02 trace] drv_batch {ms} n={len(reqs)} {time.time() - t:.1f}s\n")
MAX_LINES = 3000         # generated programs whose CPython run needs more line events are rejected (too heavy)
CPY_CACHE = {}           # id(program) -> CPython observations of its Python rendering (computed in evaluate)
FUEL = 20000             # statement budget of girexec on the real rows
CORE_FUEL = 1500         # fuel of evalCore: bounds the number of statements / iterations at ONE nesting level (generated
                         # programs need < 200); a program that exhausts it is outside the quantifier (rejected)
LANGS = c02gen.LANGS

# ----------------------------------------------------------------------------- known findings
# behavioural (model-predicted): finding id -> (simulation flag, shape that must be present, languages)
OPEN_SIMS = {
    "C02/bool-no-short-circuit": ("strict_bool", "boolop", set(LANGS)),
    "C02/while-continue-stale-condition": ("while_stale", "while_continue", {"python", "javascript", "typescript", "php"}),
}
# vocabulary: finding id -> set of (language, kind, operation, attribute)
OPEN_VOCAB = {
    "C02/go-off-vocabulary-operations": {
        ("go", "op", "composite_literal", ""), ("go", "op", "type_decl", ""), ("go", "op", "slice_stmt", ""),
        ("go", "op", "type_assertion", ""), ("go", "op", "fallthrough_stmt", ""),
        ("go", "attr", "switch_stmt", "switch_body"), ("go", "attr", "parameter_decl", "type"),
    },
    "C02/typescript-off-vocabulary": {
        ("typescript", "op", "expression_stmt", ""), ("typescript", "op", "map_write", ""),
        ("typescript", "op", "finally_stmt", ""), ("typescript", "attr", "call_stmt", "args"),
        ("typescript", "attr", "new_object", "args"),
        ("typescript", "attr", "try_stmt", "try_body"), ("typescript", "attr", "try_stmt", "finally_body"),
        ("typescript", "attr", "catch_clause", "param"), ("typescript", "attr", "export_stmt", "source"),
        ("typescript", "attr", "while_stmt", "attrs"), ("typescript", "attr", "class_decl", "member_methods"),
    },
    "C02/php-off-vocabulary": {
        ("php", "op", "namespace_read", ""), ("php", "op", "copy_stmt", ""),
        ("php", "attr", "call_stmt", "args"), ("php", "attr", "new_object", "args"),
        ("php", "attr", "array_write", "target"), ("php", "missing", "array_write", "array"),
        ("php", "missing", "array_write", "index"),
        ("php", "attr", "nonlocal_stmt", "target"), ("php", "attr", "yield_stmt", "target"),
        ("php", "attr", "catch_stmt", "expcetion"),
    },
    "C02/python-off-vocabulary": {
        ("python", "attr", "yield_stmt", "target"), ("python", "attr", "catch_clause", "expcetion"),
        ("python", "attr", "catch_clause", "as"),
        ("python", "attr", "with_stmt", "init_body"), ("python", "attr", "with_stmt", "update_body"),
    },
    "C02/c-java-js-off-vocabulary": {
        ("c", "op", "body", ""), ("c", "op", "enum_constant", ""), ("c", "op", "union_decl", ""),
        ("c", "attr", "enum_decl", "enum_constants"), ("c", "attr", "try_stmt", "finally_clause"),
        ("c", "missing", "assign_stmt", "operand"),
        ("java", "attr", "new_array", "type"), ("java", "attr", "annotation_type_decl", "annotation_type_elements"),
        ("java", "attr", "record_decl", "parameters"), ("java", "missing", "assign_stmt", "operand"),
        ("javascript", "op", "from_export_stmt", ""), ("javascript", "attr", "import_stmt", "module_path"),
        ("javascript", "attr", "with_stmt", "name"),
    },
    # attributes nobody reads and the instruction table does not list, but that carry no consumed element
    "C02/unlisted-passive-attributes": {
        (l, "attr", op, "type_parameters") for l in ("java", "go", "typescript") for op in ("method_decl", "call_stmt", "class_decl", "object_call_stmt", "new_object")
    } | {("python", "attr", "method_decl", "decorators"), ("go", "attr", "call_stmt", "attrs"),
         ("go", "attr", "object_call_stmt", "attrs")},
}
# catch_clause / with_stmt bodies: the block attributes of these two operations are walked generically by the
# CFG builder (analyze_try_stmt reads the catch clauses through read_block), not through `stmt.<attr>`
STRUCTURAL_BLOCK_ATTRS = {("catch_clause", "body"), ("catch_clause", "exception"), ("with_stmt", "body")}

# open findings matched by a purely syntactic shape (no behavioural prediction possible): id -> (language, shape)
OPEN_SHAPES = {
    "C02/treesitter-typescript-lt-negative-literal": ("typescript", "lt_neg_literal"),
}
OPEN_DECL = {
    "C02/js-synthetic-global-declaration": ("javascript", "synthetic-global"),
}

VOCAB_KEYS = ("handled", "defuse", "cfg", "reads", "doc", "book")
BOOK = ["operation", "stmt_id", "parent_stmt_id", "unit_id", "start_row", "start_col", "end_row", "end_col", "original_stmt"]


# ----------------------------------------------------------------------------- vocabulary extraction (run time)
def extract_vocab():
    """operation/attribute vocabulary consumed by the analyses, from the LIVE code of $LIAN_REPO."""
    import ast, inspect, re, textwrap
    from unittest.mock import MagicMock
    from lian.basics import stmt_def_use_analysis as du, control_flow as cf
    from lian.core import stmt_states as ss
    from lian.lang import lang_analysis

    def reads_of(cls, table, stmt_params=("stmt", "current_stmt")):
        cache = {}

        def fn_reads(func):
            if func.__name__ in cache:
                return cache[func.__name__]
            cache[func.__name__] = set()
            fdef = ast.parse(textwrap.dedent(inspect.getsource(func))).body[0]
            sp = [a.arg for a in fdef.args.args if a.arg in stmt_params]
            res = set()
            if sp:
                for node in ast.walk(fdef):
                    if isinstance(node, ast.Attribute) and isinstance(node.value, ast.Name) and node.value.id in sp:
                        res.add(node.attr)
                    if isinstance(node, ast.Call) and isinstance(node.func, ast.Attribute) \
                            and isinstance(node.func.value, ast.Name) and node.func.value.id == "self":
                        passes = any(isinstance(a, ast.Name) and a.id in sp for a in node.args) or \
                            any(isinstance(k.value, ast.Name) and k.value.id in sp for k in node.keywords)
                        m = getattr(cls, node.func.attr, None)
                        if passes and m is not None and inspect.isfunction(m):
                            res |= fn_reads(m)
            cache[func.__name__] = res
            return res
        return {op: sorted(fn_reads(getattr(h, "__func__", h)) - {"operation", "stmt_id", "parent_stmt_id"})
                for op, h in table.items()}

    mk = MagicMock
    a = du.StmtDefUseAnalysis(mk(), mk(), mk(), mk(), mk(), mk())
    c = cf.ControlFlowAnalysis(mk(), 0, mk(), mk())
    s = ss.StmtStates(mk(), mk(), mk(), mk(), mk(), mk())
    tables = {"defuse": reads_of(du.StmtDefUseAnalysis, a.def_use_analysis_handlers),
              "cfg": reads_of(cf.ControlFlowAnalysis, c.stmt_handlers),
              "state": reads_of(ss.StmtStates, s.state_analysis_handlers)}
    # structural markers: the operation strings flatten_block writes
    markers = sorted(set(re.findall(r'"operation":\s*"(\w+)"', inspect.getsource(lang_analysis.GIRProcessing.flatten_block))))
    reads = {}
    for t in tables.values():
        for op, attrs in t.items():
            reads.setdefault(op, set()).update(attrs)
    doc = {}
    docp = os.path.join(common.REPO, "docs", "en", "03.frontend", "3-2.gir.md")
    for line in open(docp, encoding="utf-8"):
        if not line.startswith("|"):
            continue
        cells = [x.strip() for x in line.strip().strip("|").split("|")]
        if len(cells) < 2 or cells[0].startswith("-") or cells[0].startswith("**"):
            continue
        doc[cells[0]] = [x.strip() for x in re.split(r"<br\s*/?>", cells[1]) if x.strip()]
    handled = sorted(set(reads) | set(markers))
    return {"handled": handled, "defuse": sorted(tables["defuse"]), "cfg": sorted(tables["cfg"]),
            "reads": {k: sorted(v) for k, v in reads.items()}, "doc": doc, "book": BOOK,
            "tables": {k: sorted(v) for k, v in tables.items()}, "markers": markers}


# ----------------------------------------------------------------------------- real lian
def lang_inputs(lang):
    """per-language corpora shipped with the repository."""
    res = []
    for sub in ("lang_parser", "dataflows"):
        d = os.path.join(common.REPO, "tests", sub, lang)
        if os.path.isdir(d):
            res.append(d)
    return res


def run_lian_lang(scratch, lang, files, extra_inputs=()):
    """files: {name: source}.  One subprocess of the real `lang` phase for `lang`.
    Returns ({name: structured program | Malformed | None}, {unit path: [raw rows]}, log)."""
    d = scratch.new()
    src = os.path.join(d, "gen")
    os.makedirs(src)
    for name, text in files.items():
        with open(os.path.join(src, name), "w") as f:
            f.write(text)
    ws = os.path.join(d, "ws")
    cmd = [PY, os.path.join(common.REPO, "src", "lian", "main.py"), "lang", "-l", lang, "-w", ws, "-f", "-q", src] + list(extra_inputs)
    env = dict(os.environ)
    env["PYTHONHASHSEED"] = "0"
    env["PYTHONPATH"] = os.path.join(common.REPO, "src")
    p = subprocess.run(cmd, capture_output=True, text=True, env=env, timeout=3000)
    log = (p.stdout + p.stderr)[-3000:]
    res = {name: None for name in files}
    raw = {}
    wsd = os.path.join(ws, "lian_workspace")
    try:
        rows = girconv.read_bundles(os.path.join(wsd, "frontend"))
        paths = girconv.unit_paths(wsd)
    except Exception as e:
        return res, raw, log + f"\n[reading the workspace failed: {type(e).__name__}: {e}]"
    for uid, urows in girconv.split_units(rows).items():
        path = paths.get(uid, f"unit{uid}").replace("\\", "/")
        if "/externs/" in path:
            continue
        base = os.path.basename(path)
        if "/src/gen/" in path and base in res:
            try:
                res[base] = girconv.rows_to_tree(urows)
            except girconv.Malformed as e:
                res[base] = e
        raw[path.split("/src/", 1)[-1]] = urows
    shutil.rmtree(d, ignore_errors=True)
    return res, raw, log


INT_SLASH = {"java", "go", "c"}      # languages whose `/` on two integers is integer division


def int_slash(tree):
    """the operator `/` of a Java / Go / C unit is integer division: sent to the driver as `//` (on the common subset —
    non-negative dividend, positive divisor — floor and truncation agree)"""
    if isinstance(tree, list):
        return [int_slash(x) for x in tree]
    if isinstance(tree, dict):
        return {k: ("//" if k == "operator" and v == "/" else int_slash(v)) for k, v in tree.items()}
    return tree


def girexec(items):
    """items: [(structured program, entry, argvs)] -> [[(outs, result)...] | error string]  (driver "girexec")"""
    reqs = [{"m": "girexec", "prog": prog, "entry": entry, "argvs": argvs, "fuel": FUEL} for prog, entry, argvs in items]
    if not reqs:
        return []

    def conv(rep):
        if "ok" in rep:
            return [(o["out"], o["result"]) for o in rep["ok"]]
        return "driver: " + str(rep.get("err"))[:300]
    try:
        return [conv(rep) for rep in drv_batch(reqs)]
    except RuntimeError:
        pass
    # the driver process died on one of the programs (e.g. stack exhaustion on rows that recurse without bound): run
    # each program in its own process; the one that kills the driver is reported as such (a mismatch)
    out = []
    for req in reqs:
        try:
            p = subprocess.run([common.DRV], input=json.dumps(req) + "\n", capture_output=True, text=True, timeout=20)
            out.append(conv(json.loads(p.stdout.split("\n")[0])))
        except (subprocess.TimeoutExpired, ValueError, IndexError):
            out.append("driver: the GIR reference interpreter crashed or timed out on these rows")
    return out


def row_sig(r):
    return (r["operation"], tuple(sorted(k for k in r if k not in ("operation",))))


def lang_job(arg):
    """worker: one language — packed real run on the rendered programs (+ the repository corpora), girexec,
    declaration monitor, row signatures for the vocabulary check."""
    lang, progs, with_corpora, mask = arg
    scratch = c01.Scratch()
    out = {"lang": lang, "results": [], "sigs": {}, "log": "", "n_rows": 0, "n_corpus_rows": 0}
    try:
        files, idx = {}, {}
        for i, p in enumerate(progs):
            if mask[i] and c02gen.supported(p, lang) is None:
                name = c02gen.file_name(lang, i)
                files[name] = c02gen.render(p, lang)
                idx[i] = name
        girs, raw, log = run_lian_lang(scratch, lang, files, lang_inputs(lang) if with_corpora else ())
        out["log"] = log[-800:]
        items, where = [], []
        for i, p in enumerate(progs):
            if i not in idx:
                out["results"].append({"status": "unsupported" if mask[i] else "reject"})
                continue
            g = girs.get(idx[i])
            r = {"status": None, "real": None, "gir": None, "decl": []}
            if g is None:
                r["status"] = "nogir"
                r["real"] = "no GIR emitted for this file; lian log tail: " + log[-400:]
            elif isinstance(g, Exception):
                r["status"] = "malformed"
                r["real"] = "malformed rows: " + str(g)
            else:
                r["gir"] = g
                r["decl"] = decl_check(g, p, lang)
                items.append((int_slash(g) if lang in INT_SLASH else g, p["entry"], p["argvs"]))
                where.append(len(out["results"]))
            out["results"].append(r)
        for j, o in zip(where, girexec(items)):
            out["results"][j]["real"] = o
            out["results"][j]["status"] = "exec"
        # row signatures (operation + attribute names) -> count, one example unit
        for path, urows in raw.items():
            gen = path.startswith("gen/")
            for r in urows:
                s = row_sig(r)
                e = out["sigs"].setdefault(s, [0, path])
                e[0] += 1
                if gen:
                    out["n_rows"] += 1
                else:
                    out["n_corpus_rows"] += 1
    finally:
        scratch.cleanup()
    out["sigs"] = [[list(k), v] for k, v in out["sigs"].items()]
    return out


# ----------------------------------------------------------------------------- declaration monitor
def decl_check(tree, prog, lang):
    """'declarations' clause: per function of the core program, where are the variable_decl rows of its
    variables?  Returns a list of (kind, function, name) problems:
      missing-declaration           a declared core variable has no variable_decl row in its function
      redeclared-in-nested-block    a variable_decl row for a name sits in a block nested inside the block that
                                    already declares it (a block-scoped reader sees two different variables)
      synthetic-global              a module-level variable_decl for a name that is a local of some function"""
    pre = "$" if lang == "php" else ""
    problems = []
    methods = {}

    def collect(stmts):
        for s in stmts:
            if s.get("op") == "method_decl":
                methods[s.get("name")] = s
            for k in ("methods", "body"):
                if s.get("op") == "class_decl" and isinstance(s.get(k), list):
                    collect(s[k])
    collect(tree)
    locals_all = set()
    for f in prog["fns"]:
        declared = {pre + s[1] for s in c02gen.walk_stmts(f["body"]) if s[0] in ("decl", "newarr", "newrec", "for")}
        locals_all |= declared
        m = methods.get(f["name"])
        if m is None:
            problems.append(("missing-method", f["name"], ""))
            continue
        seen = {}          # name -> list of block depth paths where declared

        def walk(stmts, path):
            here = set()
            for s in stmts:
                if s.get("op") == "variable_decl" and s.get("name") in declared:
                    seen.setdefault(s["name"], []).append(path)
                for k, v in s.items():
                    if isinstance(v, list) and v and isinstance(v[0], dict) and k != "parameters":
                        walk(v, path + ((id(s), k),))
        walk(m.get("body") or [], ())
        for x in sorted(declared):
            ps = seen.get(x, [])
            if not ps:
                problems.append(("missing-declaration", f["name"], x))
                continue
            for a in ps:
                for b in ps:
                    if a != b and len(a) < len(b) and b[:len(a)] == a:
                        problems.append(("redeclared-in-nested-block", f["name"], x))
                        break
                else:
                    continue
                break
    for s in tree:
        if s.get("op") == "variable_decl" and s.get("name") in locals_all:
            problems.append(("synthetic-global", "", s["name"]))
    return sorted(set(problems))


# ----------------------------------------------------------------------------- oracle side
def evalcore(progs):
    """evalCore on each program.  Generated programs terminate by construction; a SHRINK CANDIDATE may have lost a loop
    increment, and the reference interpreter then needs time quadratic in the fuel (frames are never freed): the batch runs
    under a time limit and, if that is hit, every program is evaluated in its own driver process with a 3 s limit — a
    program that exceeds it is reported as err:fuel, i.e. outside the quantifier."""
    import concurrent.futures
    reqs = [{"m": "evalcore", "prog": c02gen.core_json(p), "entry": p["entry"], "argvs": p["argvs"], "fuel": CORE_FUEL} for p in progs]
    if not reqs:
        return []

    def conv(rep):
        if "ok" in rep:
            return [(o["out"], o["result"]) for o in rep["ok"]]
        return "driver: " + str(rep.get("err"))[:300]
    try:
        return [conv(rep) for rep in drv_batch(reqs, timeout=20 + len(reqs) // 4)]
    except subprocess.TimeoutExpired:
        pass

    def one(req):
        try:
            p = subprocess.run([common.DRV], input=json.dumps(req) + "\n", capture_output=True, text=True, timeout=3)
            return conv(json.loads(p.stdout.split("\n")[0]))
        except (subprocess.TimeoutExpired, ValueError, IndexError):
            return [([], "err:fuel")] * len(req["argvs"])
    with concurrent.futures.ThreadPoolExecutor(max_workers=workers()) as ex:
        return list(ex.map(one, reqs))


def in_quantifier(ev):
    return isinstance(ev, list) and all(not o[1].startswith("err:") for o in ev)


def explain(prog, lang, real, open_ids):
    """which open behavioural findings (if any) predict `real` exactly.  -> list of finding ids | None"""
    if not isinstance(real, list):
        return None
    sh = c02gen.shapes(prog)
    shape_only = [fid for fid in open_ids if fid in OPEN_SHAPES and OPEN_SHAPES[fid][0] == lang and OPEN_SHAPES[fid][1] in sh]
    present = [fid for fid in open_ids if fid in OPEN_SIMS and OPEN_SIMS[fid][1] in sh and lang in OPEN_SIMS[fid][2]]
    if not present:
        return shape_only or None
    sims = [OPEN_SIMS[fid][0] for fid in present]
    pred = c01.run_cpython(c02gen.render(prog, "python", sim=sims), prog["entry"], prog["argvs"])
    if not c01.same_all(real, pred):
        return shape_only or None
    needed = []
    for fid in present:
        others = [OPEN_SIMS[f][0] for f in present if f != fid]
        alt = c01.run_cpython(c02gen.render(prog, "python", sim=others), prog["entry"], prog["argvs"])
        if not c01.same_all(real, alt):
            needed.append(fid)
    return needed or present


def known_decl(lang, problems, open_ids):
    """split declaration problems into (known finding ids, unexplained problems)."""
    known, rest = set(), []
    for kind, fn, x in problems:
        fid = next((f for f, (l, k) in OPEN_DECL.items() if l == lang and k == kind and f in open_ids), None)
        if fid:
            known.add(fid)
        else:
            rest.append((kind, fn, x))
    return known, rest


# ----------------------------------------------------------------------------- evaluation of a batch of programs
def workers():
    try:
        n = int(os.environ.get("LV_WORKERS", "8"))
    except ValueError:
        n = 8
    return max(1, min(n, (os.cpu_count() or 2)))


def evaluate(progs, langs=LANGS, with_corpora=False, pool=None):
    """-> (evalcore results, {lang: lang_job output})"""
    import multiprocessing
    ev = evalcore(progs)
    # programs outside the quantifier (evalCore reports a domain/type error or runs out of fuel: shrink candidates that
    # lost a loop increment) are not lowered / executed at all; neither are HEAVY programs (the CPython run of the Python
    # rendering needs more than MAX_LINES line events): their result is replaced by err:heavy
    for i, p in enumerate(progs):
        if in_quantifier(ev[i]):
            cpy = c01.run_cpython(c02gen.render(p, "python"), p["entry"], p["argvs"], max_lines=MAX_LINES)
            if any(c[1] == "err:fuel" for c in cpy):
                ev[i] = [([], "err:heavy")] * len(p["argvs"])
            else:
                CPY_CACHE[id(p)] = cpy
    mask = [in_quantifier(e) for e in ev]
    jobs = [(l, progs, with_corpora, mask) for l in langs]
    if pool is None and len(jobs) > 1:
        with multiprocessing.Pool(min(workers(), len(jobs))) as pl:
            outs = pl.map(lang_job, jobs)
    elif pool is not None:
        outs = pool.map(lang_job, jobs)
    else:
        outs = [lang_job(j) for j in jobs]
    return ev, {o["lang"]: o for o in outs}


def verdicts(progs, ev, outs, open_ids):
    """per (program index, language): 'pass' | 'reject' | 'unsupported' | ('known', [ids]) | ('fail', what)"""
    res = {}
    for l, o in outs.items():
        for i, (p, r) in enumerate(zip(progs, o["results"])):
            if not in_quantifier(ev[i]) or r["status"] == "reject":
                res[(i, l)] = "reject"
            elif r["status"] == "unsupported":
                res[(i, l)] = "unsupported"
            elif r["status"] in ("nogir", "malformed") or isinstance(r["real"], str):
                res[(i, l)] = ("fail", "no executable GIR: " + str(r["real"])[:300])
            else:
                kd, rest = known_decl(l, r["decl"], open_ids)
                if rest:
                    res[(i, l)] = ("fail", "declarations: " + json.dumps(rest[:4]))
                    continue
                if c01.same_all(r["real"], ev[i]):
                    res[(i, l)] = ("known", sorted(kd)) if kd else "pass"
                else:
                    fids = explain(p, l, r["real"], open_ids)
                    if fids:
                        res[(i, l)] = ("known", sorted(set(fids) | kd))
                    else:
                        res[(i, l)] = ("fail", "executing the emitted GIR differs from evalCore")
    return res


def fails_in(prog, lang, open_ids):
    """re-evaluate one program in one language (used by shrinking / replay). -> (fails, detail dict)"""
    ev, outs = evaluate([prog], [lang])
    v = verdicts([prog], ev, outs, open_ids)[(0, lang)]
    r = outs[lang]["results"][0]
    return isinstance(v, tuple) and v[0] == "fail", {"verdict": v, "evalcore": ev[0], "real": r.get("real"),
                                                        "gir": r.get("gir"), "decl": r.get("decl")}


def shrink(prog, lang, open_ids, budget_s=100, max_rounds=25):
    """greedy single-deletion shrinking on the core AST; all candidates of a round in ONE packed run."""
    cur = prog
    t0 = time.time()
    for _ in range(max_rounds):
        if time.time() - t0 > budget_s:
            break
        cands = c02gen.shrink_candidates(cur)[:150]
        if not cands:
            break
        ev, outs = evaluate(cands, [lang])
        vs = verdicts(cands, ev, outs, open_ids)
        best = None
        for i, c in enumerate(cands):
            v = vs[(i, lang)]
            if isinstance(v, tuple) and v[0] == "fail":
                if best is None or c02gen.count_stmts(c) < c02gen.count_stmts(best):
                    best = c
        if best is None:
            break
        cur = best
    return cur


# ----------------------------------------------------------------------------- vocabulary check on real rows
def vocab_check(ctx, vocab, outs, open_ids, stats):
    """evaluate Vocabulary.vocabCheck (Lean) on the signatures of all real rows; classify the defects."""
    reqs, meta = [], []
    for l, o in outs.items():
        sigs = o["sigs"]
        rows = [[s[0][0], [a for a in s[0][1] if not ((s[0][0], a) in STRUCTURAL_BLOCK_ATTRS)]] for s in sigs]
        reqs.append({"m": "vocab", "vocab": {k: vocab[k] for k in VOCAB_KEYS}, "rows": rows})
        meta.append((l, sigs))
    unexplained = []
    for (l, sigs), rep in zip(meta, drv_batch(reqs) if reqs else []):
        if "ok" not in rep:
            raise RuntimeError("vocab driver: " + str(rep)[:300])
        st = stats.setdefault(l, {"row_signatures": len(sigs), "rows": sum(s[1][0] for s in sigs), "defects": {}, "ok": rep["ok"]["ok"]})
        for idx, kind, attr in rep["ok"]["defects"]:
            op = sigs[idx][0][0]
            count, example = sigs[idx][1]
            key = (l, kind, op, attr)
            fid = next((f for f, ks in OPEN_VOCAB.items() if key in ks and f in open_ids), None)
            name = f"{kind}:{op}" + (f".{attr}" if attr else "")
            st["defects"][name] = st["defects"].get(name, 0) + count
            if fid:
                ctx.known(fid, f"e.g. language {l}: {describe_defect(kind, op, attr)} ({count} rows, e.g. in {example})")
            else:
                unexplained.append({"language": l, "kind": kind, "operation": op, "attribute": attr, "rows": count,
                                    "example_unit": example, "what": describe_defect(kind, op, attr)})
    return unexplained


def describe_defect(kind, op, attr):
    if kind == "table":
        return (f"operation `{op}` is missing from the def-use table (def_use_analysis_handlers) or, being a control-transfer "
                f"operation, from the CFG table (stmt_handlers)")
    if kind == "op":
        return f"operation `{op}` is handled by no analysis table (def-use, CFG, state) and is not a structural marker"
    if kind == "attr":
        return f"`{op}` row sets attribute `{attr}`, which no handler of `{op}` reads and the instruction table does not list"
    return f"`{op}` row lacks the required attribute `{attr}`"


# ----------------------------------------------------------------------------- corpus
def load_corpus():
    d = os.path.join(common.VERIF, "corpus", "C02")
    items = []
    if os.path.isdir(d):
        for f in sorted(os.listdir(d)):
            if f.endswith(".json"):
                items.append((f, json.load(open(os.path.join(d, f)))))
    return items


def run_corpus(ctx, open_ids, stats):
    """corpus entries: {"program": core program, "languages": [...], "expect": "pass" | "known:<id>", "what": …}
    or {"source": text, "language": l, "expect_vocab": [[kind, op, attr]…] | [], "what": …} (vocabulary witnesses)."""
    items = load_corpus()
    progs = [(n, it) for n, it in items if "program" in it]
    if progs:
        ps = [it["program"] for _, it in progs]
        langs = sorted({l for _, it in progs for l in it.get("languages", LANGS)})
        ev, outs = evaluate(ps, langs)
        vs = verdicts(ps, ev, outs, open_ids)
        for i, (name, it) in enumerate(progs):
            for l in it.get("languages", LANGS):
                stats["corpus"] += 1
                v = vs.get((i, l))
                exp = it.get("expect", "pass")
                if v == "pass" or v == "unsupported":
                    if exp.startswith("known:"):
                        print(f"[C02] note: corpus {name} ({l}) expected known finding {exp[6:]} but lian now agrees with evalCore")
                    continue
                if isinstance(v, tuple) and v[0] == "known":
                    for fid in v[1]:
                        ctx.known(fid, f"corpus {name} ({l}): " + it.get("what", ""))
                    continue
                stats["corpus_failed"] += 1
                if stats["corpus_failed"] <= 2:
                    r = outs[l]["results"][i]
                    ctx.violation({"what": "corpus program: " + (v[1] if isinstance(v, tuple) else str(v)), "corpus": name,
                                   "language": l, "program": it["program"], "source": c02gen.render(it["program"], l),
                                   "evalcore": c01.trim(ev[i]), "real_gir_exec": c01.trim(r.get("real")), "gir": r.get("gir")})
    return [(n, it) for n, it in items if "source" in it]


def run_source_witnesses(ctx, witnesses, vocab, open_ids, stats):
    """vocabulary witnesses given as source text: the recorded (kind, op, attr) defects must be exactly what the
    check reports on the real rows of that file (fixed findings: none)."""
    if not witnesses:
        return
    scratch = c01.Scratch()
    try:
        by_lang = {}
        for name, it in witnesses:
            by_lang.setdefault(it["language"], []).append((name, it))
        for l, its in by_lang.items():
            files = {f"w{i}{c02gen.EXT[l]}": it["source"] for i, (_, it) in enumerate(its)}
            girs, raw, log = run_lian_lang(scratch, l, files)
            for i, (name, it) in enumerate(its):
                stats["corpus"] += 1
                urows = raw.get("gen/" + f"w{i}{c02gen.EXT[l]}")
                if urows is None:
                    stats["corpus_failed"] += 1
                    ctx.violation({"what": "corpus witness: lian emitted no GIR", "corpus": name, "language": l,
                                   "source": it["source"], "lian_log": log[-400:]})
                    continue
                sigs = {}
                for r in urows:
                    sigs.setdefault(row_sig(r), 0)
                rows = [[s[0], [a for a in s[1] if (s[0], a) not in STRUCTURAL_BLOCK_ATTRS]] for s in sigs]
                rep = drv_batch([{"m": "vocab", "vocab": {k: vocab[k] for k in VOCAB_KEYS}, "rows": rows}])[0]["ok"]
                got = sorted({(kind, rows[idx][0], attr) for idx, kind, attr in rep["defects"]})
                exp = sorted(tuple(x) for x in it.get("expect_vocab", []))
                passive = {k[1:] for k in OPEN_VOCAB["C02/unlisted-passive-attributes"] if k[0] == l}
                got = [g for g in got if g not in passive or g in exp]
                if got == exp:
                    for g in got:
                        fid = next((f for f, ks in OPEN_VOCAB.items() if (l,) + g in ks and f in open_ids), None)
                        if fid:
                            ctx.known(fid, f"corpus {name} ({l}): " + it.get("what", ""))
                    continue
                new = [g for g in got if g not in exp and
                       not any((l,) + g in ks and f in open_ids for f, ks in OPEN_VOCAB.items())]
                if new:
                    stats["corpus_failed"] += 1
                    ctx.violation({"what": "corpus witness: rows outside the shared vocabulary", "corpus": name, "language": l,
                                   "source": it["source"], "defects": new, "expected": exp})
                else:
                    print(f"[C02] note: corpus {name} ({l}) vocabulary defects now {got}, recorded {exp}")
    finally:
        scratch.cleanup()


# ----------------------------------------------------------------------------- run
def sizes(tier):
    # programs per tier-of-language (1, 2, 3); the SAME programs are rendered in all seven languages
    if tier == "quick":
        return {"batches": 1, "per_tier": (25, 35, 40)}
    return {"batches": 72, "per_tier": (30, 40, 40)}


def gen_batch(seeds, per_tier):
    progs = []
    k = 0
    for tier, n in zip((1, 2, 3), per_tier):
        for j in range(n):
            progs.append(c02gen.generate(seeds[k], tier, "small" if j % 4 == 0 else "normal"))
            k += 1
    return progs


def fingerprints():
    res = {}
    for rel in ["src/lian/lang/%s_parser.py" % l for l in LANGS] + \
               ["src/lian/lang/common_parser.py", "src/lian/lang/lang_analysis.py", "src/lian/config/lang_config.py",
                "src/lian/basics/stmt_def_use_analysis.py", "src/lian/basics/control_flow.py", "src/lian/core/stmt_states.py",
                "src/lian/events/default_event_handlers/add_var_decl.py", "src/lian/events/event_registers.py",
                "docs/en/03.frontend/3-2.gir.md"]:
        try:
            res[rel] = hashlib.sha256(open(os.path.join(common.REPO, rel), "rb").read()).hexdigest()[:16]
        except OSError:
            res[rel] = "missing"
    return res


def run(ctx):
    import multiprocessing
    common.use_repo()
    ctx.level = "translation_validation"
    timing = {}
    t = time.time()
    proofs_ok = ctx.proofs()
    timing["proofs_s"] = round(time.time() - t, 1)
    open_ids = ctx.finding_ids("open")
    stats = {"corpus": 0, "corpus_failed": 0, "generated": 0, "rejected_by_evalcore": 0,
             "per_language": {l: {"pass": 0, "known": 0, "fail": 0, "unsupported": 0} for l in LANGS},
             "known": {}, "constructs": {}, "shapes": {}, "leg2_equal": 0, "leg2_diff": 0, "stmts_total": 0}
    t = time.time()
    vocab = extract_vocab()
    timing["vocab_extraction_s"] = round(time.time() - t, 1)
    ctx.cov["vocabulary"] = {"handled_operations": len(vocab["handled"]),
                             "tables": {k: len(v) for k, v in vocab["tables"].items()}, "markers": vocab["markers"],
                             "documented_operations": len(vocab["doc"]),
                             "read_attribute_pairs": sum(len(v) for v in vocab["reads"].values())}
    common.LeanSide.build()
    # ---- corpus first
    t = time.time()
    witnesses = run_corpus(ctx, open_ids, stats)
    run_source_witnesses(ctx, witnesses, vocab, open_ids, stats)
    timing["corpus_s"] = round(time.time() - t, 1)
    # ---- generated programs
    sz = sizes(ctx.tier)
    n_per_batch = sum(sz["per_tier"])
    vocab_stats = {}
    failing = []          # (prog, lang, what)
    leg2_breaks = []
    distinct = {}
    samples = []
    vocab_unexplained = []
    leg1_stats, leg1_breaks = {}, {"leg1": [], "leg1b": []}
    t = time.time()
    with multiprocessing.Pool(min(workers(), len(LANGS))) as pool:
        for b in range(sz["batches"]):
            seeds = [ctx.rng.getrandbits(48) for _ in range(n_per_batch)]
            progs = gen_batch(seeds, sz["per_tier"])
            ev, outs = evaluate(progs, LANGS, with_corpora=(b == 0), pool=pool)
            vs = verdicts(progs, ev, outs, open_ids)
            c02_core.compare(progs, ev, outs, leg1_stats, leg1_breaks,
                             skip=lambda l, p: any(fid in open_ids and sl == l and sh in c02gen.shapes(p)
                                                   for fid, (sl, sh) in OPEN_SHAPES.items()))
            # LEG 2: evalCore vs CPython on the Python rendering
            for i, p in enumerate(progs):
                stats["generated"] += 1
                ctx.cov["evaluations"] += 1
                stats["stmts_total"] += c02gen.count_stmts(p)
                for k, v in c02gen.constructs(p).items():
                    stats["constructs"][k] = stats["constructs"].get(k, 0) + v
                for sh in c02gen.shapes(p):
                    stats["shapes"][sh] = stats["shapes"].get(sh, 0) + 1
                if not in_quantifier(ev[i]):
                    stats["rejected_by_evalcore"] += 1
                    continue
                src = c02gen.render(p, "python")
                cpy = CPY_CACHE.pop(id(p), None) or c01.run_cpython(src, p["entry"], p["argvs"], max_lines=MAX_LINES)
                if c01.same_all(ev[i], cpy):
                    stats["leg2_equal"] += 1
                else:
                    stats["leg2_diff"] += 1
                    leg2_breaks.append({"generator_seed": seeds[i], "tier": p["tier"], "source": src, "evalcore": c01.trim(ev[i]),
                                        "cpython": c01.trim(cpy), "program": c02gen.core_json(p), "argvs": p["argvs"]})
                nontriv = any(o[0] or o[1] != "ok 0" for o in ev[i])
                distinct[hashlib.sha256(json.dumps(c02gen.core_json(p), sort_keys=True).encode()).hexdigest()[:16]] = nontriv
                if len(samples) < 2 and len(src) < 900 and all(vs[(i, l)] in ("pass", "unsupported") for l in LANGS):
                    samples.append({"generator_seed": seeds[i], "tier": p["tier"], "python": src, "go": c02gen.render(p, "go"),
                                    "argvs": p["argvs"], "evalcore": ev[i], "gir_exec_go": outs["go"]["results"][i].get("real")})
                for l in LANGS:
                    v = vs[(i, l)]
                    st = stats["per_language"][l]
                    if v == "pass":
                        st["pass"] += 1
                    elif v == "unsupported":
                        st["unsupported"] += 1
                    elif isinstance(v, tuple) and v[0] == "known":
                        st["known"] += 1
                        for fid in v[1]:
                            stats["known"][fid] = stats["known"].get(fid, 0) + 1
                            ctx.known(fid, f"e.g. generator seed {seeds[i]} (tier {p['tier']}) rendered as {l}: "
                                           + known_text(fid))
                    elif isinstance(v, tuple):
                        st["fail"] += 1
                        failing.append((p, l, v[1], seeds[i]))
            if b == 0:
                vocab_unexplained = vocab_check(ctx, vocab, outs, open_ids, vocab_stats)
            else:
                vocab_unexplained += vocab_check(ctx, vocab, {l: dict(o) for l, o in outs.items()}, open_ids, {})
    timing["monitor_s"] = round(time.time() - t, 1)
    # ---- verdicts
    t = time.time()
    for p, l, what, seed in failing[:1]:
        still, det = fails_in(p, l, open_ids)
        if not still:
            ctx.violation({"what": "a failure seen in a worker did not reproduce in the parent process", "language": l,
                           "generator_seed": seed, "program": c02gen.core_json(p), "first": what}, no_input=True)
            continue
        small = shrink(p, l, open_ids)
        still2, det2 = fails_in(small, l, open_ids)
        if not still2:
            small, det2 = p, det
        ctx.violation({"what": f"language {l}: " + det2["verdict"][1] + " (not predicted by any recorded open finding)",
                       "language": l, "generator_seed": seed, "tier": p["tier"],
                       "program": c02gen.core_json(small), "program_with_rendering_hints": small,
                       "entry": small["entry"], "argvs": small["argvs"],
                       "source": c02gen.render(small, l), "python_rendering": c02gen.render(small, "python"),
                       "evalcore": c01.trim(det2["evalcore"]), "real_gir_exec": c01.trim(det2["real"]), "gir": det2["gir"],
                       "declaration_problems": det2["decl"],
                       "failing_in_run": len(failing),
                       "other_failing": [{"language": x[1], "generator_seed": x[3]} for x in failing[1:8]]})
    for u in vocab_unexplained[:3]:
        ctx.violation(dict(u, what="rows outside the shared instruction vocabulary: " + u["what"],
                           note="re-run: ./check C02 quick (the vocabulary sweep covers the generated programs and "
                                "tests/lang_parser + tests/dataflows of the language)"))
    timing["shrink_s"] = round(time.time() - t, 1)
    ctx.cov["distinct_nontrivial"] = sum(1 for v in distinct.values() if v)
    ctx.cov["programs"] = stats["generated"]
    ctx.cov["rule"] = ("corpus witnesses + typed random core programs (c02gen.generate, seeds drawn from VERIF_SEED; tiers 1/2/3 = "
                       "ints+control+calls / +for, break/continue, strings, booleans / +arrays, records), each rendered in the seven "
                       "languages and lowered by one packed real `lang` run per language; 3 argument vectors per program; "
                       "non-trivial = distinct core program whose reference run prints something or returns a value other than 0; "
                       "programs on which evalCore reports a domain/type error are outside the quantifier (counted as rejected); "
                       "vocabulary sweep = every row of the generated programs and of tests/lang_parser/<lang>, tests/dataflows/<lang>")
    ctx.cov["samples"] = samples
    ctx.cov["exhaustive"] = False
    ctx.cov["monitor"] = {k: stats[k] for k in ("corpus", "generated", "rejected_by_evalcore", "per_language", "known")}
    ctx.cov["leg2_evalcore_vs_cpython"] = {"equal": stats["leg2_equal"], "different": stats["leg2_diff"]}
    ctx.cov["constructs_hit"] = dict(sorted(stats["constructs"].items()))
    ctx.cov["defect_shapes_generated"] = stats["shapes"]
    ctx.cov["mean_statements_per_program"] = round(stats["stmts_total"] / max(1, stats["generated"]), 1)
    ctx.cov["vocabulary_sweep"] = vocab_stats
    ctx.cov["vocabulary_unexplained"] = vocab_unexplained
    ctx.cov["fingerprints"] = fingerprints()
    ctx.assumptions += [
        "no toolchain other than CPython is available: the renderings in JavaScript, TypeScript, Java, Go, C and PHP are "
        "assumed to mean what evalCore says (the generator stays inside the common subset: small non-negative-biased ints, "
        "no division, % only on non-negative dividend / positive divisor, no string comparison, no coercions, no aliasing of "
        "arrays/records, loop bounds the body cannot change); only the Python rendering is validated against its implementation",
        "Go's unused-variable rule and similar compile-time rules are not enforced on the renderings (tree-sitter parses them)",
        "records are rendered for Python, JavaScript, Java and PHP only; string concatenation not for C (see NOTES-C02.md)",
    ]
    ctx.cov["timing"] = timing
    if leg2_breaks and not ctx.violations:
        ctx.violation({"what": "correspondence broken: the reference semantics evalCore disagrees with CPython on the Python "
                               "rendering (LEG 2); the monitor found no failing input", "count": len(leg2_breaks),
                       "first": leg2_breaks[0]}, no_input=True)
    c02_core.report(ctx, leg1_stats, leg1_breaks)
    if not proofs_ok and not ctx.violations:
        ctx.violation({"what": "proof obligation broken; the search over this run's generated programs found no failing input",
                       "broken_theorems": ctx.audit["failures"]}, no_input=True)


def known_text(fid):
    return {
        "C02/bool-no-short-circuit": "executing the emitted GIR differs from evalCore exactly as strict (non-short-circuit) and/or predicts",
        "C02/while-continue-stale-condition": "executing the emitted GIR differs from evalCore exactly as a while condition not re-evaluated after `continue` predicts",
        "C02/php-variable-redeclared-in-nested-block": "a variable assigned in a nested block gets a second variable_decl inside that block",
        "C02/js-synthetic-global-declaration": "an assignment to a declared local emits a module-level `global` variable_decl of that name",
        "C02/treesitter-typescript-lt-negative-literal": "the program compares with a parenthesised negative literal (`x < (-5)`), which the shipped tree-sitter grammar reads as type arguments",
    }.get(fid, "matches the recorded finding")


def replay(rp):
    common.use_repo()
    common.LeanSide.build()
    if "program" in rp and "language" in rp and "entry" in rp:
        prog = dict(rp.get("program_with_rendering_hints") or rp["program"], entry=rp["entry"], argvs=rp["argvs"],
                    tier=rp.get("tier", 3))
        open_ids = [f["id"] for f in json.load(open(os.path.join(common.VERIF, "known_findings.json")))["findings"]
                    if f["property"] == "C02" and f.get("status", "open") == "open"]
        fails, det = fails_in(prog, rp["language"], open_ids)
        print(json.dumps({"verdict": det["verdict"], "evalcore": det["evalcore"], "real_gir_exec": det["real"], "violates": fails}))
        return 1 if fails else 0
    if "operation" in rp and "language" in rp:
        vocab = extract_vocab()
        scratch = c01.Scratch()
        try:
            girs, raw, log = run_lian_lang(scratch, rp["language"], {}, lang_inputs(rp["language"]))
        finally:
            scratch.cleanup()
        sigs = {}
        for path, urows in raw.items():
            for r in urows:
                if r["operation"] == rp["operation"]:
                    sigs[row_sig(r)] = sigs.get(row_sig(r), 0) + 1
        keys = list(sigs)
        rows = [[k[0], [a for a in k[1] if (k[0], a) not in STRUCTURAL_BLOCK_ATTRS]] for k in keys]
        rep = drv_batch([{"m": "vocab", "vocab": {k: vocab[k] for k in VOCAB_KEYS}, "rows": rows}])[0]["ok"]
        hit = sum(sigs[keys[idx]] for idx, kind, attr in rep["defects"] if kind == rp["kind"] and attr == rp.get("attribute", ""))
        print(json.dumps({"rows_still_outside_vocabulary": hit, "violates": hit > 0}))
        return 1 if hit else 0
    print(json.dumps({"note": "replay without a concrete input (proof/correspondence break): re-run ./check C02 quick"}))
    return 1
