"""C08 — abstract values cover every value a variable actually takes; literal text is only data.

Part A (in-process, dense): the constant-folding core.  Real `compute_two_states` / `assign_stmt_state`
  (from $LIAN_REPO as it is now) vs the Lean model `fold` / `binStates` (lvdrv model "fold"), with
  Python's own operators applied to the operand *data* as independent oracle; adversarial string alphabet
  (quotes, backslashes, operators, parentheses, `#`, digits, line breaks), sizes up to the folding limit,
  per-call time bound.  The frozen pinned-commit model `fold0` is diffed against the pinned source read
  from the git history of $LIAN_REPO (when available).  The literal model itself (`pyEval`, `pyRepr`) is
  diffed against CPython's `eval` / `repr`.
Part B (whole runs): generated loop-free fragment programs, packed into files, analysed by `lian run`;
  alpha(result tables) is compared per definition with CPython ground truth (all branch-decision
  vectors under sys.settrace) — the C08 oracle — and with the Lean reference interpreter `aref`;
  adversarial-string twins check that a literal's content changes no other expression, causes no
  crash and no slow-down.
"""
import io, contextlib, json, os, random, shutil, sys, time

import common
import foldcheck as F
import absval_common as A
import absval_runs as RUNS

ADV = ['"', "'", "\\", "+", " ", "(", ")", "*", "1", "2", "a", "n", "x", "#", "%", "\n", "-", "<", "=",
       "T", "r", "u", "e", "é", "0", "_", "\t", "s", "d", "\r", "{", "}", "/", "中", "N", "U", "\x01"]
SLOW_CALL_S = 0.5


# ---------------------------------------------------------------------------------------------------
# Part A: generators
# ---------------------------------------------------------------------------------------------------

def adv_str(rng, maxlen=7):
    return "".join(rng.choice(ADV) for _ in range(rng.randint(1, maxlen)))


def gen_state(rng):
    r = rng.random()
    if r < 0.32:
        return (adv_str(rng), "string")
    if r < 0.42:
        return (rng.choice(["ab", "x", "12", "007", "0", "a b", "__import__('os')", "9**9**9", "%s", "%99999999s"]), "string")
    if r < 0.60:
        return (str(rng.choice([0, 1, 2, 3, 7, 12, 100, 4096])), "int")
    if r < 0.80:
        return (rng.choice([0, 1, -1, 2, -2, 5, -7, 64, 1000, True, False]), "int")
    if r < 0.86:
        b = rng.choice([30, 600, 1020, 1030, 2040, 4090, 4096, 4097])
        return (rng.choice([1, -1]) * (rng.getrandbits(b) | (1 << (b - 1))), "int")
    if r < 0.90:
        return ("", "string")
    if r < 0.93:
        return ("x" * rng.choice([1000, 100000]), "string")
    if r < 0.97:
        return (rng.choice(["x", 5]), "non")
    return (rng.choice(["1.5", 2]), "other")


def gen_fold_case(rng):
    return (rng.choice(F.OPS), gen_state(rng), gen_state(rng))


def gen_bin_case(rng):
    def side():
        out = []
        for _ in range(rng.randint(1, 3)):
            r = rng.random()
            if r < 0.2:
                out.append(None)
            elif r < 0.7:
                out.append((rng.choice([0, 1, 2, 3, -2, 7, True, False, "5", "0", "12"]), "int"))
            elif r < 0.9:
                out.append((rng.choice(["a", "bc", '"', "12", "q'", "\\"]), "string"))
            else:
                out.append(gen_state(rng))
        return out
    return (rng.choice(F.OPS), side(), side())


# ---------------------------------------------------------------------------------------------------
# Part A: checks
# ---------------------------------------------------------------------------------------------------

def fold_oracle_verdict(op, s1, s2, real, secs):
    """None if the real result is acceptable for C08, else a short reason."""
    if real[0] == "crash":
        return f"an exception ({real[1]}) leaves compute_two_states: constants of the analysed program abort the run"
    if real[0] == "timeout":
        return f"folding did not finish within {secs:.0f}s: running time depends on the constants of the analysed program"
    if secs > SLOW_CALL_S:
        return f"folding took {secs:.2f}s: running time depends on the constants of the analysed program"
    o = F.oracle(op, s1, s2)
    if o[0] == "value" and real[0] == "state" and not F.same_value(real[1], o[1]):
        return f"folded value {real[1]!r} differs from Python's {op} on the operand data ({o[1]!r})"
    return None


def bin_oracle_verdict(op, S1, S2, real):
    if real[0] == "crash":
        return f"an exception ({real[1]}) leaves assign_stmt_state"
    if real[0] == "timeout":
        return "assign_stmt_state did not finish: running time depends on the constants of the analysed program"
    res = real[1]
    has_unknown = any(s is None for s in res)
    need_unknown = (any(s is None for s in S1) and len(S2) > 0) or (any(s is None for s in S2) and any(s is not None for s in S1))
    if need_unknown and not has_unknown:
        return "an operand has an unknown state but the result has no unknown state"
    vals = [s[0] for s in res if s is not None]
    for a in S1:
        for b in S2:
            if a is None or b is None:
                continue
            o = F.oracle(op, a, b)
            if o[0] == "value" and not has_unknown and not any(F.same_value(v, o[1]) for v in vals):
                return f"operand combination {a!r} {op} {b!r} = {o[1]!r} is not covered by the result"
    return None


def run_fold_part(ctx, st):
    tier = ctx.tier
    rng = ctx.rng
    live = F.RealFold(F.live_class())
    # ---- parameters the model names
    from lian.config import config as lcfg
    params = F.drv([{"m": "fold", "kind": "params"}])[0]
    live_params = {"maxBits": getattr(lcfg, "MAX_FOLDED_CONSTANT_BITS", None), "maxStrLen": getattr(lcfg, "STRING_MAX_LEN", None)}
    ctx.cov["params"] = {"model": params, "live": live_params}
    if params != live_params:
        st["corr"].append({"model": "LianVerif.Fold.fold", "what": "parameters named by the model differ from the live module",
                           "model_params": params, "live_params": live_params})
    # ---- cases
    cases = []
    corpus_bin = []
    cdir = os.path.join(common.VERIF, "corpus", "C08")
    ncorpus = 0
    if os.path.isdir(cdir):
        for f in sorted(os.listdir(cdir)):
            c = F.load_json(os.path.join(cdir, f))
            if c.get("kind") == "fold":
                cases.append((c["op"], tuple(c["s1"]), tuple(c["s2"])))
                ncorpus += 1
            elif c.get("kind") == "bin":
                corpus_bin.append((c["op"], [tuple(s) if s else None for s in c["S1"]], [tuple(s) if s else None for s in c["S2"]]))
    n = 6000 if tier == "quick" else 300000
    cases += [gen_fold_case(rng) for _ in range(n)]
    reqs = [{"m": "fold", "kind": "fold", "variant": "current", "op": op, "s1": F.enc_state(s1), "s2": F.enc_state(s2)}
            for op, s1, s2 in cases]
    model = F.drv(reqs)
    stats = {"same": 0, "unmodelled": 0, "diff": 0, "state": 0, "none": 0, "crash": 0,
             "oracle_value": 0, "oracle_raises": 0, "oracle_skip": 0, "adversarial_operand": 0}
    distinct = set()
    sink = io.StringIO()
    real_results = F.run_real("fold", cases, "live")
    for (op, s1, s2), m, (r, secs) in zip(cases, model, real_results):
        if r[0] == "skipped":
            stats["skipped_after_timeouts"] = stats.get("skipped_after_timeouts", 0) + 1
            continue
        ctx.cov["evaluations"] += 1
        stats[r[0]] = stats.get(r[0], 0) + 1
        o = F.oracle(op, s1, s2)
        stats["oracle_" + o[0]] += 1
        if any(isinstance(s[0], str) and any(ch in s[0] for ch in "\"'\\\n") for s in (s1, s2)):
            stats["adversarial_operand"] += 1
        if r[0] == "state":
            distinct.add(F.dumps([op, F.enc_state(s1), F.enc_state(s2)]))
        why = fold_oracle_verdict(op, s1, s2, r, secs)
        if why:
            st["failing"].append({"kind": "fold", "op": op, "s1": F.pack_state(s1), "s2": F.pack_state(s2),
                                  "real": repr(F.canon_real(r))[:300], "why": why})
        cr = F.canon_real(r)
        if m[0] == "unmodelled":
            stats["unmodelled"] += 1
        elif cr == m:
            stats["same"] += 1
        else:
            stats["diff"] += 1
            st["corr"].append({"model": "LianVerif.Fold.fold", "op": op, "s1": F.pack_state(s1), "s2": F.pack_state(s2),
                               "real": repr(cr)[:300], "model_out": repr(m)[:300]})
    st["nontrivial"] |= distinct
    ctx.cov["fold"] = dict(stats, corpus=ncorpus, generated=n)
    # ---- assign_stmt_state (pairs of operand state sets)
    nb = 1500 if tier == "quick" else 60000
    bcases = corpus_bin + [gen_bin_case(rng) for _ in range(nb)]
    breqs = [{"m": "fold", "kind": "bin", "variant": "current", "op": op, "S1": [F.enc_state(s) for s in S1],
              "S2": [F.enc_state(s) for s in S2]} for op, S1, S2 in bcases]
    bmodel = F.drv(breqs)
    bstats = {"same": 0, "unmodelled": 0, "diff": 0, "with_unknown_operand": 0}
    breal = F.run_real("bin", bcases, "live")
    for (op, S1, S2), m, r in zip(bcases, bmodel, breal):
        if r[0] == "skipped":
            continue
        ctx.cov["evaluations"] += 1
        if any(s is None for s in S1 + S2):
            bstats["with_unknown_operand"] += 1
        why = bin_oracle_verdict(op, S1, S2, r)
        if why:
            st["failing"].append({"kind": "bin", "op": op, "S1": [F.pack_state(s) for s in S1],
                                  "S2": [F.pack_state(s) for s in S2], "real": repr(r)[:300], "why": why})
        if m[0] == "unmodelled":
            bstats["unmodelled"] += 1
            continue
        rc = [r[0]] if r[0] in ("crash", "timeout") else ["states", F.canon_states(r[1])]
        mc = m if m[0] != "states" else ["states", F.canon_model_states(m[1])]
        if rc == mc:
            bstats["same"] += 1
            st["nontrivial"].add(F.dumps(["bin", op, [F.enc_state(s) for s in S1], [F.enc_state(s) for s in S2]]))
        else:
            bstats["diff"] += 1
            st["corr"].append({"model": "LianVerif.Fold.binStates", "op": op, "S1": repr(S1)[:200], "S2": repr(S2)[:200],
                               "real": repr(rc)[:300], "model_out": repr(mc)[:300]})
    ctx.cov["bin"] = dict(bstats, generated=nb)
    # ---- frozen model vs the pinned source (git history)
    pinc = F.pinned_class()
    if pinc is None:
        ctx.cov["pinned_replay"] = "pinned source not available from git history of $LIAN_REPO: frozen model not re-validated in this run"
    else:
        pin = F.RealFold(pinc)
        npin = 1500 if tier == "quick" else 60000
        pcases = []
        for _ in range(npin):
            op, s1, s2 = gen_fold_case(rng)
            # the pinned code has no size guard: keep CPython away from astronomically large results
            def small(s):
                return not (isinstance(s[0], int) and abs(s[0]) > 10 ** 6) and not (isinstance(s[0], str) and ("9**9" in s[0] or len(s[0]) > 1000 or "%9" in s[0]))
            if small(s1) and small(s2):
                pcases.append((op, s1, s2))
        pmodel = F.drv([{"m": "fold", "kind": "fold", "variant": "pinned", "op": op, "s1": F.enc_state(s1), "s2": F.enc_state(s2)}
                        for op, s1, s2 in pcases])
        pstats = {"same": 0, "unmodelled": 0, "diff": 0, "pinned_violates_oracle": 0}
        preal = F.run_real("fold", pcases, "pinned")
        for (op, s1, s2), m, (r, secs) in zip(pcases, pmodel, preal):
            if r[0] in ("skipped", "timeout"):
                continue
            if fold_oracle_verdict(op, s1, s2, r, 0.0):
                pstats["pinned_violates_oracle"] += 1
            cr = F.canon_real(r)
            if m[0] == "unmodelled":
                pstats["unmodelled"] += 1
            elif cr == m:
                pstats["same"] += 1
            else:
                pstats["diff"] += 1
                st["corr"].append({"model": "LianVerif.Fold.fold0 (frozen, vs source of commit %s)" % F.PINNED_COMMIT,
                                   "op": op, "s1": F.pack_state(s1), "s2": F.pack_state(s2), "real": repr(cr)[:300], "model_out": repr(m)[:300]})
        ctx.cov["pinned_replay"] = dict(pstats, compared=len(pcases))
    # ---- the literal model against CPython itself
    ne = 3000 if tier == "quick" else 150000
    texts = []
    for _ in range(ne):
        r = rng.random()
        if r < 0.5:
            a, b = adv_str(rng, 5), adv_str(rng, 5)
            q = rng.choice(['"', "'"])
            texts.append(f"{q}{a}{q} {rng.choice(F.OPS)} {q}{b}{q}")
        elif r < 0.8:
            texts.append(f"{repr(adv_str(rng))} {rng.choice(F.OPS)} {repr(adv_str(rng))}")
        else:
            texts.append(f"({rng.choice([-7, -2, 0, 1, 2, 5, 12, True, False])}) {rng.choice(F.OPS)} ({rng.choice([-3, -1, 0, 1, 2, 3, 8, True])})")
    evm = F.drv([{"m": "fold", "kind": "eval", "text": t} for t in texts])
    estats = {"same": 0, "unmodelled": 0, "diff": 0}
    import warnings
    for t, m in zip(texts, evm):
        if m[0] == "unmodelled":
            estats["unmodelled"] += 1
            continue
        try:
            with warnings.catch_warnings():
                warnings.simplefilter("ignore")
                code = compile(t, "", "eval")
                import dis
                if any("CALL" in i.opname for i in dis.get_instructions(code)) or code.co_names:
                    raise NameError("names/calls are not evaluated by the harness")
                v = eval(code, {"__builtins__": {}}, {})
            real = ["ok", F.enc_val(v)] if isinstance(v, (bool, int, str)) else ["other", repr(type(v))]
        except Exception:      # noqa
            real = ["err"]
        if real == m:
            estats["same"] += 1
        else:
            estats["diff"] += 1
            st["corr"].append({"model": "LianVerif.PyStrLit.pyEval (vs CPython eval)", "text": t, "real": real, "model_out": m})
    reps = [adv_str(rng, 9) for _ in range(ne // 3)]
    reps = [s for s in reps if s.isascii()]
    rpm = F.drv([{"m": "fold", "kind": "repr", "s": s} for s in reps])
    for s, m in zip(reps, rpm):
        if repr(s) == m:
            estats["same"] += 1
        else:
            estats["diff"] += 1
            st["corr"].append({"model": "LianVerif.PyStrLit.pyRepr (vs CPython repr)", "s": s, "real": repr(s), "model_out": m})
    ctx.cov["literal_model_vs_cpython"] = dict(estats, texts=len(texts), reprs=len(reps))


# ---------------------------------------------------------------------------------------------------
# run / replay
# ---------------------------------------------------------------------------------------------------

def run(ctx):
    common.use_repo()
    proofs_ok = ctx.proofs()
    st = {"failing": [], "corr": [], "nontrivial": set(), "known": []}
    scratch = os.path.join(common.SCRATCH_ROOT, f"lv-{os.getpid()}")
    os.makedirs(scratch, exist_ok=True)
    try:
        run_fold_part(ctx, st)
        RUNS.run_program_part(ctx, st, scratch, prop="C08")
    finally:
        shutil.rmtree(scratch, ignore_errors=True)
    ctx.cov["distinct_nontrivial"] = len(st["nontrivial"])
    ctx.cov["rule"] = (
        "Part A: corpus + random (operator, state1, state2) triples for compute_two_states and (operator, state set, state set) "
        "for assign_stmt_state over int/str/bool constants, adversarial strings (quotes, backslashes, operators, '#', line "
        "breaks, non-ASCII), empty strings, non-builtin and float-typed states, integers up to 4097 bits; non-trivial = distinct "
        "input on which the real code produced a REGULAR folded state (fold) / on which real and model agree on a definite "
        "answer (bin). Part B: generated loop-free fragment programs (int/str constants, copies, the 11 binary operators, "
        "if/else, classes with __init__, field read/write, aliasing, helper calls), packed into files and analysed by `lian run`; "
        "non-trivial = distinct program whose definitions were all found in the P3 tables and compared with CPython ground truth.")
    ctx.cov["exhaustive"] = False
    ctx.cov["correspondence"] = {"differences": len(st["corr"])}
    for k in st["known"]:
        ctx.known(k[0], k[1])
    if st["failing"]:
        sys.set_int_max_str_digits(0)        # replay files may hold constants above CPython's int->str limit
        for f in st["failing"][:3]:
            ctx.violation(dict(f, what="C08 failing input", failing_inputs_in_run=len(st["failing"])))
    elif st["corr"] or not proofs_ok:
        sys.set_int_max_str_digits(0)
        ctx.violation({"what": "proof obligation or correspondence broken; the oracles of this run found no input violating C08",
                       "broken_theorems": ctx.audit["failures"], "correspondence": st["corr"][:5],
                       "correspondence_differences": len(st["corr"])}, no_input=True)


def replay(rp):
    common.use_repo()
    if rp.get("kind") == "fold":
        s1, s2 = F.unpack_state(rp["s1"]), F.unpack_state(rp["s2"])
        r, secs = F.run_real("fold", [(rp["op"], s1, s2)], "live")[0]
        why = fold_oracle_verdict(rp["op"], s1, s2, r, secs)
        print(json.dumps({"real": repr(F.canon_real(r))[:300], "violates": bool(why), "why": why}, default=str))
        return 1 if why else 0
    if rp.get("kind") == "bin":
        S1 = [F.unpack_state(s) for s in rp["S1"]]
        S2 = [F.unpack_state(s) for s in rp["S2"]]
        r = F.run_real("bin", [(rp["op"], S1, S2)], "live")[0]
        why = bin_oracle_verdict(rp["op"], S1, S2, r)
        print(json.dumps({"real": repr(r)[:300], "violates": bool(why), "why": why}))
        return 1 if why else 0
    return RUNS.replay_program(rp)
