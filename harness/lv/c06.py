"""C06 — reaching definitions are sound and flow-sensitive.

Real side : packed files of generated call-free Python functions are analysed by lian in-process
            (one worker process per pack); `analyze_reachable_symbols` is wrapped from this side to
            record the visit sequence; in/out sets are read from semantic_p3/stmt_status_p3.bundle*.
Model side: Lean `ReachDef.rd` (variant "pinned" = the code as it is now, no repair having been
            committed) run by lvdrv on the REAL cfg.bundle rows and the real defined-symbol table
            (stmt_status_p1 + s2space_p1); compared: visit sequence, in sets, out sets.
Oracle    : independent of the model — classical reaching definitions with networkx on the real CFG:
            MAY  = path search (definition-clear paths, any number of loop iterations),
            MUST = reaching definitions over the once-unrolled CFG (no loop body runs twice),
            required: MUST ⊆ real in ⊆ MAY (on loop-free code MUST = MAY, i.e. exactness).
Findings  : C06/loop-def-lost and C06/dag-join-def-lost are OPEN with a MODEL-PREDICTED matcher
            (DESIGN §2.5): a lost definition in method x is known iff real visits/in/out on x equal the
            frozen faithful model's, and the idealised solver's output on x passes the oracle.
            Retained dead definitions (real in ⊄ MAY) are never known.
"""
import ast, glob, hashlib, inspect, io, json, os, random, shutil, subprocess, sys, time, contextlib
from collections import Counter

import common
from common import drv_batch, drv_ok

HERE = os.path.abspath(__file__)
CORPUS = os.path.join(common.VERIF, "corpus", "C06")
LOOP_TRUE_DEFAULT, LOOP_BACK_DEFAULT = 4, 6

# sha256 of the anchored sources at the time of the last green thorough run (scheduling only: when
# one differs, the quick tier runs a larger batch; it never suppresses anything)
FINGERPRINTS_AT_LAST_GREEN = {'lian.common_structs.BitVectorManager': 'ef53ad1540dfb649',
 'lian.common_structs.SimpleWorkList': '94de957e88d276e3',
 'lian.core.global_semantics.P3GlobalSemanticAnalysis.init_compute_frame': '8bba39f0c92f01ee',
 'lian.core.prelim_semantics.P2PrelimSemanticAnalysis.analyze_reachable_symbols': '26a839b7bdb6b8cd',
 'lian.core.prelim_semantics.P2PrelimSemanticAnalysis.analyze_stmts': 'bf0b658462742a13',
 'lian.core.prelim_semantics.P2PrelimSemanticAnalysis.rerun_analyze_reachable_symbols': 'fc77f21985ff3f79',
 'lian.core.prelim_semantics.P2PrelimSemanticAnalysis.update_current_symbol_bit': 'a1b93d8edc709b31',
 'lian.util.loader.CFGLoader': '8780c813c88f009a',
 'lian.util.util.get_graph_edge_weight': 'b290e51306706c91'}


# ====================================================================== generator
class Gen:
    """Call-free Python functions: straight-line code, if/else, early return, break/continue,
    while / for-in nested <= 2, 2-4 variables."""

    def __init__(self, rng, nvars, size, loops=True, toplevel=False, calls=False):
        self.rng = rng
        self.toplevel = toplevel     # module-level code: no `return`
        self.calls = calls           # calls of the HELPERS in the middle of the code (interruption + rerun pass)
        self.nested = 0
        self.vars = ["x", "y", "z", "w"][:nvars]
        self.size = size            # 1 small .. 3 large
        self.max_if = 1 + size
        self.max_loop = 2 if loops else 0
        self.stats = {}

    def hit(self, k):
        self.stats[k] = self.stats.get(k, 0) + 1

    def expr(self):
        r = self.rng.random()
        v = self.rng.choice
        if r < 0.3:
            return str(self.rng.randint(0, 9))
        if r < 0.6:
            return f"{v(self.vars)} + {self.rng.randint(1, 9)}"
        if r < 0.85:
            return f"{v(self.vars)} + {v(self.vars)}"
        return v(self.vars)

    def cond(self):
        v = self.rng.choice(self.vars + ["c"])
        return self.rng.choice([v, f"{v} > {self.rng.randint(0, 5)}", f"{v} < {self.rng.choice(self.vars)}"])

    def block(self, n, ifd, loopd, ind):
        out = []
        for _ in range(n):
            out += self.stmt(ifd, loopd, ind)
        return out or [ind + "pass"]

    def stmt(self, ifd, loopd, ind):
        rng = self.rng
        r = rng.random()
        nb = lambda: rng.randint(1, 1 + self.size)
        if r < 0.42 or (ifd >= self.max_if and loopd >= self.max_loop):
            k = rng.random()
            if k < 0.12:
                self.hit("augassign")
                return [f"{ind}{rng.choice(self.vars)} += {rng.randint(1, 5)}"]
            if self.calls and k > 0.80:
                # the call result goes to a variable that was (very likely) defined before and is used after
                self.hit("call")
                h = rng.choice(["set_g0", "set_g1", "idf"])
                return [f"{ind}{rng.choice(self.vars)} = {h}({rng.choice(self.vars + ['c'])})"]
            if self.calls and k > 0.72:
                self.hit("global_use")
                return [f"{ind}{rng.choice(self.vars)} = {rng.choice(['g0', 'g1'])}"]
            if k > 0.66 and k <= 0.72:
                # conditional expression: the frontend defines one temporary on both arms
                self.hit("ternary")
                v = rng.choice
                return [f"{ind}{v(self.vars)} = {v(self.vars)} if {self.cond()} else {v(self.vars + ['7'])}"]
            if k > 0.64 and k <= 0.66 and self.nested < 2:
                # a nested def is a definition of its name (stmt id == symbol id, like a declaration)
                self.hit("nested_def")
                self.nested += 1
                n = f"h{self.nested}"
                out = [f"{ind}def {n}(q):", f"{ind}    return q"]
                if rng.random() < 0.6:
                    out += [f"{ind}if {self.cond()}:", f"{ind}    {n} = {rng.randint(1, 9)}"]
                return out + [f"{ind}{rng.choice(self.vars)} = {n}"]
            if k < 0.34:
                # an assignment that reads its own target (x = x + 1, x = x + y, x = y + x)
                self.hit("self_assign")
                # (never v = v + v, and mostly a constant operand: chains of variable self-additions make lian's
                #  value analysis blow up — a 190-line loop-free function did not finish in 150 s; reported to C13)
                v = rng.choice(self.vars)
                others = [w for w in self.vars if w != v]
                o = rng.choice(others) if rng.random() < 0.3 else str(rng.randint(1, 9))
                return [f"{ind}{v} = " + (f"{v} + {o}" if rng.random() < 0.7 else f"{o} + {v}")]
            self.hit("assign")
            return [f"{ind}{rng.choice(self.vars)} = {self.expr()}"]
        if r < 0.70 and ifd < self.max_if:
            out = [f"{ind}if {self.cond()}:"]
            out += self.block(nb(), ifd + 1, loopd, ind + "    ")
            k = rng.random()
            if k < 0.45:
                self.hit("if_else")
                out.append(f"{ind}else:")
                out += self.block(nb(), ifd + 1, loopd, ind + "    ")
            elif k < 0.55:
                self.hit("if_elif_else")
                out.append(f"{ind}elif {self.cond()}:")
                out += self.block(nb(), ifd + 1, loopd, ind + "    ")
                out.append(f"{ind}else:")
                out += self.block(nb(), ifd + 1, loopd, ind + "    ")
            elif k < 0.62 and not self.toplevel:
                # both branches leave: what follows has no CFG predecessor
                self.hit("if_else_both_return")
                out = [f"{ind}if {self.cond()}:", f"{ind}    return {rng.choice(self.vars)}",
                       f"{ind}else:", f"{ind}    return {rng.choice(self.vars)}"]
            else:
                self.hit("if")
            return out
        if r < 0.87 and loopd < self.max_loop:
            if rng.random() < 0.6:
                self.hit("while")
                out = [f"{ind}while {self.cond()}:"]
            else:
                self.hit("forin")
                out = [f"{ind}for {rng.choice(self.vars)} in xs:"]
            out += self.block(rng.randint(1, 2 + self.size), ifd, loopd + 1, ind + "    ")
            return out
        if r < 0.93 and loopd > 0:
            kw = rng.choice(["break", "continue"])
            self.hit(kw)
            if rng.random() < 0.8:
                return [f"{ind}if {self.cond()}:", f"{ind}    {kw}"]
            return [f"{ind}{kw}"]
        if r < 0.965 and not self.toplevel:
            self.hit("return")
            if rng.random() < 0.8:
                return [f"{ind}if {self.cond()}:", f"{ind}    return {rng.choice(self.vars)}"]
            return [f"{ind}return {rng.choice(self.vars)}"]
        if r < 0.98:
            self.hit("pass")
            return [f"{ind}pass"]
        self.hit("assign")
        return [f"{ind}{rng.choice(self.vars)} = {self.expr()}"]

    def function(self, name):
        rng = self.rng
        params = ["c", "xs"] + [v for v in self.vars if rng.random() < 0.4]
        body = self.block(rng.randint(2, 2 + 2 * self.size), 0, 0, "    ")
        body.append(f"    return {rng.choice(self.vars)}")
        return [f"def {name}({', '.join(params)}):"] + body, len(params)


def gen_toplevel(rng, n, loops_share=0.7, calls=False):
    """n programs whose statements sit at module level: lian analyses each file's `%unit_init` as an ENTRY
    method (its own symbol/state space, index baseline 0) — a different path through init_compute_frame than
    a callee frame, whose pre-registered definition nodes are re-indexed after they were hashed."""
    progs, stats = [], {}
    for i in range(n):
        size = rng.choices([1, 2, 3], [0.8, 0.2, 0.0] if calls else [0.5, 0.4, 0.1])[0]
        g = Gen(rng, rng.randint(2, 4), size, loops=(rng.random() < loops_share), toplevel=True, calls=calls)
        body = g.block(rng.randint(2, 3 + 2 * size), 0, 0, "")
        body.append(f"{rng.choice(g.vars)} = {rng.choice(g.vars)}")
        progs.append((HELPERS if calls else "") + "\n".join(body) + "\n")
        for k, v in g.stats.items():
            stats[k] = stats.get(k, 0) + v
    return progs, stats


def gen_functions(rng, n, loops_share=0.7, calls=False):
    """returns list of (name, source lines, nparams) and construct statistics"""
    funs, stats = [], {}
    for i in range(n):
        size = rng.choices([1, 2, 3], [0.6, 0.35, 0.05] if calls else [0.45, 0.4, 0.15])[0]
        g = Gen(rng, rng.randint(2, 4), size, loops=(rng.random() < loops_share), calls=calls)
        lines, npar = g.function(f"f{i}")
        funs.append((f"f{i}", lines, npar))
        for k, v in g.stats.items():
            stats[k] = stats.get(k, 0) + v
    return funs, stats


def systematic_functions():
    """a fixed, enumerated family of tiny functions: every template over every small block, singly and in
    pairs, between `x = 1` and `y = x` (the minimal shapes of the recorded witnesses are members)."""
    blocks = [["x = 2"], ["x = x + 1"], ["y = x"], ["y = 1", "x = 2"], ["c = c - 1", "x = 2"]]
    def ind(ls):
        return ["    " + l for l in ls]
    T = {
        "if": lambda b, b2: ["if c:"] + ind(b),
        "ifelse": lambda b, b2: ["if c:"] + ind(b) + ["else:"] + ind(b2),
        "while": lambda b, b2: ["while c:"] + ind(b),
        "for": lambda b, b2: ["for z in xs:"] + ind(b),
        "while_break": lambda b, b2: ["while c:"] + ind(b + ["if x:"] + ind(["break"]) + b2),
        "while_continue": lambda b, b2: ["while c:"] + ind(b + ["if x:"] + ind(["continue"]) + b2),
        "while_while": lambda b, b2: ["while c:"] + ind(b + ["while x:"] + ind(b2)),
        "while_ifelse": lambda b, b2: ["while c:"] + ind(["if x:"] + ind(b) + ["else:"] + ind(b2)),
        "if_return": lambda b, b2: ["if c:"] + ind(b + ["return x"]),
        "if_while": lambda b, b2: ["if c:"] + ind(["while x:"] + ind(b)) + b2,
    }
    one = []
    for tn, t in T.items():
        for i, b in enumerate(blocks):
            b2 = blocks[(i + 1) % len(blocks)]
            one.append((f"{tn}{i}", t(b, b2)))
    funs = []
    for name, body in one:
        funs.append(["x = 1"] + body + ["y = x", "return y"])
    tn = list(T)
    for i, a in enumerate(tn):
        for j, b in enumerate(tn):
            ba, bb = blocks[(i + j) % len(blocks)], blocks[(i + 2 * j + 1) % len(blocks)]
            funs.append(["x = 1"] + T[a](ba, bb) + T[b](bb, ba) + ["y = x", "return y"])
    out = []
    for k, body in enumerate(funs):
        out.append((f"f{k}", [f"def f{k}(c, xs):"] + ind(body), 2))
    return out


def pack_source(funs, helpers=False):
    """each function is called once from top level (methods not reachable from an entry are not analysed in P3)"""
    lines, calls = (HELPERS.rstrip("\n").split("\n") + [""] if helpers else []), []
    for name, fl, npar in funs:
        lines += fl + [""]
        calls.append(f"{name}({', '.join(str(k) for k in range(npar))})")
    return "\n".join(lines + calls) + "\n"


TAG = "lvtag"

# helper functions of call-bearing programs: two assign a module-level variable through `global` (the call
# statement then IMPLICITLY defines that variable in the caller: rerun_analyze_reachable_symbols), one is pure
HELPERS = """g0 = 0
g1 = 0
def set_g0(t):
    global g0
    g0 = t
    return t
def set_g1(t):
    global g1
    g1 = t + 1
    return g1
def idf(t):
    return t
"""


def split_helpers(src):
    return (True, src[len(HELPERS):]) if src.startswith(HELPERS) else (False, src)


def is_toplevel_program(src):
    try:
        return not any(isinstance(n, ast.FunctionDef) for n in ast.parse(split_helpers(src)[1]).body)
    except SyntaxError:
        return False


def pack_programs(progs, prefix="k"):
    """programs (each either one function + its call, or module-level code; optionally preceded by HELPERS)
    -> (files, names): function programs share one file under the names <prefix>i (one copy of HELPERS on top
    when any of them needs it); every module-level program gets its own file that starts with `lvtag = i`, by
    which the worker recognises its %unit_init and calls it top<i>."""
    files, names, funs, need = [], [], [], False
    for i, src in enumerate(progs):
        hp, body = split_helpers(src)
        if is_toplevel_program(src):
            files.append((f"t{i:04d}.py", f"{TAG} = {i}\n" + (HELPERS if hp else "") + body))
            names.append(f"top{i}")
        else:
            need = need or hp
            funs.append(rename_function(body, f"{prefix}{i}"))
            names.append(f"{prefix}{i}")
    if funs:
        files.append(("pack.py", (HELPERS if need else "") + "\n".join(funs)))
    return files, names


def function_source(text, name):
    """the `def name` block of a pack, plus its call line"""
    lines = text.split("\n")
    i = next(k for k, l in enumerate(lines) if l.startswith(f"def {name}("))
    j = i + 1
    while j < len(lines) and (lines[j].startswith(" ") or not lines[j].strip()):
        j += 1
    body = [l for l in lines[i:j] if l.strip()]
    call = next((l for l in lines if l.startswith(f"{name}(")), f"{name}()")
    return "\n".join(body + ["", call]) + "\n"


# ====================================================================== worker (real code)
ANCHORS = [
    ("lian.common_structs", "SimpleWorkList"),
    ("lian.common_structs", "BitVectorManager"),
    ("lian.core.prelim_semantics", "P2PrelimSemanticAnalysis.analyze_stmts"),
    ("lian.core.prelim_semantics", "P2PrelimSemanticAnalysis.analyze_reachable_symbols"),
    ("lian.core.prelim_semantics", "P2PrelimSemanticAnalysis.update_current_symbol_bit"),
    ("lian.core.prelim_semantics", "P2PrelimSemanticAnalysis.rerun_analyze_reachable_symbols"),
    ("lian.core.global_semantics", "P3GlobalSemanticAnalysis.init_compute_frame"),
    ("lian.util.util", "get_graph_edge_weight"),
    ("lian.util.loader", "CFGLoader"),
]


def _ilist(x):
    if x is None:
        return []
    if isinstance(x, str):
        return [int(v) for v in json.loads(x)] if x.strip() else []
    return [int(v) for v in x]


def worker(workdir):
    """Runs inside a fresh process: one in-process lian run over the files in <workdir>/src/."""
    common.use_repo()
    import importlib
    import pandas as pd
    from lian.core import prelim_semantics as ps
    from lian.config import config, constants
    from lian.util import util as lutil
    from lian.common_structs import ControlFlowGraph

    # ---- parameters are extracted from the live modules, not copied
    loop_back = int(constants.CONTROL_FLOW_KIND.LOOP_BACK)
    loop_true = int(constants.CONTROL_FLOW_KIND.LOOP_TRUE)
    loop_ops = sorted(constants.LOOP_OPERATIONS)
    probe = ControlFlowGraph(0)
    probe.add_edge(1, 2, loop_back)
    weight_works = (lutil.get_graph_edge_weight(probe.graph, 1, 2) == loop_back)
    fingerprints = {}
    for mod, qual in ANCHORS:
        try:
            obj = importlib.import_module(mod)
            for part in qual.split("."):
                obj = getattr(obj, part)
            fingerprints[f"{mod}.{qual}"] = hashlib.sha256(inspect.getsource(obj).encode()).hexdigest()[:16]
        except Exception as e:      # pragma: no cover
            fingerprints[f"{mod}.{qual}"] = "missing:" + type(e).__name__

    visits, calls = [], []
    in_trace = {}        # frame key -> [sorted in set at every visit]
    use_sites = {}       # frame key -> {(stmt, used symbol id): {"union": set, "last": list, "n": int, "bad": [...]}}
    reruns = {}          # frame key -> [(stmt, [implicit symbol ids])]
    implicit_final = {}  # frame key -> {stmt: [symbol ids]}
    counter = [0]
    P = ps.P2PrelimSemanticAnalysis
    orig, orig_as = P.analyze_reachable_symbols, P.analyze_stmts
    orig_chk, orig_rerun = P.check_reachable_symbol_defs, P.rerun_analyze_reachable_symbols
    from lian.common_structs import Symbol

    def fkey(frame):
        k = getattr(frame, "_lv_key", None)
        if k is None:
            counter[0] += 1
            k = counter[0]
            try:
                frame._lv_key = k
            except Exception:
                k = id(frame)
        return k

    def pairs(bits):
        return sorted({(int(d.symbol_id), int(d.stmt_id)) for d in bits})

    def wrapped(self, stmt_id, stmt, frame):
        k = fkey(frame)
        visits.append((k, int(frame.method_id), int(stmt_id)))
        r = orig(self, stmt_id, stmt, frame)
        in_trace.setdefault(k, []).append(pairs(frame.stmt_id_to_status[stmt_id].in_symbol_bits))
        return r

    def wrapped_chk(self, stmt_id, frame, status, used_symbol_index, used_symbol, available_symbol_defs):
        # the use-site layer: what the analysis TREATS as reaching the use of `used_symbol` at `stmt_id`
        res = orig_chk(self, stmt_id, frame, status, used_symbol_index, used_symbol, available_symbol_defs)
        sym = int(used_symbol.symbol_id)
        got = pairs(res)
        proj = sorted({(int(d.symbol_id), int(d.stmt_id)) for d in available_symbol_defs if d.symbol_id == used_symbol.symbol_id})
        external = [(sym, int(stmt_id))]          # pseudo definition of a symbol the method never defines
        rec = use_sites.setdefault(fkey(frame), {}).setdefault((int(stmt_id), sym),
                                                               {"union": set(), "last": [], "n": 0, "bad": [], "ext": 0})
        rec["n"] += 1
        if got == external and not proj:
            rec["ext"] += 1
            return res
        rec["union"].update(got)
        rec["last"] = got
        if got != proj and len(rec["bad"]) < 3:
            rec["bad"].append({"available_of_symbol": proj, "treated_as_reaching": got})
        return res

    def wrapped_rerun(self, stmt_id, stmt, frame, result_flag):
        st = frame.stmt_id_to_status[stmt_id]
        syms = []
        for idx in st.implicitly_defined_symbols:
            it = frame.symbol_state_space[idx]
            if isinstance(it, Symbol):
                syms.append(int(it.symbol_id))
        reruns.setdefault(fkey(frame), []).append((int(stmt_id), syms))
        return orig_rerun(self, stmt_id, stmt, frame, result_flag)

    def wrapped_as(self, frame):
        r = orig_as(self, frame)
        k = fkey(frame)
        calls.append((k, int(frame.method_id),
                      bool(r is not None and getattr(r, "interruption_flag", False)),
                      int(self.max_analysis_round), int(self.analysis_phase_id)))
        snap = {}
        try:
            for sid, st in frame.stmt_id_to_status.items():
                syms = []
                for idx in st.implicitly_defined_symbols:
                    it = frame.symbol_state_space[idx]
                    if isinstance(it, Symbol):
                        syms.append([int(it.symbol_id), str(it.name)])
                if syms:
                    snap[int(sid)] = syms
        except Exception:
            pass
        implicit_final[k] = snap
        return r

    P.analyze_reachable_symbols = wrapped
    P.analyze_stmts = wrapped_as
    P.check_reachable_symbol_defs = wrapped_chk
    P.rerun_analyze_reachable_symbols = wrapped_rerun
    from lian.main import Lian
    ws = os.path.join(workdir, "ws")
    sys.argv = ["lian", "semantic", "-l", "python", "-w", ws, "-f", "-q", os.path.join(workdir, "src")]
    t = time.time()
    buf = io.StringIO()
    err = None
    try:
        with contextlib.redirect_stdout(buf), contextlib.redirect_stderr(buf):
            Lian().run()
    except BaseException as e:      # lian calls sys.exit on some errors
        err = f"{type(e).__name__}: {e}"
    elapsed = time.time() - t
    res = {"params": {"loop_back": loop_back, "loop_true": loop_true, "loop_ops": loop_ops,
                      "weight_works": bool(weight_works),
                      "config_max_round_global": int(config.MAX_ANALYSIS_ROUND_FOR_GLOBAL_ANALYSIS),
                      "config_max_round_prelim": int(config.MAX_ANALYSIS_ROUND_FOR_PRELIM_ANALYSIS)},
           "fingerprints": fingerprints, "time": elapsed, "error": err, "log": buf.getvalue()[-1500:],
           "methods": []}
    wsd = os.path.join(ws, "lian_workspace")
    src_texts = {}
    for fn_ in os.listdir(os.path.join(workdir, "src")):
        src_texts[fn_] = open(os.path.join(workdir, "src", fn_)).read()

    def rd(pat):
        fs = sorted(glob.glob(os.path.join(wsd, pat)), key=lambda p: (len(p), p))
        return pd.concat([pd.read_feather(f) for f in fs], ignore_index=True) if fs else None

    try:
        gir, cfg = rd("frontend/gir.bundle*"), rd("semantic_p1/cfg.bundle*")
        st1, sp1 = rd("semantic_p1/stmt_status_p1.bundle*"), rd("semantic_p1/s2space_p1.bundle*")
        st3 = rd("semantic_p3/stmt_status_p3.bundle*")
        names = pd.read_feather(os.path.join(wsd, "semantic_p1/method_id_to_name"))
    except Exception as e:
        res["error"] = (res["error"] or "") + f" tables: {type(e).__name__}: {e}"
        gir = None
    if gir is not None and cfg is not None and st1 is not None and sp1 is not None and st3 is not None:
        op = {int(r.stmt_id): r.operation for r in gir.itertuples()}
        line = {int(r.stmt_id): (None if r.start_row != r.start_row else int(r.start_row)) for r in gir.itertuples()}
        def _s(x):
            return x if isinstance(x, str) and x else None
        gir_def, tag_of_stmt, call_name, unit_globals, unit_of_stmt = {}, {}, {}, {}, {}
        cols = set(gir.columns)
        for r in gir.itertuples():
            o = r.operation
            tgt = _s(getattr(r, "target", None)) if "target" in cols else None
            nm = _s(getattr(r, "name", None)) if "name" in cols else None
            if o in ("variable_decl", "parameter_decl", "forin_stmt", "for_value_stmt", "method_decl", "class_decl"):
                gir_def[int(r.stmt_id)] = nm          # a nested def / class is a definition of its name
            elif o in ("block_start", "block_end"):
                continue
            else:
                gir_def[int(r.stmt_id)] = tgt
            if o == "assign_stmt" and tgt == TAG and "operand" in cols and str(r.operand).isdigit():
                tag_of_stmt[int(r.stmt_id)] = int(r.operand)
            if o == "call_stmt":
                call_name[int(r.stmt_id)] = nm
            if o == "variable_decl" and int(r.parent_stmt_id) == 0 and nm:
                unit_globals.setdefault(int(r.unit_id), {})[nm] = int(r.stmt_id)
            unit_of_stmt[int(r.stmt_id)] = int(r.unit_id)
        name_of = {}
        for r in names.itertuples():
            for m in r.method_id:
                name_of[int(m)] = r.method_name
        methods = {}
        for r in cfg.itertuples():
            m = methods.setdefault(int(r.method_id), {"edges": [], "status": {}, "space": {}})
            m["edges"].append([int(r.src_stmt_id), int(r.dst_stmt_id), int(r.control_flow_type)])
        for r in sp1.itertuples():
            mid = int(r.method_id)
            if mid in methods:
                methods[mid]["space"][int(r.index)] = (int(r.symbol_or_state),
                                                       None if r.symbol_id != r.symbol_id else int(r.symbol_id), r.name)
        for r in st1.itertuples():
            mid = int(r.method_id)
            if mid in methods:
                methods[mid]["status"][int(r.stmt_id)] = (int(r.defined_symbol), _ilist(r.implicitly_defined_symbols))
        stmt_to_method = {}
        for mid, m in methods.items():
            m["method_id"] = mid
            m["name"] = name_of.get(mid)
            m["defs"], m["symname"], m["gir_mismatch"] = {}, {}, []
            m["file"] = "pack.py"
            for sid in m["status"]:
                if sid in tag_of_stmt:
                    m["name"] = f"top{tag_of_stmt[sid]}"
                    m["file"] = f"t{tag_of_stmt[sid]:04d}.py"
            for sid, (dsym, impl) in m["status"].items():
                stmt_to_method[sid] = mid
                ds = []
                for idx in [dsym] + impl:
                    e = m["space"].get(idx)
                    if idx >= 0 and e is not None and e[0] == 0 and e[1] is not None:
                        ds.append(e[1])
                        m["symname"][e[1]] = e[2]
                m["defs"][sid] = ds
                # ground truth straight from the GIR row, independent of every lian table: the name this
                # statement assigns (target of an assignment, name of a declaration / for-in variable)
                want = gir_def.get(sid)
                have = m["symname"].get(ds[0]) if ds else None
                if want != have:
                    m["gir_mismatch"].append([sid, want, have])
            m["stmts"] = sorted(m["status"])
            m["loops"] = sorted(s for s in m["stmts"] if op.get(s) in constants.LOOP_OPERATIONS)
            m["op"] = {s: op.get(s) for s in m["stmts"]}
            m["line"] = {s: line.get(s) for s in m["stmts"]}
            m["real"], m["contexts"] = {}, set()
        for r in st3.itertuples():
            sid = int(r.stmt_id)
            mid = stmt_to_method.get(sid)
            if mid is None:
                continue
            ins = sorted({(int(d["symbol_id"]), int(d["stmt_id"])) for d in json.loads(r.in_symbol_bits)})
            outs = sorted({(int(d["symbol_id"]), int(d["stmt_id"])) for d in json.loads(r.out_symbol_bits)})
            methods[mid]["contexts"].add(int(r.method_id))
            methods[mid]["real"].setdefault(sid, []).append((ins, outs, _ilist(r.implicitly_defined_symbols)))
        frames = {}
        for (fk, mid, sid) in visits:
            frames.setdefault(mid, {}).setdefault(fk, []).append(sid)
        callinfo = {}
        for (fk, mid, intr, mr, ph) in calls:
            c = callinfo.setdefault(mid, {"frames": set(), "interrupted": False, "max_round": mr, "phase": ph, "n": 0})
            c["frames"].add(fk); c["interrupted"] |= intr; c["n"] += 1
        for mid, m in sorted(methods.items()):
            ci = callinfo.get(mid)
            fr = frames.get(mid, {})
            res["methods"].append({
                "method_id": mid, "name": m["name"], "edges": m["edges"], "stmts": m["stmts"], "loops": m["loops"],
                "gir_mismatch": m["gir_mismatch"], "file_text": src_texts.get(m["file"]),
                "call_stmts": [[s_, call_name[s_]] for s_ in m["stmts"] if s_ in call_name],
                "unit_globals": sorted(unit_globals.get(unit_of_stmt.get(m["stmts"][0], -1), {}).items()) if m["stmts"] else [],
                "defs": [[s, m["defs"][s]] for s in m["stmts"]],
                "op": [[s, m["op"][s]] for s in m["stmts"]], "line": [[s, m["line"][s]] for s in m["stmts"]],
                "symname": [[k, v] for k, v in sorted(m["symname"].items())],
                "real_in": [[s, [list(d) for d in m["real"][s][0][0]] if s in m["real"] else []] for s in m["stmts"]],
                "real_out": [[s, [list(d) for d in m["real"][s][0][1]] if s in m["real"] else []] for s in m["stmts"]],
                "implicit": sorted({x for s in m["real"] for x in m["real"][s][0][2]}),
                "rows_per_stmt": max([len(v) for v in m["real"].values()] or [0]),
                "contexts": len(m["contexts"]),
                "visits": list(fr.values())[0] if len(fr) == 1 else None,
                "in_trace": in_trace.get(list(fr)[0]) if len(fr) == 1 else None,
                "use_sites": [[st_, sy, sorted(r["union"]), r["last"], r["n"], r["bad"], r["ext"]]
                              for (st_, sy), r in sorted(use_sites.get(list(fr)[0], {}).items())] if len(fr) == 1 else None,
                "reruns": reruns.get(list(fr)[0], []) if len(fr) == 1 else None,
                "implicit_final": sorted(implicit_final.get(list(fr)[0], {}).items()) if len(fr) == 1 else None,
                "frames": len(fr),
                "analyze_stmts_calls": ci["n"] if ci else 0,
                "interrupted": bool(ci["interrupted"]) if ci else False,
                "max_round": ci["max_round"] if ci else None, "phase": ci["phase"] if ci else None,
            })
    with open(os.path.join(workdir, "result.json"), "w") as f:
        json.dump(res, f)


def n_workers():
    return max(1, min(os.cpu_count() or 1, int(os.environ.get("LV_WORKERS", "8"))))


def run_packs(packs, scratch, timeout, parallel=None):
    """packs: list of (label, source text | [(file name, text), …]). Returns list of result dicts (or {'error':...})."""
    parallel = min(parallel or n_workers(), n_workers())
    procs, results = [], [None] * len(packs)
    env = dict(os.environ)
    env["LIAN_REPO"] = common.REPO
    pending = list(enumerate(packs))
    running = []
    while pending or running:
        while pending and len(running) < parallel:
            i, (label, text) = pending.pop(0)
            wd = os.path.join(scratch, f"p{i}")
            os.makedirs(os.path.join(wd, "src"), exist_ok=True)
            files = [("pack.py", text)] if isinstance(text, str) else text
            for fname, ftext in files:
                open(os.path.join(wd, "src", fname), "w").write(ftext)
            p = subprocess.Popen([sys.executable, HERE, "--worker", wd], env=env,
                                 stdout=subprocess.DEVNULL, stderr=subprocess.PIPE, text=True)
            running.append((i, wd, p, time.time()))
        time.sleep(0.2)
        still = []
        for (i, wd, p, t0) in running:
            rc = p.poll()
            if rc is None:
                if time.time() - t0 > timeout:
                    p.kill()
                    results[i] = {"error": f"timeout after {timeout}s", "methods": [], "time": timeout}
                else:
                    still.append((i, wd, p, t0))
                continue
            rf = os.path.join(wd, "result.json")
            if os.path.exists(rf):
                results[i] = json.load(open(rf))
            else:
                results[i] = {"error": f"worker exit {rc}: {(p.stderr.read() or '')[-600:]}", "methods": [], "time": time.time() - t0}
            shutil.rmtree(os.path.join(wd, "ws"), ignore_errors=True)
        running = still
    return results


# ====================================================================== oracle (independent of the model)
def build_graph(edges):
    nodes, succ, pred, kind = [], {}, {}, {}
    def addn(n):
        if n not in succ:
            nodes.append(n); succ[n] = []; pred[n] = []
    for (u, v, k) in edges:
        if u == v or u < 0:
            continue
        addn(u); addn(v)
        if v not in succ[u]:
            succ[u].append(v); pred[v].append(u); kind[(u, v)] = k
    return nodes, succ, pred, kind


def oracle(edges, stmts, defs, loops, loop_true):
    """classical reaching definitions on the real CFG, computed with networkx path search.
    may[s]  : definitions with a definition-clear CFG path to the entry of s
    must[s] : definitions reaching s in an execution from the entry in which no loop body runs more
              than once (classical RD over the once-unrolled CFG)"""
    import networkx as nx
    nodes, succ, pred, kind = build_graph(edges)
    G = nx.DiGraph()
    G.add_nodes_from(nodes)
    G.add_edges_from(kind)
    stmts = set(stmts)
    syms = sorted({s for ds in defs.values() for s in ds})
    may = {s: set() for s in stmts}
    for sym in syms:
        clear = {n for n in G.nodes if sym not in defs.get(n, [])}
        for s in stmts:
            if sym in defs.get(s, []) and s in G:
                rout = {s} | nx.descendants(G.subgraph(clear | {s}), s)
                for n in rout:
                    for v in G.successors(n):
                        if v in may:
                            may[v].add((sym, s))
    indeg0 = sorted(n for n in G.nodes if G.in_degree(n) == 0)
    must = {s: set() for s in stmts}
    reach, once_ok = set(), True
    if indeg0:
        entry = indeg0[0]
        reach = {entry} | nx.descendants(G, entry)
        body = {}
        for h in loops:
            if h not in G:
                continue
            Gm = G.subgraph(set(G.nodes) - {h})
            b = set()
            for v in G.successors(h):
                if kind[(h, v)] == loop_true:
                    b |= {v} | nx.descendants(Gm, v)
            body[h] = b
        G2 = nx.DiGraph()
        G2.add_node((entry, 0))
        for (u, v) in kind:
            tgt = (v, 1) if (v in body and u in body[v]) else (v, 0)
            G2.add_edge((u, 0), tgt)
            if u in body and kind[(u, v)] != loop_true:
                G2.add_edge((u, 1), tgt)
        R = {(entry, 0)} | nx.descendants(G2, (entry, 0))
        G2 = G2.subgraph(R)
        once_ok = nx.is_directed_acyclic_graph(G2)
        IN = {x: set() for x in G2}; OUT = {x: set() for x in G2}

        def tr(x):
            i = set()
            for p in G2.predecessors(x):
                i |= OUT[p]
            o = set(i)
            for sym in defs.get(x[0], []):
                o = {d for d in o if d[0] != sym}
                o.add((sym, x[0]))
            ch = i != IN[x] or o != OUT[x]
            IN[x], OUT[x] = i, o
            return ch
        if once_ok:
            for x in nx.topological_sort(G2):
                tr(x)
        else:                        # unstructured cycle left: fall back to the fixpoint (still sound as a lower bound? no: skip)
            must = {s: set() for s in stmts}
        if once_ok:
            for x in G2:
                if x[0] in must:
                    must[x[0]] |= IN[x]
    return {"may": may, "must": must, "reach": reach, "cyclic": not nx.is_directed_acyclic_graph(G),
            "multi_entry": len(indeg0) > 1, "once_ok": once_ok}


# ====================================================================== per-method evaluation
def model_defs(m):
    """defined-symbol table fed to the MODEL: `[status.defined_symbol] + status.implicitly_defined_symbols` as
    the real run ended up with them (P1 table + the implicit definitions harvested in memory)"""
    impl = {s: [x[0] for x in syms] for s, syms in (m.get("implicit_final") or [])}
    return [[s, list(ds) + [x for x in impl.get(s, []) if x not in ds]] for s, ds in m["defs"]]


def helper_globals(text):
    """ground truth for implicit definitions, from the program text alone: module-level function -> names it
    declares `global` and assigns"""
    out = {}
    try:
        tree = ast.parse(text or "")
    except SyntaxError:
        return out
    for fn in tree.body:
        if isinstance(fn, ast.FunctionDef):
            gl = {n for st in ast.walk(fn) if isinstance(st, ast.Global) for n in st.names}
            asg = {t.id for st in ast.walk(fn) if isinstance(st, (ast.Assign, ast.AugAssign))
                   for t in (st.targets if isinstance(st, ast.Assign) else [st.target]) if isinstance(t, ast.Name)}
            out[fn.name] = sorted(gl & asg)
    return out


def oracle_defs(m):
    """defined-symbol table fed to the ORACLE: P1 explicit definitions (cross-checked against the GIR rows) +, for
    every call statement, the module-level variables the callee assigns through `global` (from the program text)"""
    hg = helper_globals(m.get("file_text"))
    gid = dict(m.get("unit_globals") or [])
    callee = dict(m.get("call_stmts") or [])
    out = {}
    for s, ds in m["defs"]:
        extra = [gid[n] for n in hg.get(callee.get(s), []) if n in gid]
        out[s] = list(ds) + [x for x in extra if x not in ds]
    return out


def model_request(m, params, variant):
    return {"m": "reachdef", "variant": variant, "edges": m["edges"], "stmts": m["stmts"], "loops": m["loops"],
            "defs": model_defs(m), "max_round": m["max_round"], "weight_works": params["weight_works"],
            "loop_back": params["loop_back"]}


def comparable(m):
    """methods the model speaks about: analysed in exactly one frame and one context by the GLOBAL phase (the
    PRELIM shortcut is not modelled).  Interruption by callee analysis and implicit definitions are inside the
    fragment since round 3: on resume `analyze_reachable_symbols` is skipped, so the visit sequence is that of
    an uninterrupted run, and the rerun pass adds the implicit definitions to the out set — the model runs with
    explicit + implicit definitions of the call statement."""
    if m["visits"] is None or m["frames"] != 1 or m["contexts"] != 1 or m["rows_per_stmt"] != 1:
        return "not-analysed-exactly-once"
    if m["phase"] is None or m["max_round"] is None:
        return "no-frame"
    if (m["interrupted"] or m["analyze_stmts_calls"] != 1) and m["loops"]:
        # on resume the loop re-peeks work_list[0]; inside a loop that can be a different statement than the
        # interrupted call (a back-edge target sifted to the front) — that interplay is not modelled
        return "interrupted-inside-a-method-with-loops"
    return None


def evaluate(methods, params):
    """methods: list of worker method dicts (comparable ones). Adds verdict fields to each. One driver batch."""
    reqs = []
    for m in methods:
        reqs.append(model_request(m, params, "pinned"))
        reqs.append(model_request(m, params, "ideal"))
        r = model_request(m, params, "chkfix")
        r["in"], r["out"] = m["real_in"], m["real_out"]
        reqs.append(r)
    outs = drv_ok(drv_batch(reqs)) if reqs else []
    for k, m in enumerate(methods):
        mo, idl, chk = outs[3 * k], outs[3 * k + 1], outs[3 * k + 2]
        defs = oracle_defs(m)
        mdefs = {s: ds for s, ds in model_defs(m)}
        orc = oracle(m["edges"], m["stmts"], defs, m["loops"], params["loop_true"])
        rin = {s: {tuple(d) for d in ds} for s, ds in m["real_in"]}
        m_in = [[s, ds] for s, ds in mo["in"]]
        diffs = []
        if mo["visits"] != m["visits"]:
            diffs.append("visits")
        if m_in != [[s, sorted(ds)] for s, ds in m["real_in"]]:
            diffs.append("in")
        if [[s, ds] for s, ds in mo["out"]] != [[s, sorted(ds)] for s, ds in m["real_out"]]:
            diffs.append("out")
        if m.get("in_trace") is not None and mo.get("in_trace") != [[list(d) for d in t] for t in m["in_trace"]]:
            diffs.append("in-set-at-every-visit")
        lost, dead = {}, {}
        for s in m["stmts"]:
            if s not in orc["reach"]:
                continue
            l = orc["must"][s] - rin[s]
            d = rin[s] - orc["may"][s]
            if l:
                lost[s] = sorted(l)
            if d:
                dead[s] = sorted(d)
        # ---- the use-site layer: what check_reachable_symbol_defs handed to the symbol graph / state computation
        method_syms = {x for ds in defs.values() for x in ds} | {x for ds in mdefs.values() for x in ds}
        use_lost, use_dead, proj_bad, n_use = {}, {}, [], 0
        opmap = dict(m["op"])
        for (st, sym, union, last, n, bad, ext) in (m.get("use_sites") or []):
            if bad:
                proj_bad.append({"stmt": st, "symbol": sym, "examples": bad})
            if sym not in method_syms or st not in orc["reach"] or n == ext:
                continue
            n_use += 1
            treated = {tuple(d) for d in union}
            # a hoisted `variable_decl` carries no value: an analysis may legitimately not treat it as reaching a
            # use, so it is not REQUIRED at the use-site layer (it stays allowed, and stays required in the in sets,
            # where lian generates it by construction)
            l = {d for d in orc["must"][st] if d[0] == sym and opmap.get(d[1]) != "variable_decl"} - treated
            d = treated - {d for d in orc["may"][st] if d[0] == sym}
            if l:
                use_lost[(st, sym)] = sorted(l)
            if d:
                use_dead[(st, sym)] = sorted(d)
        iin = {s: {tuple(d) for d in ds} for s, ds in idl["in"]}
        ideal_ok = idl["converged"] and all(iin[s] == orc["may"][s] for s in m["stmts"]) and \
            all(orc["must"][s] <= iin[s] for s in m["stmts"] if s in orc["reach"])
        m["v"] = {"corr_diffs": diffs, "lost": lost, "dead": dead, "ideal_ok": bool(ideal_ok),
                  "use_lost": use_lost, "use_dead": use_dead, "use_projection_bad": proj_bad, "use_sites_checked": n_use,
                  "implicit_vs_ground_truth": sorted(s for s in defs if sorted(defs[s]) != sorted(mdefs.get(s, []))),
                  "cyclic": orc["cyclic"], "multi_entry": orc["multi_entry"], "once_ok": orc["once_ok"],
                  "skips": mo["skips"], "skip_stmts": mo.get("skip_stmts", []), "finished": mo["finished"],
                  "defs_of": mdefs, "ideal_converged": idl["converged"],
                  "ideal_topo": idl["topo"], "ideal_sweeps": idl["sweeps"], "real_fixpoint": chk["fixpoint"],
                  "model_visits": mo["visits"], "model_in": mo["in"], "exact": all(rin[s] == orc["may"][s] for s in m["stmts"] if s in orc["reach"]),
                  "n_reach": sum(1 for s in m["stmts"] if s in orc["reach"]),
                  "must_eq_may": all(orc["must"][s] == orc["may"][s] for s in m["stmts"] if s in orc["reach"])}
    return methods


def fails(v):
    """any oracle failure: at the in sets or at the use sites"""
    return bool(v["lost"] or v["dead"] or v["use_lost"] or v["use_dead"])


def pretty_defs(m, ds):
    sn = {k: v for k, v in m["symname"]}
    ln = {s: l for s, l in m["line"]}
    return sorted(f"{sn.get(a, a)}@line{ln.get(b)}(stmt {b})" for a, b in ds)


def findings_for(v):
    """MODEL-PREDICTED matcher (DESIGN §2.5).  Returns the set of finding ids that together account for every
    oracle failure of this method (at the in sets and at the use sites), or None when some failure is not a
    recorded one.
    Common to all three: (1) the real visit sequence, the in set at EVERY visit, the final in and out sets equal
    the frozen faithful model's on the real CFG, (2) every real call of check_reachable_symbol_defs returned
    exactly the projection of its available set on the used symbol (so the use-site failures are the model's
    too: C06_use_site_is_projection), and (3) the idealised solver passes the oracle on the same input.
    * lost definitions  -> C06/loop-def-lost (cyclic CFG) / C06/dag-join-def-lost (acyclic CFG)
    * dead definitions  -> C06/kill-skipped-dead-def, only if the frozen model itself took the
      `if key in current_bits: continue` shortcut in this run and every retained dead definition is a definition
      of a symbol defined by a statement at which the shortcut was taken."""
    if not fails(v):
        return set()
    if v["corr_diffs"] or not v["ideal_ok"] or v["use_projection_bad"]:
        return None
    ids = set()
    if v["lost"] or v["use_lost"]:
        ids.add("C06/loop-def-lost" if v["cyclic"] else "C06/dag-join-def-lost")
    all_dead = [d for ds in v["dead"].values() for d in ds] + [d for ds in v["use_dead"].values() for d in ds]
    if all_dead:
        skipped_syms = {sym for u in v["skip_stmts"] for sym in v["defs_of"].get(u, [])}
        if not v["skip_stmts"] or any(d[0] not in skipped_syms for d in all_dead):
            return None
        ids.add("C06/kill-skipped-dead-def")
    return ids


def finding_for(v):
    """printable form of findings_for"""
    ids = findings_for(v)
    return None if not ids else "+".join(sorted(ids))


# ====================================================================== shrinking (batched through lian)
def shrink_candidates(src):
    """single-step reductions of a one-function (or module-level) program: delete a statement, replace a compound statement by
    (one of) its bodies, drop an else branch."""
    has_helpers, src = split_helpers(src)
    try:
        tree = ast.parse(src)
    except SyntaxError:
        return []
    def root(t):      # the function of a function program, the module of a module-level program
        return next((n for n in t.body if isinstance(n, ast.FunctionDef)), t)
    fn = root(tree)
    out = []

    def blocks(node):
        for field in ("body", "orelse"):
            b = getattr(node, field, None)
            if isinstance(b, list) and b and isinstance(b[0], ast.stmt):
                yield node, field, b
        for ch in ast.iter_child_nodes(node):
            if isinstance(ch, ast.stmt):
                yield from blocks(ch)

    found = list(blocks(fn))
    for bi, (owner, field, blk) in enumerate(found):
        for si in range(len(blk)):
            variants = [("del", None)]
            st = blk[si]
            if isinstance(st, (ast.If, ast.While, ast.For)):
                variants.append(("body", "body"))
                if st.orelse:
                    variants.append(("body", "orelse"))
                    variants.append(("noelse", None))
            for kind, which in variants:
                t2 = ast.parse(src)
                owner2, field2, blk2 = list(blocks(root(t2)))[bi]
                if kind == "del":
                    del blk2[si]
                elif kind == "body":
                    blk2[si:si + 1] = getattr(blk2[si], which)
                else:
                    blk2[si].orelse = []
                if not blk2:
                    if field2 == "orelse":
                        pass
                    else:
                        blk2.append(ast.Pass())
                try:
                    txt = ast.unparse(ast.fix_missing_locations(t2)) + "\n"
                    compile(txt, "<shrink>", "exec")     # break/continue outside loop etc. are rejected here
                except Exception:
                    continue
                if txt != src and txt not in out:
                    out.append(txt)
    return [HELPERS + t for t in out] if has_helpers else out


def rename_function(src, new):
    tree = ast.parse(src)
    fn = next(n for n in tree.body if isinstance(n, ast.FunctionDef))
    old = fn.name
    fn.name = new
    for n in ast.walk(tree):
        if isinstance(n, ast.Call) and isinstance(n.func, ast.Name) and n.func.id == old:
            n.func.id = new
    return ast.unparse(tree) + "\n"


def shrink_program(src, still_fails, scratch, params_holder, rounds=8, timeout=120, chunk=60, deadline=None):
    """greedy batched delta debugging: the single-step reductions of the current program (smallest results
    first) are packed, `chunk` at a time, into one lian run each; `still_fails(method dict with verdict)`
    selects survivors; the smallest survivor of the first chunk that has one is kept."""
    cur = src
    for r in range(rounds):
        cands = sorted(shrink_candidates(cur), key=len)
        found = None
        for c0 in range(0, len(cands), chunk):
            if deadline is not None and time.time() > deadline:
                return cur
            part = cands[c0:c0 + chunk]
            files, names = pack_programs(part, prefix="g")
            idx = {n: i for i, n in enumerate(names)}
            res = run_packs([("shrink", files)], os.path.join(scratch, f"shr{r}_{c0}"), timeout, parallel=1)[0]
            if res.get("error") and not res.get("methods"):
                continue
            ms = [m for m in res["methods"] if m["name"] in idx and comparable(m) is None]
            evaluate(ms, res["params"])
            ok = [(len(part[idx[m["name"]]]), idx[m["name"]]) for m in ms if still_fails(m)]
            if ok:
                found = part[min(ok)[1]]
                break
        if found is None:
            break
        cur = found
    return cur


# ====================================================================== corpus
def normalise(stmts, edges, defs, lost=None):
    """statement / symbol ids depend on where the function sits in the packed file: shift them so that the
    method's first statement is 0 (symbol ids of locals and parameters are declaration statement ids)."""
    base = min(stmts)
    sh = lambda x: x - base if x >= base else x
    out = {"edges": [[sh(a), sh(b), k] for a, b, k in edges],
           "defs": [[sh(s), [sh(x) for x in ds]] for s, ds in defs]}
    if lost is not None:
        out["lost"] = sorted([sh(s), [sh(d[0]), sh(d[1])]] for s, d in lost)
    return out


def fingerprints_changed(fp):
    return sorted(k for k, h in (fp or {}).items() if FINGERPRINTS_AT_LAST_GREEN.get(k, h) != h)


def load_corpus():
    items = []
    if os.path.isdir(CORPUS):
        for f in sorted(os.listdir(CORPUS)):
            if f.endswith(".json"):
                j = json.load(open(os.path.join(CORPUS, f)))
                j["file"] = f
                items.append(j)
    return items


def check_corpus(ctx, scratch, stats):
    """every corpus program is replayed through the real code, the model and the oracle; the expectations
    recorded with the witness (which definition is lost where; the CFG the Lean negative theorem uses)
    must still hold on the real code — otherwise the frozen model no longer describes this tree."""
    items = load_corpus()
    if not items:
        return None
    files, names = pack_programs([it["program"] for it in items])
    res = run_packs([("corpus", files)], os.path.join(scratch, "corpus"), 170, parallel=1)[0]
    if res.get("error") and not res.get("methods"):
        raise RuntimeError("corpus pack failed: " + str(res.get("error")))
    params = res["params"]
    ms = {m["name"]: m for m in res["methods"] if m["name"] in names}
    cms = [m for m in ms.values() if comparable(m) is None]
    evaluate(cms, params)
    for i, it in enumerate(items):
        m = ms.get(names[i])
        stats["corpus"] += 1
        if m is None or "v" not in m:
            ctx.violation({"what": "corpus program was not analysed as a single uninterrupted frame",
                           "corpus_file": it["file"], "program": it["program"]}, no_input=True)
            continue
        m["program"] = it["program"]
        m["corpus_file"] = it["file"]
    return params, [m for m in cms], items, res.get("fingerprints")


# ====================================================================== SimpleWorkList op-level correspondence
def worklist_histories(rng, tier):
    import itertools
    hs = []
    alphabet = [["add", [1]], ["add", [2]], ["add", [3, 1]], ["pop"], ["peek"]]
    tables = [{1: 2, 2: 1, 3: 0}, {1: 0, 2: 0, 3: 0}, {}]
    for n in range(1, 5 if tier == "quick" else 6):
        for h in itertools.product(alphabet, repeat=n):
            for t in tables:
                hs.append((t, [list(o) for o in h]))
    n_exh = len(hs)
    for _ in range(1500 if tier == "quick" else 20000):
        n = rng.randint(1, 9)
        items = list(range(1, n + 1))
        prio = {i: rng.randint(0, 5) for i in items if rng.random() < 0.9}
        if rng.random() < 0.1:
            prio = {}
        ops = []
        for _ in range(rng.randint(1, 30)):
            r = rng.random()
            if r < 0.55:
                ops.append(["add", [rng.choice(items + [-1]) for _ in range(rng.randint(1, 3))]])
            elif r < 0.85:
                ops.append(["pop"])
            else:
                ops.append(["peek"])
        hs.append((prio, ops))
    return hs, n_exh


def check_worklist(ctx, stats):
    """real SimpleWorkList (priority table injected) vs Lean `WorkList` on the same operation histories"""
    from lian.common_structs import SimpleWorkList
    hs, n_exh = worklist_histories(random.Random(ctx.rng.getrandbits(64)), ctx.tier)
    reqs, real = [], []
    for prio, ops in hs:
        wl = SimpleWorkList()
        wl.priority_dict = dict(prio)
        out = []
        for op in ops:
            if op[0] == "add":
                wl.add(list(op[1])); res = None
            elif op[0] == "pop":
                res = wl.pop()
            else:
                res = wl.peek()
            out.append([res, [[e[0], e[1]] if isinstance(e, tuple) else [0, e] for e in wl.work_list], sorted(wl.all_data)])
        real.append(out)
        reqs.append({"m": "worklist", "prio": [[k, v] for k, v in prio.items()], "ops": ops})
    got = drv_ok(drv_batch(reqs))
    diffs = [(h, r, g) for h, r, g in zip(hs, real, got) if r != g]
    stats["worklist_histories"] = len(hs)
    stats["worklist_histories_exhaustive_part"] = n_exh
    stats["worklist_history_diffs"] = len(diffs)
    if diffs:
        h, r, g = min(diffs, key=lambda x: len(x[0][1]))
        return {"model": "LianVerif.WorkList (add/pop0/peek)", "prio": h[0], "ops": h[1], "real": r, "model_out": g,
                "histories_differing": len(diffs)}
    return None


# ====================================================================== run / replay
def verdicts(ctx, methods, texts_by_name, scratch, stats, shrink=True):
    """DESIGN §2.5 verdict logic over evaluated methods."""
    new_viol = []
    for m in methods:
        v = m["v"]
        stats["methods"] += 1
        stats["stmts"] += len(m["stmts"])
        stats["visits"] += len(m["visits"])
        stats["cyclic" if v["cyclic"] else "acyclic"] += 1
        stats["entry_frames(module-level)" if (m["name"] or "").startswith("top") else "callee_frames(functions)"] += 1
        if m.get("gir_mismatch"):
            stats["defs_table_vs_gir_mismatch_methods"] += 1
        if v["corr_diffs"]:
            stats["corr_diff_methods"] += 1
        if v["skips"]:
            stats["skip_kill_taken"] += 1
        if not v["finished"] or not v["ideal_converged"] or (not v["cyclic"] and not v["ideal_topo"]):
            stats["model_flags_bad"] += 1
        if v["real_fixpoint"]:
            stats["real_passes_certified_fixpoint_check"] += 1
            # C06_certified_exact / C06_fixpoint_sound say: no definition can be lost then (and, without the
            # shortcut, none is dead).  A disagreement with the independent oracle is a defect of the checking
            # machinery itself (oracle, driver glue or model) and is reported, never ignored.
            if v["lost"] or (v["skips"] == 0 and not v["corr_diffs"] and v["dead"]):
                stats["certificate_vs_oracle_disagreements"] += 1
        if v["exact"]:
            stats["real_exact"] += 1
        stats["use_sites_checked"] += v["use_sites_checked"]
        if v["use_projection_bad"]:
            stats["methods_with_use_site_not_projection"] += 1
        if v["implicit_vs_ground_truth"]:
            stats["methods_implicit_defs_differ_from_ground_truth"] += 1
        if m.get("interrupted"):
            stats["methods_interrupted_by_callee_analysis"] += 1
        if m.get("reruns"):
            stats["methods_with_rerun_pass"] += 1
        if fails(v):
            ids = findings_for(v)
            if ids and all(i in ctx.finding_ids("open") for i in ids):
                for fid in sorted(ids):
                    stats["known:" + fid] += 1
                    if fid == "C06/kill-skipped-dead-def":
                        what = v["dead"] or {k[0]: d for k, d in v["use_dead"].items()}
                        s0 = sorted(what)[0]
                        ctx.known(fid, f"e.g. {m['name']}: statement {s0} (line {dict(m['line']).get(s0)}) retains the overwritten "
                                       f"{pretty_defs(m, what[s0])}; the frozen model ReachDef0 took the kill-skipping shortcut at statements "
                                       f"{v['skip_stmts']} and predicts exactly these sets, idealised solver passes the oracle")
                    else:
                        what = v["lost"] or {k[0]: d for k, d in v["use_lost"].items()}
                        s0 = sorted(what)[0]
                        ctx.known(fid, f"e.g. {m['name']}: statement {s0} (line {dict(m['line']).get(s0)}) misses "
                                       f"{pretty_defs(m, what[s0])}; real in/out/visits equal frozen model ReachDef0, idealised solver passes the oracle")
            else:
                new_viol.append(m)
    return new_viol


def report_violation(ctx, m, params, text, scratch, shrink=True, deadline=None):
    v = m["v"]
    prog = text
    if shrink and text:
        def still(mm):
            vv = mm["v"]
            return fails(vv) and findings_for(vv) is None
        try:
            prog = shrink_program(text, still, scratch, params, rounds=40, deadline=deadline)
        except Exception as e:           # shrinking is best effort
            prog = text
    ctx.violation({
        "what": "real reaching-definition sets / the definitions treated as reaching at a use violate C06 (oracle: MUST ⊆ in ⊆ MAY on the real CFG, at the in sets and at the use sites) and the violation is not a recorded model-predicted finding",
        "program": prog, "original_program": text if prog != text else None, "function": m["name"],
        "lost": {str(s): pretty_defs(m, d) for s, d in v["lost"].items()},
        "dead": {str(s): pretty_defs(m, d) for s, d in v["dead"].items()},
        "use_site_lost (stmt, used symbol) -> definitions not treated as reaching": {f"{k[0]},{k[1]}": pretty_defs(m, d) for k, d in v["use_lost"].items()},
        "use_site_dead (stmt, used symbol) -> overwritten definitions treated as reaching": {f"{k[0]},{k[1]}": pretty_defs(m, d) for k, d in v["use_dead"].items()},
        "use_site_not_projection_of_in_set": v["use_projection_bad"][:3],
        "implicit_defs_differ_from_ground_truth_at": v["implicit_vs_ground_truth"],
        "correspondence_differs_in": v["corr_diffs"], "idealised_solver_passes_oracle": v["ideal_ok"],
        "real_visits": m["visits"], "model_visits": v["model_visits"], "params": params,
        "real_in": m["real_in"], "model_in": v["model_in"], "edges": m["edges"], "defs": m["defs"]})


def run(ctx):
    common.use_repo()
    proofs_ok = ctx.proofs()
    tier = ctx.tier
    scratch = os.path.join(common.SCRATCH_ROOT, f"lv-{os.getpid()}")
    shutil.rmtree(scratch, ignore_errors=True)
    os.makedirs(scratch)
    stats = Counter()
    try:
        _run(ctx, proofs_ok, tier, scratch, stats)
    finally:
        shutil.rmtree(scratch, ignore_errors=True)


def _run(ctx, proofs_ok, tier, scratch, stats):
    t_start = time.time()
    wl_diff = check_worklist(ctx, stats)
    # ---- corpus first
    corpus_res = check_corpus(ctx, scratch, stats)
    params0 = None
    new_viol = []
    texts = {}
    if corpus_res:
        params0, cms, items, _fp = corpus_res
        for m in cms:
            it = next(i for i in items if i["file"] == m["corpus_file"])
            exp = it.get("expect", {})
            v = m["v"]
            problems = []
            if "edges" in exp:
                ne = normalise(exp["stmts"], exp["edges"], exp["defs"], exp.get("lost", []))
                nr = normalise(m["stmts"], m["edges"], m["defs"],
                               [[s, list(d)] for s, ds in v["lost"].items() for d in ds])
                if ne["edges"] != nr["edges"]:
                    problems.append("cfg differs from the witness CFG used by the Lean negative theorem")
                if ne["defs"] != nr["defs"]:
                    problems.append("defined-symbol table differs from the witness")
                if it.get("status") == "open":
                    for x in ne["lost"]:
                        if x not in nr["lost"]:
                            problems.append(f"definition {x[1]} is no longer lost at statement {x[0]} (ids relative to the first statement)")
                    nd_e = normalise(exp["stmts"], exp["edges"], exp["defs"], exp.get("dead", []))["lost"]
                    nd_r = normalise(m["stmts"], m["edges"], m["defs"],
                                     [[s, list(d)] for s, ds in v["dead"].items() for d in ds])["lost"]
                    for x in nd_e:
                        if x not in nd_r:
                            problems.append(f"dead definition {x[1]} is no longer retained at statement {x[0]} (ids relative to the first statement)")
            if it.get("status") == "open" and v["corr_diffs"]:
                problems.append("real output no longer equals the frozen model's output: " + ",".join(v["corr_diffs"]))
            if problems:
                stats["corpus_expectation_changed"] += 1
                m["corpus_problems"] = problems
        nv = verdicts(ctx, cms, None, scratch, stats)
        for m in nv:
            report_violation(ctx, m, params0, m.get("program"), scratch, shrink=False)
        for m in cms:
            if m.get("corpus_problems") and m not in nv:
                # the tree changed under a recorded witness: not a verdict about the property by itself,
                # but the correspondence with the frozen model is gone — reported below if nothing concrete is found
                stats["corpus_notes"] += 1
                texts.setdefault("_corpus_notes", []).append({"file": m["corpus_file"], "problems": m["corpus_problems"]})

    # ---- generated packs: functions called once from top level (callee frames) and module-level programs
    #      (entry frames: every file's %unit_init is an entry point with its own space, index baseline 0)
    if tier == "quick":
        npacks, nfun, ntop, ntopn, timeout, par = 12, 12, 6, 16, 60, None
        if params0 is not None and corpus_res is not None and fingerprints_changed(corpus_res[3]):
            npacks, ntop = 18, 8   # an anchored source differs from the last green thorough run: look harder (scheduling only)
    else:
        npacks, nfun, ntop, ntopn, timeout, par = 90, 12, 30, 16, 400, None
    packs, gen_stats, prog_of = [], Counter(), []
    sysf = systematic_functions()
    for part in (sysf[:len(sysf) // 2], sysf[len(sysf) // 2:]):
        text = pack_source(part)
        prog_of.append({name: function_source(text, name) for name, _, _ in part})
        packs.append((f"systematic{len(packs)}", text))
    systop = []
    for name, lines, _ in sysf:
        body = [l[4:] for l in lines[1:]]
        if body and body[-1].startswith("return"):
            body = body[:-1]
        if any(l.strip().startswith("return") for l in body):
            continue
        systop.append("\n".join(body) + "\n")
    files, names = pack_programs(systop)
    prog_of.append(dict(zip(names, systop)))
    packs.append(("systematic-toplevel", files))
    n_sys = len(sysf) + len(systop)
    for p in range(npacks):
        sub = random.Random(ctx.rng.getrandbits(64))
        with_calls = (p % 4 == 3)       # every 4th pack: loop-free callers of the HELPERS (interruption, rerun pass)
        funs, st = gen_functions(sub, nfun, loops_share=0.0 if with_calls else 0.75, calls=with_calls)
        gen_stats.update(st)
        text = pack_source(funs, helpers=with_calls)
        prog_of.append({name: (HELPERS if with_calls else "") + function_source(text, name) for name, _, _ in funs})
        packs.append((f"pack{p}" + ("-calls" if with_calls else ""), text))
    for p in range(ntop):
        sub = random.Random(ctx.rng.getrandbits(64))
        with_calls = (p % 3 == 2)
        progs, st = gen_toplevel(sub, ntopn, loops_share=0.0 if with_calls else 0.7, calls=with_calls)
        gen_stats.update({"toplevel:" + k: v for k, v in st.items()})
        files, names = pack_programs(progs)
        prog_of.append(dict(zip(names, progs)))
        packs.append((f"toplevel{p}" + ("-calls" if with_calls else ""), files))
    results = run_packs(packs, os.path.join(scratch, "gen"), timeout, parallel=par)
    params = params0
    fingerprints = None
    skipped = Counter()
    all_methods = []
    lian_times = []
    for p, res in enumerate(results):
        if res.get("error") and not res.get("methods"):
            stats["packs_failed"] += 1
            skipped[f"pack-failed:{packs[p][0]}:" + str(res.get("error"))[:60]] += 1
            continue
        lian_times.append(round(res["time"], 1))
        if params is None:
            params = res["params"]
        elif res["params"] != params:
            raise RuntimeError("extracted parameters differ between packs")
        fingerprints = res["fingerprints"]
        ms = []
        for m in res["methods"]:
            if m["name"] not in prog_of[p]:
                continue
            why = comparable(m)
            if why:
                skipped[why] += 1
                continue
            m["pack"] = p
            m["program"] = prog_of[p][m["name"]]
            ms.append(m)
        evaluate(ms, params)
        all_methods += ms
    if not all_methods:
        raise RuntimeError("no generated method could be analysed: " + json.dumps(dict(skipped)))
    nv = verdicts(ctx, all_methods, None, scratch, stats)
    # shrink the smallest violating programs (batched through lian; bounded by a deadline so that the tier's
    # time budget holds): quick 1 program / 50 s, thorough 2 programs / 240 s each
    nv.sort(key=lambda m: len(m["program"]))
    for k, m in enumerate(nv[:5]):
        do = k < (1 if tier == "quick" else 2)
        report_violation(ctx, m, params, m["program"], scratch, shrink=do,
                         deadline=time.time() + (50 if tier == "quick" else 240))
    stats["violating_methods"] = len(nv) + len(new_viol)

    # ---- coverage
    distinct = set()
    for m in all_methods:
        v = m["v"]
        # non-trivial: a join or a loop, and at least one statement reached by >= 2 definitions of one symbol
        multi = any(len({d[0] for d in ds}) < len(ds) for _, ds in m["real_in"])
        if multi and (v["cyclic"] or any(len([e for e in m["edges"] if e[1] == s]) > 1 for s in m["stmts"])):
            key = json.dumps([m["edges"], m["defs"]])
            distinct.add(hashlib.sha256(key.encode()).hexdigest())
    ctx.cov["evaluations"] = stats["methods"]
    ctx.cov["distinct_nontrivial"] = len(distinct)
    ctx.cov["rule"] = (f"corpus programs first, then a fixed enumerated family of {n_sys} tiny programs (10 templates x 5 blocks, singly and all 100 ordered pairs; as functions and again as module-level files), then generated call-free Python code (straight-line incl. self-referential "
                       "assignments x = x + y / x += 1, if/elif/else, early return, break/continue, while/for-in nested <=2, 2-4 variables) in two placements: "
                       f"{npacks} packs of 12 functions each called once from top level (callee frames) and {ntop} packs of {ntopn} files of module-level code "
                       "(entry frames: %unit_init, index baseline 0); every 3rd/4th pack loop-free; seeded by VERIF_SEED; one evaluation = one method analysed by lian's P3 "
                       "and compared (visit sequence, in sets, out sets) with the Lean model on the real cfg.bundle rows + oracle on the real in sets; "
                       "distinct non-trivial = distinct (CFG, defined-symbol table) with a join or loop in which some statement is reached by >= 2 definitions of one symbol")
    ctx.cov["exhaustive"] = False
    ctx.cov["statements_compared"] = stats["stmts"]
    ctx.cov["visits_compared"] = stats["visits"]
    ctx.cov["stats"] = dict(stats)
    ctx.cov["constructs_generated"] = dict(gen_stats)
    ctx.cov["methods_skipped"] = dict(skipped)
    ctx.cov["params_extracted"] = params
    ctx.cov["fingerprints"] = fingerprints
    ctx.cov["fingerprints_changed_since_last_green"] = fingerprints_changed(fingerprints)
    ctx.cov["lian_seconds_per_pack"] = lian_times
    ctx.cov["correspondence"] = {"model": "LianVerif.ReachDef.rd (variant pinned) on real cfg.bundle + real defined symbols",
                                 "methods_compared": stats["methods"], "methods_differing": stats["corr_diff_methods"],
                                 "worklist_op_histories_compared": stats["worklist_histories"],
                                 "worklist_op_histories_differing": stats["worklist_history_diffs"]}
    ctx.cov["fragment"] = {"inside": stats["methods"], "outside": sum(skipped.values())}
    ctx.cov["monitored_hypotheses"] = {
        "skip_kill_shortcut_taken (hypothesis of C06_no_dead_defs_partial)": stats["skip_kill_taken"],
        "idealised solver not converged / isTopo false on acyclic CFG / (proved, re-checked) work list not empty at fuel end": stats["model_flags_bad"],
        "certified fixpoint check passed on real tables but the independent oracle reports a lost/dead definition": stats["certificate_vs_oracle_disagreements"],
        "methods where the name a GIR row assigns differs from the defined-symbol table fed to model and oracle": stats["defs_table_vs_gir_mismatch_methods"]}
    sample = []
    for m in all_methods[:1] + [x for x in all_methods if (x["name"] or "").startswith("top")][-1:]:
        sample.append({"function": m["program"],
                       "real_visits": m["visits"], "lost": {str(s): pretty_defs(m, d) for s, d in m["v"]["lost"].items()},
                       "known_finding": finding_for(m["v"])})
    ctx.cov["samples"] = sample
    ctx.assumptions += [
        "methods interrupted by callee analysis, with implicitly defined symbols, or analysed in more than one frame are outside the model and skipped (counted in coverage.methods_skipped)",
        "lian is run with sub-command `semantic` (lang + P1 + P3; P2 disabled as by default); in/out sets are read from semantic_p3/stmt_status_p3.bundle*",
        "oracle MUST set = classical reaching definitions over the once-unrolled real CFG (every LOOP_TRUE edge at most once), MAY set = definition-clear path search on the real CFG",
    ]

    # ---- correspondence / proofs without a concrete failing input
    corr_methods = [m for m in all_methods if m["v"]["corr_diffs"]]
    flags_bad = [m for m in all_methods if (not m["v"]["finished"]) or (not m["v"]["ideal_converged"])
                 or (not m["v"]["cyclic"] and not m["v"]["ideal_topo"])
                 or m.get("gir_mismatch") or m["v"]["use_projection_bad"]
                 or (m["v"]["real_fixpoint"] and (m["v"]["lost"] or (m["v"]["skips"] == 0 and not m["v"]["corr_diffs"] and m["v"]["dead"])))]
    notes = texts.get("_corpus_notes")
    if not ctx.violations and (corr_methods or flags_bad or not proofs_ok or notes or wl_diff):
        m = (corr_methods or flags_bad or [None])[0]
        ctx.violation({
            "what": "proof obligation, monitored hypothesis or model/code correspondence broken; the oracle found no failing input in this run's batch (corpus + generated packs)",
            "broken_theorems": ctx.audit["failures"],
            "corpus_notes": notes,
            "worklist_correspondence": wl_diff,
            "correspondence": None if m is None else {
                "model": "LianVerif.ReachDef.rd variant=pinned", "function": m["name"],
                "program": m.get("program"),
                "differs_in": m["v"]["corr_diffs"], "real_visits": m["visits"], "model_visits": m["v"]["model_visits"],
                "real_in": m["real_in"], "model_in": m["v"]["model_in"],
                "flags": {k: m["v"][k] for k in ("finished", "ideal_converged", "ideal_topo", "skips", "real_fixpoint")},
                "defined_name_per_GIR_row_vs_defined_symbol_table": m.get("gir_mismatch"),
                "methods_differing": len(corr_methods)}},
            no_input=True)


def replay(rp):
    """re-run the real code on the replay's program; 1 if it still violates (oracle on real output, known
    findings not subtracted: a replay file is only written for violations that were not known)."""
    common.use_repo()
    prog = rp.get("program") or (rp.get("correspondence") or {}).get("program")
    if not prog:
        print(json.dumps({"note": "replay file carries no program (proof obligation only): re-run ./check C06 quick"}))
        return 1
    scratch = os.path.join(common.SCRATCH_ROOT, f"lv-{os.getpid()}")
    os.makedirs(scratch, exist_ok=True)
    try:
        files, names = pack_programs([prog])
        res = run_packs([("replay", files)], scratch, 170, parallel=1)[0]
        if res.get("error") and not res.get("methods"):
            print(json.dumps({"error": res.get("error")}))
            return 2
        ms = [m for m in res["methods"] if m["name"] == names[0] and comparable(m) is None]
        if not ms:
            print(json.dumps({"error": "function not analysed as a single uninterrupted frame"}))
            return 2
        evaluate(ms, res["params"])
        v = ms[0]["v"]
        if rp.get("no_failing_input_found"):
            bad = bool(v["corr_diffs"] or v["use_projection_bad"]) or fails(v) and findings_for(v) is None
        else:
            bad = fails(v) and findings_for(v) is None
        print(json.dumps({"lost": {str(s): pretty_defs(ms[0], d) for s, d in v["lost"].items()},
                          "dead": {str(s): pretty_defs(ms[0], d) for s, d in v["dead"].items()},
                          "use_site_lost": {f"{k[0]},{k[1]}": pretty_defs(ms[0], d) for k, d in v["use_lost"].items()},
                          "use_site_dead": {f"{k[0]},{k[1]}": pretty_defs(ms[0], d) for k, d in v["use_dead"].items()},
                          "use_site_not_projection": len(v["use_projection_bad"]),
                          "correspondence_differs_in": v["corr_diffs"], "known_finding": finding_for(v),
                          "violates": bool(bad)}))
        return 1 if bad else 0
    finally:
        shutil.rmtree(scratch, ignore_errors=True)


if __name__ == "__main__":
    if len(sys.argv) == 3 and sys.argv[1] == "--worker":
        worker(sys.argv[2])
