"""Shared machinery of C08 (abstract values cover concrete values) and C09 (advertised precision).

* fragment-program generator (structured AST, JSON-able; the same AST is sent to the Lean reference
  abstract interpreter `aref` and rendered to Python source for lian and CPython),
* packed lian runs (one subprocess per packed file, many programs per file),
* alpha: abstraction of lian's result tables (s2space_p3 + stmt_status_p3 + GIR) to canonical sets,
* CPython ground truth: every branch-decision vector executed under sys.settrace.

Program AST (all names are strings, constants are ints or strs):
  prog  = {"name": "g0", "ndec": k, "classes": [cls…], "helpers": [helper…], "body": [stmt…]}
  cls   = {"name": "K0_0", "fields": [["f0", "p"], ["f1", 3]]}     # __init__(self, p): self.f0 = p; self.f1 = 3
  helper= {"name": "h0_0", "params": ["p"], "body": [stmt…], "ret": "p"}
  stmt  = ["const", x, c] | ["copy", x, y] | ["bin", x, op, a, b]   (a, b: ["v", name] | ["c", const])
        | ["if", i, then, else]           (branches on decision parameter d<i>, each i used once)
        | ["new", x, cls, a] | ["fwrite", o, f, a] | ["fread", x, o, f] | ["call", x, h, [a…]]
        | ["list", x, [a…]] | ["awrite", l, i, a] | ["aread", x, l, i]   (list literal, element write/read, constant index)
        | ["callp", h, [a…]]              (call statement whose result is not used)
        | ["dict", x, [[key, a]…]] | ["dwrite", d, k, a] | ["dread", x, d, k]   (record literal with constant string keys; k is an
                                          operand: a constant key or a variable that holds 1..3 key constants)
        | ["retif", c, a]                 (helper bodies only: `if c: return a`)
        | ["pass"] | ["iflit", [stmt…]]   (`pass`; `if 1:` body — no-ops between writes and reads)
        | ["ret"]                         (main body, last statement of a branch: early `return 0`)
  a class may have "init": statements run in __init__ before the field assignments (they may allocate other objects and
  read their fields); a field initialiser is then "p", a constant, or ["v", local]
  an operand may also be ["d", i]: the decision parameter d<i> itself (only as an argument of a multi-return helper, whose
  parameters listed in "dparams" are not compared)
  a helper's body is a list of such statements (no `if`); it may call other helpers; "ret" may be None
Canonical abstract element: ["i", n] | ["s", text] | ["b", bool] | ["o", line] | ["u"]; a value set
is a sorted list of distinct elements.
"""
import json, os, shutil, subprocess, sys, itertools

import common

INT_OPS = ["+", "-", "*", "//", "%", "**", "<<", "<", "<=", "==", "!="]


# ------------------------------------------------------------------------------------------------
# rendering
# ------------------------------------------------------------------------------------------------

def pyconst(c):
    if isinstance(c, bool):
        raise ValueError("bool constant")
    if isinstance(c, int):
        if c < 0:
            raise ValueError("negative literal (would be lowered to a unary operation)")
        return str(c)
    return render_str(c)


def render_str(s):
    """A Python literal for `s`.  Benign strings (no quote, no backslash, no line break) are rendered in
    double quotes, which the lian Python frontend reads back as exactly `s`; anything else is rendered with
    repr() (CPython reads it back exactly; what the frontend makes of it is C01's concern — the adversarial
    twins of C08 only look at the expressions that do NOT use the string)."""
    if any(ch in s for ch in "\"'\\\n\r") or not s.isprintable():
        return repr(s)
    return '"' + s + '"'


def string_consts(prog):
    out = set()

    def walk(x):
        if isinstance(x, list):
            if len(x) == 2 and x[0] == "c" and isinstance(x[1], str):
                out.add(x[1])
            elif len(x) == 3 and x[0] == "const" and isinstance(x[2], str):
                out.add(x[2])
            else:
                for y in x:
                    walk(y)
    walk(prog["body"])
    return sorted(out)


def opnd(a):
    if a[0] == "d":
        return f"d{a[1]}"
    return a[1] if a[0] == "v" else pyconst(a[1])


class Renderer:
    """Renders programs into one Python file; records for every definition the 1-based line."""

    def __init__(self):
        self.lines = []
        self.defs = []        # {"prog": name, "fn": fn, "line": n, "var": x, "kind": …, "path": sid}

    def emit(self, text, ind):
        self.lines.append("    " * ind + text)
        return len(self.lines)

    def stmts(self, prog, fn, body, ind, sid_prefix):
        if not body:
            self.emit("pass", ind)
        for k, s in enumerate(body):
            sid = sid_prefix + [k]
            t = s[0]
            rec = lambda line, var, kind: self.defs.append(
                {"prog": prog["name"], "fn": fn, "line": line, "var": var, "kind": kind, "sid": sid})
            if t == "const":
                rec(self.emit(f"{s[1]} = {pyconst(s[2])}", ind), s[1], "const")
            elif t == "copy":
                rec(self.emit(f"{s[1]} = {s[2]}", ind), s[1], "copy")
            elif t == "bin":
                rec(self.emit(f"{s[1]} = {opnd(s[3])} {s[2]} {opnd(s[4])}", ind), s[1], "bin")
            elif t == "if":
                self.emit(f"if d{s[1]}:", ind)
                self.stmts(prog, fn, s[2], ind + 1, sid + [0])
                if s[3]:
                    self.emit("else:", ind)
                    self.stmts(prog, fn, s[3], ind + 1, sid + [1])
            elif t == "new":
                rec(self.emit(f"{s[1]} = {s[2]}({opnd(s[3])})", ind), s[1], "new")
            elif t == "fwrite":
                self.emit(f"{s[1]}.{s[2]} = {opnd(s[3])}", ind)
            elif t == "fread":
                rec(self.emit(f"{s[1]} = {s[2]}.{s[3]}", ind), s[1], "fread")
            elif t == "call":
                rec(self.emit(f"{s[1]} = {s[2]}({', '.join(opnd(a) for a in s[3])})", ind), s[1], "call")
            elif t == "callp":
                self.emit(f"{s[1]}({', '.join(opnd(a) for a in s[2])})", ind)
            elif t == "list":
                rec(self.emit(f"{s[1]} = [{', '.join(opnd(a) for a in s[2])}]", ind), s[1], "list")
            elif t == "awrite":
                self.emit(f"{s[1]}[{s[2]}] = {opnd(s[3])}", ind)
            elif t == "aread":
                rec(self.emit(f"{s[1]} = {s[2]}[{s[3]}]", ind), s[1], "aread")
            elif t == "dict":
                items = ", ".join(f"{render_str(k)}: {opnd(a)}" for k, a in s[2])
                rec(self.emit(f"{s[1]} = {{{items}}}", ind), s[1], "dict")
            elif t == "dwrite":
                self.emit(f"{s[1]}[{opnd(s[2])}] = {opnd(s[3])}", ind)
            elif t == "dread":
                rec(self.emit(f"{s[1]} = {s[2]}[{opnd(s[3])}]", ind), s[1], "dread")
            elif t == "retif":
                self.emit(f"if {s[1]}:", ind)
                self.emit(f"return {opnd(s[2])}", ind + 1)
            elif t == "pass":
                self.emit("pass", ind)
            elif t == "iflit":
                self.emit("if 1:", ind)
                self.stmts(prog, fn, s[1], ind + 1, sid + [0])
            elif t == "ret":
                self.emit("return 0", ind)
            else:
                raise ValueError(t)

    def program(self, prog, call_args=None):
        for c in prog.get("classes", []):
            self.emit(f"class {c['name']}:", 0)
            self.emit("def __init__(self, p):", 1)
            if c.get("init"):
                self.stmts(prog, c["name"], c["init"], 2, ["c", c["name"]])
            for f, v in c["fields"]:
                self.emit(f"self.{f} = {v if v == 'p' else (v[1] if isinstance(v, list) else pyconst(v))}", 2)
        for h in prog.get("helpers", []):
            line = self.emit(f"def {h['name']}({', '.join(h['params'])}):", 0)
            for p in h["params"]:
                if p in h.get("dparams", []):
                    continue            # receives the decision parameter itself: lian is called with one constant
                self.defs.append({"prog": prog["name"], "fn": h["name"], "line": line, "var": p,
                                  "kind": "param", "sid": ["h", h["name"], p]})
            if h["body"]:
                self.stmts(prog, h["name"], h["body"], 1, ["h", h["name"]])
            if h.get("ret") is not None:
                self.emit(f"return {h['ret'] if isinstance(h['ret'], str) else opnd(h['ret'])}", 1)
            elif not h["body"]:
                self.emit("pass", 1)
        params = ", ".join(f"d{i}" for i in range(prog["ndec"]))
        self.emit(f"def {prog['name']}({params}):", 0)
        self.stmts(prog, prog["name"], prog["body"], 1, [])
        self.emit("return 0", 1)

    def toplevel_calls(self, progs):
        for p in progs:
            self.emit(f"{p['name']}({', '.join('1' for _ in range(p['ndec']))})", 0)

    def text(self):
        return "\n".join(self.lines) + "\n"


def render_file(progs):
    r = Renderer()
    for p in progs:
        r.program(p)
    ndef = len(r.lines)
    r.toplevel_calls(progs)
    return r.text(), r.defs, ndef


# ------------------------------------------------------------------------------------------------
# CPython ground truth
# ------------------------------------------------------------------------------------------------

def canon_val(v, obj_lines):
    if isinstance(v, bool):
        return ["b", v]
    if isinstance(v, int):
        return ["i", v]
    if isinstance(v, str):
        return ["s", v]
    if id(v) in obj_lines:
        return ["o", obj_lines[id(v)]]
    return ["?", type(v).__name__]


def ground_truth(progs, text, defs, ndef, max_vectors=256):
    """Executes every program on every decision vector under sys.settrace.
    Returns {line: sorted value list} for every definition line, and {prog: error} for programs that
    raised (they are outside the fragment: the generator is expected to avoid them)."""
    src = "\n".join(text.split("\n")[:ndef]) + "\n"
    code = compile(src, "<frag>", "exec")
    env = {}
    exec(code, env)
    line_var = {}
    for d in defs:
        line_var.setdefault(d["line"], []).append(d)
    vals = {}
    errors = {}
    keep = []
    obj_lines = {}

    def note(frame, line):
        for d in line_var.get(line, ()):
            if d["kind"] == "param":
                continue
            if d["var"] in frame.f_locals:
                v = frame.f_locals[d["var"]]
                if not isinstance(v, (int, str, bool)) and id(v) not in obj_lines:
                    obj_lines[id(v)] = line
                    keep.append(v)
                vals.setdefault(line, set()).add(json.dumps(canon_val(v, obj_lines)))

    def tracer(frame, event, arg):
        if frame.f_code.co_filename != "<frag>":
            return None
        if event == "call":
            frame.f_trace_lines = True
            line = frame.f_lineno
            for d in line_var.get(line, ()):
                if d["kind"] == "param" and d["var"] in frame.f_locals:
                    v = frame.f_locals[d["var"]]
                    vals.setdefault(("param", line, d["var"]), set()).add(json.dumps(canon_val(v, obj_lines)))
            frame.f_locals  # noqa
            prev[id(frame)] = None
            return tracer
        if event == "line":
            p = prev.get(id(frame))
            if p is not None:
                note(frame, p)
            prev[id(frame)] = frame.f_lineno
            return tracer
        if event == "return":
            p = prev.get(id(frame))
            if p is not None:
                note(frame, p)
            prev.pop(id(frame), None)
            return tracer
        return tracer

    prev = {}
    for p in progs:
        vecs = itertools.product([0, 1], repeat=p["ndec"])
        for n, vec in enumerate(vecs):
            if n >= max_vectors:
                break
            sys.settrace(tracer)
            try:
                env[p["name"]](*vec)
            except Exception as e:      # noqa
                errors[p["name"]] = f"{type(e).__name__}: {e}"
            finally:
                sys.settrace(None)
    out = {}
    for k, s in vals.items():
        out[k] = sorted((json.loads(x) for x in s), key=json.dumps)
    return out, errors


# ------------------------------------------------------------------------------------------------
# lian runs and alpha
# ------------------------------------------------------------------------------------------------

def run_lian(src_path, ws, timeout=900):
    """One lian `run` in a subprocess. Returns (returncode, tail of output, seconds)."""
    import time
    t = time.time()
    cmd = ["/venv/bin/python", os.path.join(common.REPO, "src", "lian", "main.py"), "run", "-l", "python",
           "-w", ws, "-f", "-q", src_path]
    env = dict(os.environ)
    env.setdefault("PYTHONHASHSEED", "0")
    # main.py appends its own parent to sys.path *after* the /venv editable install of /repo/src:
    # without this line a worktree given by LIAN_REPO would run /repo's package.
    env["PYTHONPATH"] = os.path.join(common.REPO, "src") + os.pathsep + env.get("PYTHONPATH", "")
    try:
        p = subprocess.run(cmd, capture_output=True, text=True, timeout=timeout, env=env)
        return p.returncode, (p.stdout + p.stderr)[-3000:], time.time() - t
    except subprocess.TimeoutExpired as e:
        return -9, "timeout", time.time() - t


def read_tables(ws):
    import pandas as pd
    base = os.path.join(ws, "lian_workspace")

    def bundles(sub, prefix):
        d = os.path.join(base, sub)
        fs = sorted((f for f in os.listdir(d) if f.startswith(prefix + ".bundle")),
                    key=lambda f: int(f.rsplit("bundle", 1)[1]))
        return [pd.read_feather(os.path.join(d, f)) for f in fs]

    gir = pd.concat(bundles("frontend", "gir"), ignore_index=True)
    s2 = bundles("semantic_p3", "s2space_p3")
    st = bundles("semantic_p3", "stmt_status_p3")
    return gir, s2, st


def _isnan(x):
    return x is None or (isinstance(x, float) and x != x)


def state_elem(row, stmt_line):
    """One State row of s2space_p3 -> canonical abstract element."""
    st = row["state_type"]
    st = int(st) if not _isnan(st) else 0
    if st != 1:                       # UNSOLVED / UNINIT / ANYTHING / EMPTY
        return ["u"]
    dt = row["data_type"]
    v = row["value"]
    if dt == "%int":
        if isinstance(v, str):
            if v in ("True", "False"):
                return ["b", v == "True"]
            try:
                return ["i", int(v)]
            except ValueError:
                return ["x", dt, v]
        return ["x", dt, repr(v)]
    if dt == "%string":
        return ["s", "" if _isnan(v) else str(v)]
    if dt in ("%float", "%bool", "%null"):
        return ["x", dt, None if _isnan(v) else str(v)]
    if isinstance(dt, str) and dt and (not dt.startswith("%") or dt in ("%array", "%record")):
        sid = int(row["alloc_stmt"])
        return ["o", stmt_line.get(sid, -sid)]
    if dt in ("%method_decl", "%class_decl"):
        return ["x", dt, None if _isnan(v) else str(v)]
    return ["u"] if _isnan(v) or v == "" else ["x", str(dt), str(v)]


def alpha(gir, s2list, stlist, defs):
    """{line: sorted list of abstract elements} for every definition in `defs`, union over call contexts;
    also per-context lists for helper-internal definitions."""
    stmt_line = {}
    by_line = {}
    for op, sid, row, target, name in zip(gir["operation"], gir["stmt_id"], gir["start_row"], gir["target"], gir["name"]):
        if _isnan(row):
            continue
        line = int(row) + 1
        stmt_line[int(sid)] = line
        by_line.setdefault(line, []).append((op, int(sid), target, name))
    # one s2space table per entry point; stmt_status rows refer by index into the table of their entry.
    # All programs hang below one %unit_init, so exactly one table is expected.
    res = {}
    missing = []
    space = s2list[0] if len(s2list) == 1 else None
    if space is None:
        import pandas as pd
        space = pd.concat(s2list, ignore_index=True)
    idx = {int(i): n for n, i in enumerate(space["index"])}
    cols = {c: space[c].tolist() for c in ("symbol_or_state", "states", "state_type", "data_type", "value", "stmt_id", "name", "fields", "state_id")}
    # copies of a state (made by field writes and summary application) keep its state_id but carry the
    # stmt_id of the copying statement: the allocation statement is that of the earliest copy.
    first_stmt = {}
    for n in range(len(cols["state_id"])):
        if cols["symbol_or_state"][n] != 0:
            first_stmt.setdefault(int(cols["state_id"][n]), int(cols["stmt_id"][n]))
    cols["alloc_stmt"] = [first_stmt.get(int(k), -1) if cols["symbol_or_state"][n] != 0 else -1
                          for n, k in enumerate(cols["state_id"])]
    import pandas as pd
    status = pd.concat(stlist, ignore_index=True)
    st_by_stmt = {}
    for sid, dsym in zip(status["stmt_id"], status["defined_symbol"]):
        st_by_stmt.setdefault(int(sid), []).append(int(dsym))
    for d in defs:
        key = d["line"] if d["kind"] != "param" else ("param", d["line"], d["var"])
        cands = [x for x in by_line.get(d["line"], [])
                 if (x[0] in ("assign_stmt", "call_stmt", "field_read", "array_read") and x[2] == d["var"])
                 or (x[0] == "parameter_decl" and x[3] == d["var"] and d["kind"] == "param")]
        if len(cands) != 1:
            missing.append((d, "gir statements: %r" % (cands,)))
            continue
        sid = cands[0][1]
        elems = set()
        nctx = 0
        for dsym in st_by_stmt.get(sid, []):
            if dsym not in idx:
                continue
            n = idx[dsym]
            if cols["symbol_or_state"][n] != 0:
                continue
            nctx += 1
            states = cols["states"][n]
            if states is None:
                continue
            for si in states:
                m = idx.get(int(si))
                if m is None:
                    elems.add(json.dumps(["x", "dangling", int(si)]))
                    continue
                row = {c: cols[c][m] for c in cols}
                elems.add(json.dumps(state_elem(row, stmt_line)))
        if nctx == 0:
            missing.append((d, "not analysed in P3"))
            continue
        res[key] = sorted((json.loads(e) for e in elems), key=json.dumps)
    return res, missing


def covers(abs_set, v):
    return v in abs_set or ["u"] in abs_set


# ------------------------------------------------------------------------------------------------
# generator
# ------------------------------------------------------------------------------------------------

class Reject(Exception):
    pass


BOUND = 10 ** 9


def safe_binop(op, a, b):
    """Python's meaning of `a op b` for the generator's value tracking. Raises Reject when CPython would
    raise, when the result is not an int/bool/str, or when it leaves the generator's magnitude bound
    (the generator only emits operations that are safe for every combination of tracked operand values)."""
    if isinstance(a, str) or isinstance(b, str):
        if op == "+" and isinstance(a, str) and isinstance(b, str):
            r = a + b
            if len(r) > 60:
                raise Reject
            return r
        raise Reject
    if op == "+": r = a + b
    elif op == "-": r = a - b
    elif op == "*": r = a * b
    elif op in ("//", "%"):
        if b == 0:
            raise Reject
        r = a // b if op == "//" else a % b
    elif op == "**":
        if b < 0 or b > 12 or abs(a) > 1000:
            raise Reject
        r = a ** b
    elif op == "<<":
        if b < 0 or b > 24:
            raise Reject
        r = a << b
    elif op == "<": r = a < b
    elif op == "<=": r = a <= b
    elif op == "==": r = a == b
    elif op == "!=": r = a != b
    else:
        raise Reject
    if not isinstance(r, bool) and abs(r) > BOUND:
        raise Reject
    return r


class Gen:
    """Generates one fragment program; `feat` selects the sub-fragment out of
    ints, strs, branches, objects, calls.  While generating it tracks, per variable and per field of
    every allocation site, the set of values the reference semantics can produce, and only emits binary
    operations that are defined and bounded for every operand combination (so neither CPython nor the
    analyser is ever asked to build an astronomically large number by this stream; the size clause of
    C08 has its own stream)."""

    def __init__(self, rng, name, feat, size=10, consts=None, strs=None, ops=None, max_set=6,
                 calls_after_join=True, max_dec=6, multi_alloc=False):
        self.rng = rng
        self.name = name
        self.feat = set(feat)
        self.size = size
        self.consts = consts or [0, 1, 2, 3, 5, 7, 9, 12]
        self.strs = strs or ["a", "bc", "x y", "k9", "q+", "Zz"]
        self.ops = ops or INT_OPS
        self.max_set = max_set
        self.max_states = 24
        self.calls_after_join = calls_after_join     # False: no call / allocation after an if-join (see C08/call-after-join)
        self.max_dec = max_dec
        self.multi_alloc = multi_alloc               # True: a variable may hold objects of two allocation sites
        self.ndec = 0
        self.classes = []
        self.helpers = []
        self.nvar = 0
        self.nsite = 0

    def fresh(self, pref):
        self.nvar += 1
        return f"{pref}{self.nvar}"

    # -- state = (env, V, H)
    @staticmethod
    def clone(st):
        env, V, H = st
        return (dict(env), dict(V), {k: dict(v) for k, v in H.items()})

    @staticmethod
    def join(st, a, b):
        env, V, H = st
        ea, Va, Ha = a
        eb, Vb, Hb = b
        env.clear(); V.clear(); H.clear()
        for v in ea:
            if v in eb and ea[v] == eb[v]:
                env[v] = ea[v]
                if v in Va:
                    V[v] = Va[v] | Vb[v]
                    V[("#", v)] = Va.get(("#", v), 1) + Vb.get(("#", v), 1)
        for site in set(Ha) | set(Hb):
            fa, fb = Ha.get(site), Hb.get(site)
            if fa is None or fb is None:
                H[site] = dict(fa or fb)
            else:
                H[site] = {}
                for f in set(fa) | set(fb):
                    if isinstance(f, tuple):
                        H[site][f] = fa.get(f, 1) + fb.get(f, 1)
                    else:
                        H[site][f] = fa.get(f, frozenset()) | fb.get(f, frozenset())

    def opnd_vals(self, a, V):
        return V[a[1]] if a[0] == "v" else frozenset([a[1]])

    def pick_opnd(self, st, typ):
        env = st[0]
        vs = [v for v, t in env.items() if t == typ]
        if vs and self.rng.random() < 0.7:
            return ["v", self.rng.choice(vs)]
        return ["c", self.rng.choice(self.consts if typ == "int" else self.strs)]

    def target(self, env, typ):
        same = [v for v, t in env.items() if t == typ]
        if same and self.rng.random() < 0.45:
            return self.rng.choice(same)
        return self.fresh({"int": "x", "str": "s"}[typ])

    def try_bin(self, st, op, a, b):
        V = st[1]
        res = set()
        for x in self.opnd_vals(a, V):
            for y in self.opnd_vals(b, V):
                res.add(safe_binop(op, x, y))
        if len(res) > self.max_set:
            raise Reject
        # lian creates one state per PAIR of operand states (equal values are not merged), so the number
        # of states multiplies along a chain of operations: keep it small
        if self.nstates(a, V) * self.nstates(b, V) > self.max_states:
            raise Reject
        return frozenset(res)

    @staticmethod
    def nstates(a, V):
        return V.get(("#", a[1]), 1) if a[0] == "v" else 1

    def eval_helper(self, h, argvals):
        V = {}
        for p, (vs, n) in zip(h["params"], argvals):
            V[p] = vs
            V[("#", p)] = n
        for s in h["body"]:
            if s[0] == "const":
                V[s[1]] = frozenset([s[2]])
                V[("#", s[1])] = 1
            elif s[0] == "bin":
                V[s[1]] = self.try_bin(({}, V, {}), s[2], s[3], s[4])
                V[("#", s[1])] = self.nstates(s[3], V) * self.nstates(s[4], V)
        return V[h["ret"]], V.get(("#", h["ret"]), 1)

    def block(self, st, n, depth, joined=False):
        env, V, H = st
        out = []
        tries = 0
        while len(out) < n and tries < 20 * n + 20:
            tries += 1
            kinds = ["const", "bin", "bin", "copy"]
            if "strs" in self.feat:
                kinds += ["sconst", "sbin", "sbin", "scopy"]
            if "branches" in self.feat and depth < 2 and self.ndec < self.max_dec:
                kinds += ["if"]
            may_call = self.calls_after_join or not joined
            if "objects" in self.feat:
                kinds += ["fwrite", "fwrite", "fread", "fread", "ocopy"] + (["new"] if may_call else [])
            if "calls" in self.feat and may_call:
                kinds += ["call", "call"]
            k = self.rng.choice(kinds)
            objs = [v for v, t in env.items() if isinstance(t, tuple)]
            try:
                if k in ("const", "sconst"):
                    typ = "int" if k == "const" else "str"
                    x = self.target(env, typ)
                    c = self.rng.choice(self.consts if typ == "int" else self.strs)
                    out.append(["const", x, c])
                    env[x] = typ; V[x] = frozenset([c]); V[("#", x)] = 1
                elif k in ("copy", "scopy"):
                    typ = "int" if k == "copy" else "str"
                    vs = [v for v, t in env.items() if t == typ]
                    if not vs:
                        continue
                    x = self.target(env, typ)
                    y = self.rng.choice(vs)
                    out.append(["copy", x, y])
                    env[x] = typ; V[x] = V[y]; V[("#", x)] = V.get(("#", y), 1)
                elif k in ("bin", "sbin"):
                    typ = "int" if k == "bin" else "str"
                    a, b = self.pick_opnd(st, typ), self.pick_opnd(st, typ)
                    op = self.rng.choice(self.ops) if typ == "int" else "+"
                    vals = self.try_bin(st, op, a, b)
                    cnt = self.nstates(a, V) * self.nstates(b, V)
                    x = self.target(env, typ)
                    out.append(["bin", x, op, a, b])
                    env[x] = typ; V[x] = vals; V[("#", x)] = cnt
                elif k == "if":
                    i = self.ndec
                    self.ndec += 1
                    s1, s2 = self.clone(st), self.clone(st)
                    th = self.block(s1, self.rng.randint(1, 3), depth + 1, joined)
                    el = self.block(s2, self.rng.randint(0, 3), depth + 1, joined)
                    out.append(["if", i, th, el])
                    self.join(st, s1, s2)
                    joined = True
                elif k == "new":
                    a = self.pick_opnd(st, "int")
                    cname = f"K{len(self.classes)}_{self.name}"
                    fields = []
                    for j in range(self.rng.randint(1, 3)):
                        fields.append([f"f{j}", "p" if (j == 0 or self.rng.random() < 0.3) else self.rng.choice(self.consts)])
                    self.classes.append({"name": cname, "fields": fields})
                    x = self.fresh("o")                    # a single allocation per variable
                    self.nsite += 1
                    site = self.nsite
                    out.append(["new", x, cname, a])
                    env[x] = ("obj", cname, site)
                    H[site] = {}
                    for f, v in fields:
                        H[site][f] = self.opnd_vals(a, V) if v == "p" else frozenset([v])
                        H[site][("#", f)] = self.nstates(a, V) if v == "p" else 1
                elif k == "ocopy":
                    if not objs:
                        continue
                    x = self.fresh("o")
                    y = self.rng.choice(objs)
                    out.append(["copy", x, y])
                    env[x] = env[y]
                elif k == "fwrite":
                    if not objs:
                        continue
                    o = self.rng.choice(objs)
                    f = self.rng.choice(sorted(k for k in H[env[o][2]] if isinstance(k, str)))
                    a = self.pick_opnd(st, "int")
                    out.append(["fwrite", o, f, a])
                    H[env[o][2]][f] = self.opnd_vals(a, V)
                    H[env[o][2]][("#", f)] = self.nstates(a, V)
                elif k == "fread":
                    if not objs:
                        continue
                    o = self.rng.choice(objs)
                    f = self.rng.choice(sorted(k for k in H[env[o][2]] if isinstance(k, str)))
                    x = self.target(env, "int")
                    out.append(["fread", x, o, f])
                    env[x] = "int"; V[x] = H[env[o][2]][f]; V[("#", x)] = H[env[o][2]].get(("#", f), 1)
                elif k == "call":
                    if not self.helpers or (len(self.helpers) < 3 and self.rng.random() < 0.4):
                        self.helpers.append(self.helper())
                    h = self.rng.choice(self.helpers)
                    args = [self.pick_opnd(st, "int") for _ in h["params"]]
                    vals, cnt = self.eval_helper(h, [(self.opnd_vals(a, V), self.nstates(a, V)) for a in args])
                    x = self.target(env, "int")
                    out.append(["call", x, h["name"], args])
                    env[x] = "int"; V[x] = vals; V[("#", x)] = cnt
            except Reject:
                continue
        return out

    def helper(self):
        name = f"h{len(self.helpers)}_{self.name}"
        kind = self.rng.choice(["id", "add", "second", "const", "two"])
        if kind == "id":
            return {"name": name, "params": ["p"], "body": [], "ret": "p"}
        if kind == "add":
            op = self.rng.choice(["+", "*", "-"])
            return {"name": name, "params": ["p"], "body": [["bin", "q", op, ["v", "p"], ["c", self.rng.choice(self.consts[1:])]]], "ret": "q"}
        if kind == "second":
            return {"name": name, "params": ["p", "r"], "body": [], "ret": "r"}
        if kind == "two":
            return {"name": name, "params": ["p", "r"], "body": [["bin", "q", "+", ["v", "p"], ["v", "r"]]], "ret": "q"}
        return {"name": name, "params": ["p"], "body": [["const", "q", self.rng.choice(self.consts)]], "ret": "q"}

    def program(self):
        st = ({}, {}, {})
        body = self.block(st, self.size, 0)
        return {"name": self.name, "ndec": self.ndec, "classes": self.classes, "helpers": self.helpers, "body": body}


# ------------------------------------------------------------------------------------------------
# evaluation of a batch of programs on lian + ground truth, and AST-level shrinking
# ------------------------------------------------------------------------------------------------

def rename_prog(prog, new):
    """A copy of `prog` whose function/class/helper names carry the suffix `new` instead of the old name."""
    old = prog["name"]
    return json.loads(json.dumps(prog).replace(f'_{old}"', f'_{new}"').replace(f'"name": "{old}"', f'"name": "{new}"'))


def evaluate_batch(progs, scratch, tag):
    """Render `progs` into one file, run lian once, compute alpha and ground truth.
    Returns dict(text, defs, gt, alpha, missing, errors, rc, out, secs)."""
    text, defs, ndef = render_file(progs)
    src = os.path.join(scratch, f"frag_{tag}.py")
    ws = os.path.join(scratch, f"ws_{tag}")
    with open(src, "w") as f:
        f.write(text)
    gt, errs = ground_truth(progs, text, defs, ndef)
    rc, out, secs = run_lian(src, ws)
    res = {"text": text, "defs": defs, "gt": gt, "errors": errs, "rc": rc, "out": out, "secs": secs,
           "alpha": {}, "missing": []}
    if rc == 0:
        try:
            gir, s2, st = read_tables(ws)
            res["alpha"], res["missing"] = alpha(gir, s2, st, defs)
        except Exception as e:       # noqa
            res["rc"] = -1
            res["out"] = f"reading result tables failed: {type(e).__name__}: {e}"
    shutil.rmtree(ws, ignore_errors=True)
    return res


def def_key(d):
    return d["line"] if d["kind"] != "param" else ("param", d["line"], d["var"])


def reductions(prog):
    """All one-step reductions of a program (statement deletion, branch inlining, dropping helpers/classes)."""
    out = []

    def walk(body, rebuild):
        for i, s in enumerate(body):
            out.append(rebuild(body[:i] + body[i + 1:]))
            if s[0] == "if":
                out.append(rebuild(body[:i] + s[2] + body[i + 1:]))
                out.append(rebuild(body[:i] + s[3] + body[i + 1:]))
                walk(s[2], lambda nb, i=i, s=s, body=body: rebuild(body[:i] + [["if", s[1], nb, s[3]]] + body[i + 1:]))
                walk(s[3], lambda nb, i=i, s=s, body=body: rebuild(body[:i] + [["if", s[1], s[2], nb]] + body[i + 1:]))
            if s[0] == "bin":
                for k in (3, 4):
                    if s[k][0] == "v":
                        for c in (1, 2):
                            t = list(s); t[k] = ["c", c]
                            out.append(rebuild(body[:i] + [t] + body[i + 1:]))

    walk(prog["body"], lambda nb: dict(prog, body=nb))
    return [prune_unused(p) for p in out]


def shrink_prog(prog, fails_batch, max_rounds=40):
    """Greedy AST shrinking. `fails_batch(list of progs) -> list of bool` runs a whole batch in one lian run."""
    cur = prog
    for _ in range(max_rounds):
        cands = reductions(cur)
        if not cands:
            break
        named = [rename_prog(dict(c, name=cur["name"]), f"r{i}") for i, c in enumerate(cands)]
        flags = fails_batch(named)
        pick = None
        best = None
        for c, f in zip(cands, flags):
            if f:
                size = len(json.dumps(c))
                if best is None or size < best:
                    best, pick = size, c
        if pick is None:
            break
        cur = pick
    return cur


# ------------------------------------------------------------------------------------------------
# the Lean reference abstract interpreter (lvdrv model "aref")
# ------------------------------------------------------------------------------------------------

def model_prog(prog, defs):
    """The program in the JSON shape of LianVerif/Drv/Aref.lean.  Keys are the source lines of the
    definitions as strings (parameters: "p<line>:<name>"), so that allocation sites agree with alpha."""
    line_of = {}
    for d in defs:
        if d["prog"] == prog["name"]:
            line_of[json.dumps(d["sid"])] = d["line"]

    def key(sid):
        return str(line_of[json.dumps(sid)])

    def opnd_m(a):
        return [a[0], a[1]]

    # helpers that touch the heap or call other helpers are outside the Lean model's helper language:
    # the program is then compared with the Python exact reference and CPython ground truth only
    for h in prog.get("helpers", []):
        if not h["params"] or not isinstance(h.get("ret"), str) or h.get("dparams") or any(st[0] not in ("const", "bin") for st in h["body"]):
            return None
    if any(c.get("init") for c in prog.get("classes", [])) or '["ret"]' in json.dumps(prog["body"]) or prog.get("nomodel"):
        return None
    # lian's list abstraction is index-insensitive (an element read yields every element ever stored); the
    # reference model is not: programs with lists are judged by ground-truth coverage only
    if any(tok in json.dumps(prog["body"]) for tok in ('"list"', '"awrite"', '"aread"', '"dict"', '"dwrite"', '"dread"')):
        return None
    list_classes = []

    def block(body, prefix):
        out = []
        for k, s in enumerate(body):
            sid = prefix + [k]
            t = s[0]
            if t == "const":
                out.append(["const", key(sid), s[1], s[2]])
            elif t == "copy":
                out.append(["copy", key(sid), s[1], s[2]])
            elif t == "bin":
                out.append(["bin", key(sid), s[1], s[2], opnd_m(s[3]), opnd_m(s[4])])
            elif t == "if":
                out.append(["if", s[1], block(s[2], sid + [0]), block(s[3], sid + [1])])
            elif t == "new":
                out.append(["new", key(sid), s[1], s[2], opnd_m(s[3])])
            elif t == "fwrite":
                out.append(["fwrite", s[1], s[2], opnd_m(s[3])])
            elif t == "fread":
                out.append(["fread", key(sid), s[1], s[2], s[3]])
            elif t == "call":
                out.append(["call", key(sid), s[1], s[2], [opnd_m(a) for a in s[3]]])
            elif t == "list":
                # a list literal is an object whose fields are named by the constant indices
                cname = f"L{len(list_classes)}_{prog['name']}"
                list_classes.append({"name": cname, "fields": [[f"#{i}", 0] for i in range(len(s[2]))]})
                out.append(["new", key(sid), s[1], cname, ["c", 0]])
                for i, a in enumerate(s[2]):
                    out.append(["fwrite", s[1], f"#{i}", opnd_m(a)])
            elif t == "awrite":
                out.append(["fwrite", s[1], f"#{s[2]}", opnd_m(s[3])])
            elif t == "aread":
                out.append(["fread", key(sid), s[1], s[2], f"#{s[3]}"])
            elif t == "pass":
                pass
            elif t == "iflit":
                out += block(s[1], sid + [0])          # always executed: the reference has no literal conditions
            else:
                raise ValueError(t)
        return out

    helpers = []
    for h in prog.get("helpers", []):
        hline = line_of[json.dumps(["h", h["name"], h["params"][0]])]
        hb = []
        for k, s in enumerate(h["body"]):
            sid = ["h", h["name"], k]
            if s[0] == "const":
                hb.append(["const", key(sid), s[1], s[2]])
            else:
                hb.append(["bin", key(sid), s[1], s[2], opnd_m(s[3]), opnd_m(s[4])])
        helpers.append({"name": h["name"], "params": [[f"p{hline}:{p}", p] for p in h["params"]],
                        "body": hb, "ret": h["ret"]})
    body = block(prog["body"], [])
    classes = [{"name": c["name"], "fields": [[f, None if v == "p" else v] for f, v in c["fields"]]}
               for c in prog.get("classes", []) + list_classes]
    return {"classes": classes, "helpers": helpers, "body": body}


def aref_batch(progs, defs, variant="current"):
    """Runs the Lean reference interpreter on every program.  Returns {def key: sorted element list}
    (same key and element shapes as `alpha`) and the list of programs on which the model is undefined."""
    import foldcheck
    mps = [model_prog(p, defs) for p in progs]
    outs_some = foldcheck.drv([{"m": "aref", "variant": variant, "prog": m} for m in mps if m is not None]) if any(m is not None for m in mps) else []
    it = iter(outs_some)
    outs = [next(it) if m is not None else None for m in mps]
    res, undefined = {}, []
    for p, o in zip(progs, outs):
        if o is None:
            undefined.append(p["name"])
            continue
        for k, vals in o:
            if k.startswith("p"):
                line, var = k[1:].split(":")
                kk = ("param", int(line), var)
            else:
                kk = int(k)
            elems = []
            for v in vals:
                if v[0] == "o":
                    elems.append(["o", int(v[1])])
                else:
                    elems.append(v)
            res[kk] = sorted(elems, key=json.dumps)
    return res, undefined


# ------------------------------------------------------------------------------------------------
# Python reference of the set-valued ("all operand combinations") collecting semantics — the exactness
# oracle of C09, written independently of the Lean model
# ------------------------------------------------------------------------------------------------

def helper_closure(prog, names):
    """names of helpers reachable from the helper names in `names`."""
    helpers = {h["name"]: h for h in prog.get("helpers", [])}
    seen, todo = set(), list(names)
    while todo:
        n = todo.pop()
        if n in seen or n not in helpers:
            continue
        seen.add(n)
        for st in helpers[n]["body"]:
            if st[0] == "call":
                todo.append(st[2])
            elif st[0] == "callp":
                todo.append(st[1])
    return seen


def prune_unused(prog):
    """drops helpers and classes the main body does not reach."""
    body = json.dumps(prog["body"])
    direct = [h["name"] for h in prog.get("helpers", []) if f'"{h["name"]}"' in body]
    keep = helper_closure(prog, direct)
    helpers = [h for h in prog.get("helpers", []) if h["name"] in keep]
    used = body + json.dumps([h["body"] for h in helpers])
    classes, changed = [], True
    while changed:                      # classes allocated by the constructors of kept classes are kept as well
        changed = False
        for c in prog.get("classes", []):
            if c not in classes and f'"{c["name"]}"' in used:
                classes.append(c)
                used += json.dumps(c.get("init", []))
                changed = True
    return dict(prog, helpers=helpers, classes=[c for c in prog.get("classes", []) if c in classes])


def pyref(prog, defs, with_taint=False, mode="exact"):
    """{def key: sorted element list}.  Variables, fields and list elements hold sets of values; a binary
    operation yields the results of all operand combinations (Python's own operators on the data); assignment
    and a field/element write through a single-object receiver replace, `if` joins by union; objects and lists
    are allocation lines; a call is analysed per call site with the argument sets of that site (helpers may read
    and write the heap and call other helpers).  A write through a receiver with several possible objects is a
    weak update (this oracle states what is sound and exact, not what lian does).  Returns None when some
    operation raises for some combination.  Values are (tag, value) pairs: in a Python set True and 1 would be
    one element.

    with_taint=True additionally returns the set of definition keys that DEPEND on a root site of the
    join-revisit findings - a call, a constructor call, a list literal or a field/element write that comes after
    an if-join: the defined variable of the root site, every object it may write (whole object), the callee's
    parameters and locals, and everything computed from those.  It also returns, per definition key, the
    values a field/element held BEFORE a write performed inside a callee through a parameter ("stale": lian keeps
    them, finding C09/callee-write-keeps-old; "*" = derived from such a value by an operation) and, for
    definitions inside helpers, the value sets of the single invocations.

    mode="lian" is NOT the oracle: it is the frozen prediction used by the matcher of finding C08/callee-write-lost. It
    differs from the exact semantics in what a field write performed INSIDE A CALLEE does to the caller's heap, as
    observed on the unmodified analyser: a write through a receiver read from a field of a parameter (depth >= 2) is lost;
    a write through a parameter whose value is an object is lost; a write through a parameter of a primitive value keeps
    the old value next to the new one (mode "lian"; seen through some access paths only the new one: mode "lian_strong" —
    the matcher accepts what lies between the two predictions)."""
    line_of = {json.dumps(d["sid"]): d["line"] for d in defs if d["prog"] == prog["name"]}
    out = {}
    tainted = set()
    stale = {}
    pathstale = {}
    PW = {}            # cell -> value it held before a caller-side write through a PATH variable (receiver defined by a field read)
    chain3 = [False]   # a read through a path of depth 3 (x = a.g; y = x.g; z = y.f) has been seen
    lost = {}
    invocations = {}
    depth = [0]
    inv_stack = []
    ANY = frozenset([("*", "*")])
    classes = {c["name"]: c for c in prog.get("classes", [])}
    helpers = {h["name"]: h for h in prog.get("helpers", [])}

    def tag(v):
        return ("b" if isinstance(v, bool) else "i" if isinstance(v, int) else "s", v)

    def opv(a, V):
        if a[0] == "d":
            return frozenset([("i", 0), ("i", 1)])
        return V[a[1]] if a[0] == "v" else frozenset([tag(a[1])])

    def opt(a, T):
        return T.get(a[1], False) if a[0] == "v" else False

    def binop(op, A, B):
        res = set()
        for x in A:
            for y in B:
                if x[0] == "o" or y[0] == "o":
                    raise Reject
                res.add(tag(safe_binop_unbounded(op, x[1], y[1])))
        return frozenset(res)

    def log(key, vals, t, st=frozenset(), lo=frozenset()):
        out.setdefault(key, set()).update(vals)
        if t:
            tainted.add(key)
        if st:
            stale.setdefault(key, set()).update(st)
        if lo:
            lost.setdefault(key, set()).update(lo)
        if inv_stack:
            invocations.setdefault(key, {}).setdefault(inv_stack[-1], set()).update(vals)

    def ops(a, S):
        return S.get(a[1], frozenset()) if a[0] == "v" else frozenset()

    def key_of(sid):
        return line_of[json.dumps(sid)]

    def obj_taint(vals, TH):
        return any(TH.get((x[1], "*"), False) for x in vals if x[0] == "o")

    def taint_objects(vals, TH):
        for x in vals:
            if x[0] == "o":
                TH[(x[1], "*")] = True

    LH = {}         # cell -> values it held before a DEEP callee-side write (receiver read from a field of a parameter)

    def write_cell(H, TH, SH, recv, field, val, t, sv, deep=False):
        sites = [x[1] for x in recv if x[0] == "o"]
        for site in sites:
            cell = H.setdefault(site, {})
            old = cell.get(field, frozenset())
            oldst = SH.get((site, field), frozenset())
            if deep and depth[0] > 0:
                LH[(site, field)] = LH.get((site, field), frozenset()) | old
            elif depth[0] == 0 and len(sites) == 1:
                LH.pop((site, field), None)
            if mode in ("lian", "lian_strong") and depth[0] > 0:
                if deep or any(x[0] == "o" for x in val):
                    continue                                   # the write does not reach the caller
                cell[field] = (old | val) if mode == "lian" else val
                continue
            cell[field] = val if len(sites) == 1 else (old | val)
            TH[(site, field)] = t if len(sites) == 1 else (TH.get((site, field), False) or t)
            if depth[0] > 0:
                SH[(site, field)] = sv | old | oldst          # a callee-side write: lian keeps what was there
            else:
                SH[(site, field)] = sv if len(sites) == 1 else (sv | oldst)

    def read_cell(H, TH, SH, recv, field):
        res, t, st, lo = frozenset(), False, frozenset(), frozenset()
        for x in recv:
            if x[0] != "o":
                raise Reject
            res |= H[x[1]][field]
            st |= SH.get((x[1], field), frozenset())
            lo |= LH.get((x[1], field), frozenset())
            t = t or TH.get((x[1], field), False) or TH.get((x[1], "*"), False)
        return res, t, st, lo

    ninv = [0]

    def call(hname, args, V, T, S, H, TH, SH, root):
        h = helpers[hname]
        E, TE, SE = {}, {}, {}
        shown = [q for q in h["params"] if q not in h.get("dparams", [])]
        hline = line_of[json.dumps(["h", h["name"], shown[0]])] if shown else None
        ninv[0] += 1
        inv_stack.append(ninv[0])
        depth[0] += 1
        try:
            for pname, a in zip(h["params"], args):
                E[pname] = opv(a, V)
                TE[pname] = opt(a, T) or root
                SE[pname] = ops(a, S)
                E[("deep", pname)] = 0          # path depth below a parameter: 0 = the parameter object itself
                if pname in shown:
                    log(("param", hline, pname), E[pname], TE[pname] or obj_taint(E[pname], TH), SE[pname])
                if root:
                    taint_objects(E[pname], TH)
            E[("retif",)] = frozenset()
            run(h["body"], ["h", h["name"]], E, TE, SE, H, TH, SH, False, root)
        finally:
            depth[0] -= 1
            inv_stack.pop()
        early = E.get(("retif",), frozenset())
        if h.get("ret") is None:
            return early, root, frozenset()
        if isinstance(h["ret"], str):
            return E[h["ret"]] | early, TE.get(h["ret"], False) or root, SE.get(h["ret"], frozenset())
        return opv(h["ret"], E) | early, root, frozenset()

    def run(body, prefix, V, T, S, H, TH, SH, joined, force):
        """force: everything defined here is tainted (we are inside a callee invoked from a root site)."""
        for k, s in enumerate(body):
            sid = prefix + [k]
            t = s[0]
            root = force or (joined and t in ("call", "callp", "new", "list", "fwrite", "awrite"))
            if t == "const":
                V[s[1]] = frozenset([tag(s[2])]); T[s[1]] = force; S[s[1]] = frozenset()
                log(key_of(sid), V[s[1]], T[s[1]])
            elif t == "retif":
                V[("retif",)] = V.get(("retif",), frozenset()) | opv(s[2], V)
            elif t == "pass":
                pass
            elif t == "ret":
                return True
            elif t == "iflit":
                done = run(s[1], sid + [0], V, T, S, H, TH, SH, joined, force)
                joined = True           # for lian the literal condition is a branch like any other
                if done:
                    return True
            elif t == "copy":
                if ("deep", s[2]) in V:
                    V[("deep", s[1])] = V[("deep", s[2])]
                else:
                    V.pop(("deep", s[1]), None)
                V[s[1]] = V[s[2]]; T[s[1]] = T.get(s[2], False) or force; S[s[1]] = S.get(s[2], frozenset())
                log(key_of(sid), V[s[1]], T[s[1]] or obj_taint(V[s[1]], TH), S[s[1]])
            elif t == "bin":
                V[s[1]] = binop(s[2], opv(s[3], V), opv(s[4], V))
                T[s[1]] = opt(s[3], T) or opt(s[4], T) or force
                S[s[1]] = ANY if (ops(s[3], S) or ops(s[4], S)) else frozenset()
                log(key_of(sid), V[s[1]], T[s[1]], S[s[1]])
            elif t == "if":
                cp = lambda: (dict(V), dict(T), dict(S), {a: dict(b) for a, b in H.items()}, dict(TH), dict(SH))
                V1, T1, S1, H1, TH1, SH1 = cp()
                V2, T2, S2, H2, TH2, SH2 = cp()
                done1 = run(s[2], sid + [0], V1, T1, S1, H1, TH1, SH1, joined, force)
                done2 = run(s[3], sid + [1], V2, T2, S2, H2, TH2, SH2, joined, force)
                if done1 and done2:
                    return True
                if done1 or done2:          # an early return: only the other branch reaches the code below
                    keep = (V2, T2, S2, H2, TH2, SH2) if done1 else (V1, T1, S1, H1, TH1, SH1)
                    for dst, src in zip((V, T, S, H, TH, SH), keep):
                        dst.clear(); dst.update(src)
                    joined = True
                    continue
                V.clear(); T.clear(); S.clear(); H.clear(); TH.clear(); SH.clear()
                for v in set(S1) | set(S2):
                    S[v] = S1.get(v, frozenset()) | S2.get(v, frozenset())
                for c in set(SH1) | set(SH2):
                    SH[c] = SH1.get(c, frozenset()) | SH2.get(c, frozenset())
                for v in set(V1) | set(V2):
                    if isinstance(v, tuple):            # bookkeeping entries (path depth of a variable), not values
                        V[v] = max(V1.get(v, 0), V2.get(v, 0))
                        continue
                    V[v] = V1.get(v, frozenset()) | V2.get(v, frozenset())
                    T[v] = T1.get(v, False) or T2.get(v, False)
                for site in set(H1) | set(H2):
                    fa, fb = H1.get(site, {}), H2.get(site, {})
                    H[site] = {f: fa.get(f, frozenset()) | fb.get(f, frozenset()) for f in set(fa) | set(fb)}
                for c in set(TH1) | set(TH2):
                    TH[c] = TH1.get(c, False) or TH2.get(c, False)
                joined = True
            elif t == "new":
                site = key_of(sid)
                arg = opv(s[3], V)
                ta = opt(s[3], T) or root
                E = {"p": arg}
                if classes[s[2]].get("init"):
                    # the constructor's own statements (they may allocate other objects and read their fields)
                    ninv[0] += 1
                    inv_stack.append(ninv[0]); depth[0] += 1
                    try:
                        run(classes[s[2]]["init"], ["c", s[2]], E, {"p": ta}, {"p": ops(s[3], S)}, H, TH, SH, False, root)
                    finally:
                        depth[0] -= 1; inv_stack.pop()
                fval = lambda v: arg if v == "p" else (E[v[1]] if isinstance(v, list) else frozenset([tag(v)]))
                H[site] = {f: fval(v) for f, v in classes[s[2]]["fields"]}
                for f, v in classes[s[2]]["fields"]:
                    TH[(site, f)] = ta if v == "p" else root
                    SH[(site, f)] = ops(s[3], S) if v == "p" else frozenset()
                TH[(site, "*")] = root
                V[s[1]] = frozenset([("o", site)]); T[s[1]] = root; S[s[1]] = frozenset()
                log(site, V[s[1]], root)
            elif t == "list":
                site = key_of(sid)
                H[site] = {}
                for i, a in enumerate(s[2]):
                    H[site][f"#{i}"] = opv(a, V)
                    TH[(site, f"#{i}")] = opt(a, T) or root
                    SH[(site, f"#{i}")] = ops(a, S)
                TH[(site, "*")] = root
                V[s[1]] = frozenset([("o", site)]); T[s[1]] = root; S[s[1]] = frozenset()
                log(site, V[s[1]], root)
            elif t in ("fwrite", "awrite"):
                field = s[2] if t == "fwrite" else f"#{s[2]}"
                recv = V[s[1]]
                if any(x[0] != "o" for x in recv):
                    raise Reject
                if depth[0] == 0:
                    for x in recv:
                        if V.get(("rdepth", s[1]), 0) >= 1:
                            PW[(x[1], field)] = PW.get((x[1], field), frozenset()) | H.get(x[1], {}).get(field, frozenset())
                        else:
                            PW.pop((x[1], field), None)
                write_cell(H, TH, SH, recv, field, opv(s[3], V), opt(s[3], T) or T.get(s[1], False) or root, ops(s[3], S),
                           deep=V.get(("deep", s[1]), 0) >= 1)
                if root:
                    taint_objects(recv, TH)
            elif t in ("fread", "aread"):
                field = s[3] if t == "fread" else f"#{s[3]}"
                res, tc, st, lo = read_cell(H, TH, SH, V[s[2]], field)
                if depth[0] == 0:
                    rd = V.get(("rdepth", s[2]), 0) + 1
                    V[("rdepth", s[1])] = rd
                    if rd >= 3:
                        chain3[0] = True
                    # The stale read was first pinned behind a depth-3 path read; the final seed sweep (seed 13) showed the
                    # same defect without one (object graph of depth 3 built, only depth-2 reads before the stale read).
                    # The signature that is kept is the value: EXACTLY what the cell held before the path-variable write.
                    if True:
                        ps = frozenset().union(*[PW.get((x[1], field), frozenset()) for x in V[s[2]]])
                        if ps:
                            pathstale.setdefault(key_of(sid), set()).update(ps)
                if ("deep", s[2]) in V:
                    V[("deep", s[1])] = V[("deep", s[2])] + 1
                else:
                    V.pop(("deep", s[1]), None)
                V[s[1]] = res; T[s[1]] = tc or T.get(s[2], False) or force; S[s[1]] = st
                log(key_of(sid), res, T[s[1]], st, lo)
            elif t == "dict":
                site = key_of(sid)
                H[site] = {}
                for kk, a in s[2]:
                    H[site][f"k:{kk}"] = opv(a, V)
                    TH[(site, f"k:{kk}")] = opt(a, T) or root
                    SH[(site, f"k:{kk}")] = ops(a, S)
                TH[(site, "*")] = root
                V[s[1]] = frozenset([("o", site)]); T[s[1]] = root; S[s[1]] = frozenset()
                log(site, V[s[1]], root)
            elif t == "dwrite":
                keys = [x[1] for x in opv(s[2], V)]
                recv = V[s[1]]
                sites = [x[1] for x in recv if x[0] == "o"]
                val = opv(s[3], V)
                for site in sites:
                    for kk in keys:
                        c = f"k:{kk}"
                        if len(keys) == 1 and len(sites) == 1:
                            H[site][c] = val
                        else:
                            H[site][c] = H[site].get(c, frozenset()) | val
                        TH[(site, c)] = TH.get((site, c), False) or opt(s[3], T) or opt(s[2], T) or root
                if root:
                    taint_objects(recv, TH)
            elif t == "dread":
                keys = [x[1] for x in opv(s[3], V)]
                res, tc = frozenset(), opt(s[3], T)
                for x in V[s[2]]:
                    for kk in keys:
                        res |= H[x[1]][f"k:{kk}"]
                        tc = tc or TH.get((x[1], f"k:{kk}"), False) or TH.get((x[1], "*"), False)
                V[s[1]] = res; T[s[1]] = tc or T.get(s[2], False) or force; S[s[1]] = frozenset()
                log(key_of(sid), res, T[s[1]])
            elif t == "call":
                res, tr, st = call(s[2], s[3], V, T, S, H, TH, SH, root)
                V[s[1]] = res; T[s[1]] = tr; S[s[1]] = st
                log(key_of(sid), res, tr, st)
            elif t == "callp":
                call(s[1], s[2], V, T, S, H, TH, SH, root)
            else:
                raise ValueError(t)
        return False
    try:
        run(prog["body"], [], {}, {}, {}, {}, {}, {}, False, False)
    except (Reject, KeyError):
        return (None, {"tainted": set(), "stale": {}, "lost": {}, "pathstale": {}, "invocations": {}}) if with_taint else None
    canon = lambda vals: sorted(([t, v] for t, v in vals), key=json.dumps)
    res = {k: canon(vals) for k, vals in out.items()}
    if not with_taint:
        return res
    return res, {"tainted": tainted, "stale": {k: canon(v) for k, v in stale.items()}, "lost": {k: canon(v) for k, v in lost.items()},
                 "pathstale": {k: canon(v) for k, v in pathstale.items()},
                 "invocations": {k: [canon(v) for _, v in sorted(d.items())] for k, d in invocations.items()}}


def safe_binop_unbounded(op, a, b):
    """like safe_binop but only refuses what CPython refuses (and astronomically large results)."""
    if isinstance(a, str) or isinstance(b, str):
        if op == "+" and isinstance(a, str) and isinstance(b, str):
            return a + b
        raise Reject
    if op in ("//", "%") and b == 0:
        raise Reject
    if op == "**" and (b < 0 or abs(a).bit_length() * b > 100000):
        raise Reject
    if op == "<<" and (b < 0 or b > 100000):
        raise Reject
    import operator
    f = {"+": operator.add, "-": operator.sub, "*": operator.mul, "//": operator.floordiv, "%": operator.mod,
         "**": operator.pow, "<<": operator.lshift, "<": operator.lt, "<=": operator.le, "==": operator.eq,
         "!=": operator.ne}[op]
    return f(a, b)


# ------------------------------------------------------------------------------------------------
# branch-free specialisations (matcher of the join-revisit findings) and special shapes
# ------------------------------------------------------------------------------------------------

def specialise(prog, vec, name):
    """The branch-free program that takes, at every `if d_i`, the branch chosen by vec[i]."""
    def block(body):
        out = []
        for s in body:
            if s[0] == "if":
                inner, done = block(s[2] if vec[s[1]] else s[3])
                out += inner
                if done:
                    return out, True
            elif s[0] == "iflit":
                inner, done = block(s[1])
                out += inner
                if done:
                    return out, True
            elif s[0] == "ret":
                return out, True
            else:
                out.append(s)
        return out, False
    p = dict(prog, body=block(prog["body"])[0])        # the decision parameters stay (multi-return helpers still take them)
    p = prune_unused(p)         # helpers / classes only used in the branches not taken would be "not analysed"
    p = rename_prog(p, name)
    return p


def has_branch(prog):
    return any(s[0] in ("if", "iflit") for s in prog["body"])


def gen_multi_target(rng, name):
    """`o` may denote two allocation sites when a field is written through it (C08/multi-target-field-write)."""
    c = lambda: rng.choice([1, 2, 3, 5, 7, 9])
    cls = {"name": f"K0_{name}", "fields": [["f0", "p"], ["f1", c()]]}
    f = rng.choice(["f0", "f1"])
    body = [["new", "o1", cls["name"], ["c", c()]], ["new", "o2", cls["name"], ["c", c()]]]
    if rng.random() < 0.5:
        body.append(["const", "x1", c()])
    body.append(["if", 0, [["copy", "o3", "o1"]], [["copy", "o3", "o2"]]])
    body.append(["fwrite", "o3", f, ["c", c()]])
    reads = [["fread", "x2", "o1", f], ["fread", "x3", "o2", f], ["fread", "x4", "o3", f]]
    rng.shuffle(reads)
    body += reads[:rng.randint(1, 3)]
    return {"name": name, "ndec": 1, "classes": [cls], "helpers": [], "body": body}


def multi_target_write_before(prog, defs, ref, failing_def):
    """Shape test of finding C08/multi-target-field-write: `failing_def` reads field f and, earlier in program
    order, f is written through a receiver variable that (in the reference result) may denote >= 2 objects."""
    if failing_def["kind"] != "fread":
        return False
    order = []

    def walk(body, prefix):
        for k, s in enumerate(body):
            sid = prefix + [k]
            if s[0] == "if":
                walk(s[2], sid + [0]); walk(s[3], sid + [1])
            else:
                order.append((sid, s))
    walk(prog["body"], [])
    line_of = {json.dumps(d["sid"]): d for d in defs if d["prog"] == prog["name"]}
    target = None
    for sid, s in order:
        if sid == failing_def["sid"]:
            target = s
    if target is None:
        return False
    field = target[3]
    # last definitions of variables in program order (approximation good enough for the shape test)
    sites_of = {}
    for sid, s in order:
        if sid == failing_def["sid"]:
            break
        d = line_of.get(json.dumps(sid))
        if d is not None and d["kind"] in ("new", "copy"):
            vals = ref.get(def_key(d), [])
            objs = {json.dumps(v) for v in vals if v[0] == "o"}
            if objs:
                sites_of.setdefault(d["var"], set()).update(objs)
        if s[0] == "fwrite" and s[2] == field and len(sites_of.get(s[1], ())) >= 2:
            return True
    return False


def join_revisit_shape(prog, defs, failing_entries):
    """Shape test of the findings C08/join-revisit and C09/join-revisit.  A *root site* is a call, a constructor
    call, a list literal or a field/element write that comes after an if-join (an `if` statement precedes it in
    its own block or in an enclosing block).  The shape holds iff EVERY failing definition depends on a root
    site (see pyref(with_taint=True)): it is the root site's own definition, a parameter or local of the callee
    invoked there, a read of an object the root site may write, or computed from such values."""
    res, info = pyref(prog, defs, with_taint=True)
    tainted = info["tainted"]
    if res is None or not tainted:
        return False
    by = {json.dumps([d["sid"], d["var"]]): def_key(d) for d in defs if d["prog"] == prog["name"]}
    for e in failing_entries:
        k = by.get(json.dumps([e["sid"], e["var"]]))
        if k is None or k not in tainted:
            return False
    return True


# ------------------------------------------------------------------------------------------------
# shape generators: aliasing, fields across branches, list elements, helper chains
# ------------------------------------------------------------------------------------------------

def gen_shape(rng, name, shape, strs=False, variant=None):
    """Small randomised programs of one of the shapes
      "bf"    objects allocated before an if/else; one branch writes a field, the other branch and the code after
              the join read it (no call / allocation / write after the join: nothing the join-revisit findings cover)
      "alias" 2-3 names for one object, alias taken before and after writes, by assignment and by parameter
              passing; after every write a read through every name
      "list"  list literals with constant indices under the same aliasing, caller- and callee-side element writes
      "chain" helpers that forward to a second helper (depth 2), called from exactly two sites with different
              constants / different objects"""
    pool = rng.sample(range(1, 90), 40)
    nxt = iter(pool)
    c = lambda: next(nxt)
    nv = [0]

    def fresh(p):
        nv[0] += 1
        return f"{p}{nv[0]}"
    cls = {"name": f"K0_{name}", "fields": [["f0", "p"], ["f1", c()]]}
    classes, helpers, body, ndec = [cls], [], [], 0
    hn = lambda base: f"{base}_{name}"

    if shape == "bf":
        objs = []
        for _ in range(rng.randint(1, 2)):
            o = fresh("o")
            body.append(["new", o, cls["name"], ["c", c()]])
            objs.append(o)
        names = {o: [o] for o in objs}
        if rng.random() < 0.4:
            o = rng.choice(objs)
            al = fresh("o")
            body.append(["copy", al, o])
            names[o].append(al)
        nm = lambda o: rng.choice(names[o])
        fld = lambda: rng.choice(["f0", "f1"])

        def branch_pair(depth):
            nonlocal ndec
            i = ndec
            ndec += 1
            tgt, f = rng.choice(objs), fld()
            other = rng.choice(objs)
            if depth == 0 and (rng.random() < 0.4 if variant is None else variant % 4 != 3):
                # both sides write the SAME object (different fields); one side reads both fields in a nested `if` and
                # returns early, so those reads are reachable through that side only
                g = "f1" if f == "f0" else "f0"
                th = [["fwrite", nm(tgt), f, ["c", c()]]]
                el = [["fwrite", nm(tgt), g, ["c", c()]]]
                j = ndec
                ndec += 1
                early = [["fread", fresh("x"), nm(tgt), f], ["fread", fresh("x"), nm(tgt), g]]
                rng.shuffle(early)
                (th if rng.random() < 0.5 else el).append(["if", j, early + [["ret"]], []])
                if rng.random() < 0.5:
                    th, el = el, th
                return ["if", i, th, el]
            th = [["fwrite", nm(tgt), f, ["c", c()]]]
            el = [["fread", fresh("x"), nm(tgt), f]]
            if rng.random() < 0.6:
                th.append(["fread", fresh("x"), nm(other), fld()])
            if rng.random() < 0.6:
                el.append(["fwrite", nm(other), fld(), ["c", c()]])
            if rng.random() < 0.3:
                th.insert(0, ["fread", fresh("x"), nm(tgt), f])
            if rng.random() < 0.3:
                el.append(["fread", fresh("x"), nm(tgt), f])
            if depth == 0 and rng.random() < 0.25:
                (th if rng.random() < 0.5 else el).append(branch_pair(1))
            elif depth == 0 and rng.random() < 0.45:
                # reads that are reachable through this branch only: a nested `if d:` reads the fields and returns early
                j = ndec
                ndec += 1
                early = [["fread", fresh("x"), nm(o), f2] for o in objs for f2 in ("f0", "f1")]
                rng.shuffle(early)
                (th if rng.random() < 0.7 else el).append(["if", j, early[:rng.randint(2, 4)] + [["ret"]], []])
            if rng.random() < 0.5:
                th, el = el, th
            return ["if", i, th, el]
        body.append(branch_pair(0))
        reads = [(o, f) for o in objs for f in ("f0", "f1")]
        rng.shuffle(reads)
        for o, f in reads[:rng.randint(2, 4)]:
            body.append(["fread", fresh("x"), nm(o), f])
        if rng.random() < 0.3:
            body.append(branch_pair(1))
            for o, f in reads[:2]:
                body.append(["fread", fresh("x"), nm(o), f])

    elif shape in ("alias", "list"):
        is_list = shape == "list"
        fields = [0, 1] if is_list else ["f0", "f1"]
        wr = "awrite" if is_list else "fwrite"
        rd = "aread" if is_list else "fread"
        val = (lambda: rng.choice(["p", "qq", "z9"]) if (strs and rng.random() < 0.3) else c())
        setters, getters = {}, {}

        def setter(f):
            if f not in setters:
                h = {"name": hn(f"set{len(setters)}"), "params": ["a", "v"], "body": [[wr, "a", f, ["v", "v"]]], "ret": None}
                helpers.append(h); setters[f] = h["name"]
            return setters[f]

        def getter(f):
            if f not in getters:
                h = {"name": hn(f"get{len(getters)}"), "params": ["a"], "body": [[rd, "r", "a", f]], "ret": "r"}
                helpers.append(h); getters[f] = h["name"]
            return getters[f]
        groups = []
        for _ in range(rng.randint(1, 2)):
            o = fresh("l" if is_list else "o")
            if is_list:
                body.append(["list", o, [["c", val()], ["c", val()]]])
            else:
                body.append(["new", o, cls["name"], ["c", c()]])
            groups.append([o])

        def read_all(g, f):
            order = list(g)
            rng.shuffle(order)
            for y in order:
                if rng.random() < 0.25:
                    body.append(["call", fresh("x"), getter(f), [["v", y]]])
                else:
                    body.append([rd, fresh("x"), y, f])
        for _ in range(rng.randint(4, 7)):
            g = rng.choice(groups)
            r = rng.random()
            if r < 0.35 and len(g) < 3:
                n = fresh("m" if is_list else "o")
                body.append(["copy", n, rng.choice(g)])
                g.append(n)
            else:
                f = rng.choice(fields)
                x = rng.choice(g)
                if rng.random() < 0.3:
                    body.append(["callp", setter(f), [["v", x], ["c", val()]]])
                else:
                    body.append([wr, x, f, ["c", val()]])
                read_all(g, f)
                if rng.random() < 0.4:
                    read_all(g, [y for y in fields if y != f][0])
        for g in groups:
            read_all(g, rng.choice(fields))

    elif shape == "chain":
        inner = {"name": hn("inner"), "params": ["q"], "body": [], "ret": "q"}
        if rng.random() < 0.5:
            inner = {"name": hn("inner"), "params": ["q"], "body": [["bin", "q2", "+", ["v", "q"], ["c", c()]]], "ret": "q2"}
        outer = {"name": hn("outer"), "params": ["p"], "body": [["call", "t", inner["name"], [["v", "p"]]]], "ret": "t"}
        if rng.random() < 0.4:
            outer["body"].append(["bin", "u", "+", ["v", "t"], ["c", c()]])
            outer["ret"] = "u"
        setf = {"name": hn("setf"), "params": ["o", "v"], "body": [["fwrite", "o", "f0", ["v", "v"]]], "ret": None}
        wrap = {"name": hn("wrap"), "params": ["o", "v"], "body": [["callp", setf["name"], [["v", "o"], ["v", "v"]]]], "ret": None}
        getf = {"name": hn("getf"), "params": ["o"], "body": [["fread", "r", "o", "f0"]], "ret": "r"}
        rdw = {"name": hn("rdw"), "params": ["o"], "body": [["call", "s", getf["name"], [["v", "o"]]]], "ret": "s"}
        helpers += [inner, outer, setf, wrap, getf, rdw]
        parts = []
        parts.append([["call", fresh("x"), outer["name"], [["c", c()]]], ["call", fresh("x"), outer["name"], [["c", c()]]]])
        a, b = fresh("o"), fresh("o")
        objpart = [["new", a, cls["name"], ["c", c()]], ["new", b, cls["name"], ["c", c()]],
                   ["callp", wrap["name"], [["v", a], ["c", c()]]], ["callp", wrap["name"], [["v", b], ["c", c()]]],
                   ["fread", fresh("x"), a, "f0"], ["fread", fresh("x"), b, "f0"]]
        if rng.random() < 0.5:
            objpart += [["call", fresh("x"), rdw["name"], [["v", a]]], ["call", fresh("x"), rdw["name"], [["v", b]]]]
        parts.append(objpart)
        rng.shuffle(parts)
        for part in parts:
            body += part
    elif shape == "dict":
        # record literals with constant string keys; element writes / reads through key VARIABLES that hold 1..3
        # key constants (from if/else and from multi-return helpers); afterwards a read of every key
        keys = ["a", "b", "cc"][:rng.randint(2, 3)]
        pick2 = {"name": hn("pick2"), "params": ["c"], "dparams": ["c"], "body": [["retif", "c", ["c", keys[0]]]], "ret": ["c", keys[1]]}
        pick3 = {"name": hn("pick3"), "params": ["c", "e"], "dparams": ["c", "e"],
                 "body": [["retif", "c", ["c", keys[0]]], ["retif", "e", ["c", keys[1]]]], "ret": ["c", keys[-1]]}
        helpers += [pick2, pick3]
        val = (lambda: rng.choice(["p", "qq"]) if (strs and rng.random() < 0.2) else c())
        dicts = []
        for _ in range(rng.randint(1, 2)):
            d = fresh("r")
            body.append(["dict", d, [[k, ["c", val()]] for k in keys]])
            dicts.append(d)
        if rng.random() < 0.3:
            al = fresh("r")
            body.append(["copy", al, dicts[0]])
            dicts.append(al)
        for _ in range(rng.randint(2, 4)):
            d = rng.choice(dicts)
            kv = fresh("k")
            r = rng.random()
            if r < 0.4:
                body.append(["call", kv, pick2["name"], [["d", ndec]]]); ndec += 1
            elif r < 0.55 and len(keys) == 3:
                body.append(["call", kv, pick3["name"], [["d", ndec], ["d", ndec + 1]]]); ndec += 2
            elif r < 0.85:
                k1, k2 = rng.sample(keys, 2)
                body.append(["if", ndec, [["const", kv, k1]], [["const", kv, k2]]]); ndec += 1
            else:
                body.append(["const", kv, rng.choice(keys)])
            body.append(["dwrite", d, ["v", kv], ["c", val()]])
            order = list(keys)
            rng.shuffle(order)
            for k in order:
                body.append(["dread", fresh("x"), rng.choice(dicts) if rng.random() < 0.3 else d, ["c", k]])
            if rng.random() < 0.4:
                body.append(["dread", fresh("x"), d, ["v", kv]])
        for d in dicts[:2]:
            for k in keys:
                body.append(["dread", fresh("x"), d, ["c", k]])

    elif shape == "nest":
        # object graphs of depth 2-3: container.field -> inner object -> field; links made before / after writes; writes
        # through the inner object's own variable and through the path; built in helpers and returned, passed in and mutated
        ci = {"name": f"I_{name}", "fields": [["f0", "p"], ["f1", c()]]}
        co = {"name": f"O_{name}", "fields": [["g0", "p"], ["g1", c()]]}
        classes[:] = [ci, co]

        def reads_all(outer, inner, top=None):
            """reads of both inner fields through every path"""
            paths = []
            if inner is not None:
                paths.append(("own", inner))
            paths.append(("path", outer))
            if top is not None:
                paths.append(("top", top))
            rng.shuffle(paths)
            for kind, v in paths:
                fs = ["f0", "f1"]
                rng.shuffle(fs)
                if kind == "own":
                    for f in fs:
                        body.append(["fread", fresh("x"), v, f])
                elif kind == "path":
                    t = fresh("t")
                    body.append(["fread", t, v, "g0"])
                    for f in fs:
                        body.append(["fread", fresh("x"), t, f])
                else:
                    t, u = fresh("t"), fresh("t")
                    body.append(["fread", t, v, "g0"])
                    body.append(["fread", u, t, "g0"])
                    for f in fs:
                        body.append(["fread", fresh("x"), u, f])
        variant = rng.choice(["caller", "caller", "build", "build", "build", "build", "mutate", "mutate"])
        if variant == "caller":
            i, o = fresh("i"), fresh("o")
            body.append(["new", i, ci["name"], ["c", c()]])
            link_first = rng.random() < 0.5
            if not link_first:
                body.append(["fwrite", i, rng.choice(["f0", "f1"]), ["c", c()]])
            if rng.random() < 0.5:
                body.append(["new", o, co["name"], ["v", i]])
            else:
                body.append(["new", o, co["name"], ["c", c()]])
                body.append(["fwrite", o, "g0", ["v", i]])
            top = None
            if rng.random() < 0.4:
                top = fresh("o")
                body.append(["new", top, co["name"], ["v", o]])
            for _ in range(rng.randint(1, 3)):
                f = rng.choice(["f0", "f1"])
                if rng.random() < 0.5:
                    body.append(["fwrite", i, f, ["c", c()]])
                else:
                    t = fresh("t")
                    body.append(["fread", t, o, "g0"])
                    body.append(["fwrite", t, f, ["c", c()]])
                reads_all(o, i, top)
        elif variant == "build":
            hb = [["new", "inner", ci["name"], ["c", c()]], ["new", "outer", co["name"], ["c", c()]]]
            link = ["fwrite", "outer", "g0", ["v", "inner"]]
            writes = [["fwrite", "inner", rng.choice(["f0", "f1"]), ["c", c()]] for _ in range(rng.randint(1, 2))]
            if rng.random() < 0.75:
                hb += [link] + writes                    # the object is written AFTER it was stored into the container
            else:
                hb += writes + [link]
            if rng.random() < 0.3:
                hb += [["fread", "t", "outer", "g0"], ["fwrite", "t", rng.choice(["f0", "f1"]), ["c", c()]]]
            build = {"name": hn("build"), "params": [], "body": hb, "ret": "outer"}
            helpers.append(build)
            m = fresh("o")
            body.append(["call", m, build["name"], []])
            reads_all(m, None)
            if rng.random() < 0.5:
                t = fresh("t")
                body.append(["fread", t, m, "g0"])
                body.append(["fwrite", t, "f0", ["c", c()]])
                reads_all(m, None)
        else:
            i, o = fresh("i"), fresh("o")
            body.append(["new", i, ci["name"], ["c", c()]])
            body.append(["new", o, co["name"], ["v", i]])
            mut1 = {"name": hn("mut1"), "params": ["a"], "body": [["fwrite", "a", "f0", ["c", c()]]], "ret": None}
            mutd = {"name": hn("mutd"), "params": ["a"], "body": [["fread", "t", "a", "g0"], ["fwrite", "t", "f1", ["c", c()]]], "ret": None}
            relink = {"name": hn("relink"), "params": ["a", "b"], "body": [["fwrite", "a", "g0", ["v", "b"]]], "ret": None}
            helpers += [mut1, mutd, relink]
            acts = rng.sample(["mut1", "mutd", "mut1path", "relink"], rng.randint(1, 3))
            for act in acts:
                if act == "mut1":
                    body.append(["callp", mut1["name"], [["v", i]]])
                elif act == "mutd":
                    body.append(["callp", mutd["name"], [["v", o]]])
                elif act == "mut1path":
                    t = fresh("t")
                    body.append(["fread", t, o, "g0"])
                    body.append(["callp", mut1["name"], [["v", t]]])
                else:
                    j = fresh("i")
                    body.append(["new", j, ci["name"], ["c", c()]])
                    body.append(["callp", relink["name"], [["v", o], ["v", j]]])
                reads_all(o, i)
    elif shape == "mret":
        # helpers with 2-3 return statements, values and objects, in every order; each called from two sites
        def early(nret, order):
            ps = ["a", "b", "g"][:nret]          # not "e": lian's builtin mock `append(e)` sits on line 1 of its own unit
            dps = ["c", "d"][:nret - 1]
            rets = [ps[i] for i in order]
            return {"name": hn(f"early{nret}{''.join(map(str, order))}"), "params": dps + ps, "dparams": dps,
                    "body": [["retif", dps[k], ["v", rets[k]]] for k in range(nret - 1)], "ret": rets[-1]}
        hs = []
        for _ in range(rng.randint(2, 3)):
            nret = rng.choice([2, 2, 3])
            order = list(range(nret))
            rng.shuffle(order)
            h = early(nret, order)
            if h["name"] not in [x["name"] for x in hs]:
                hs.append(h)
        helpers += hs
        objs = []
        if rng.random() < 0.6:
            for _ in range(3):
                o = fresh("o")
                body.append(["new", o, cls["name"], ["c", c()]])
                objs.append(o)
        for h in hs:
            nd = len(h["dparams"])
            for site in range(2):
                dargs = [["d", ndec + k] for k in range(nd)]
                ndec += nd
                if objs and rng.random() < 0.35:
                    args = [["v", o] for o in rng.sample(objs, len(h["params"]) - nd)]
                    r = fresh("o")
                    body.append(["call", r, h["name"], dargs + args])
                    body.append(["fread", fresh("x"), r, rng.choice(["f0", "f1"])])
                else:
                    body.append(["call", fresh("x"), h["name"], dargs + [["c", c()] for _ in range(len(h["params"]) - nd)]])

    elif shape == "comp":
        # composition: constructors that allocate OTHER objects with overlapping field names, nested constructor calls,
        # two call sites per class with different constants
        inner = {"name": f"In_{name}", "fields": [["v", "p"], ["w", c()]]}
        plain = {"name": f"Pl_{name}", "fields": [["v", "p"], ["w", c()]]}
        init = [["new", "t", inner["name"], ["c", c()]]]
        ofields = [["v", "p"]]
        if rng.random() < 0.7:
            init.append(["fread", "u", "t", rng.choice(["v", "w"])])
            ofields.append(["w", ["v", "u"]])
        else:
            ofields.append(["w", c()])
        if rng.random() < 0.6:
            ofields.append(["k", ["v", "t"]])
        rng.shuffle(ofields)
        outer = {"name": f"Out_{name}", "init": init, "fields": ofields}
        top = {"name": f"Top_{name}", "init": [["new", "m", outer["name"], ["c", c()]], ["fread", "n", "m", "v"]],
               "fields": [["v", "p"], ["w", ["v", "n"]], ["k", ["v", "m"]]]}
        classes[:] = [inner, plain, outer, top]
        made = []
        for cl in rng.sample([plain, outer, outer, inner, top], rng.randint(3, 5)):
            for _ in range(2):                       # two call sites with different constants
                o = fresh("o")
                body.append(["new", o, cl["name"], ["c", c()]])
                made.append((o, cl))
        rng.shuffle(made)
        for o, cl in made:
            for f, v in cl["fields"]:
                if isinstance(v, list) and f == "k":
                    t = fresh("t")
                    body.append(["fread", t, o, "k"])
                    body.append(["fread", fresh("x"), t, rng.choice(["v", "w"])])
                else:
                    body.append(["fread", fresh("x"), o, f])
    else:
        raise ValueError(shape)
    if shape in ("bf", "alias", "nest", "comp", "chain") and rng.random() < 0.6:
        body = sprinkle(rng, body, fresh, c)
    p = {"name": name, "ndec": ndec, "classes": classes, "helpers": helpers, "body": body}
    if shape == "nest":
        p["nomodel"] = True        # object graphs: lian answers a depth-3 path read with an unknown state (sound); the Lean
                                   # reference is not asked, ground-truth coverage decides
    return prune_unused(p)


def sprinkle(rng, body, fresh, c, rate=0.25, top=True):
    """no-op statements between writes and reads: `pass` anywhere, and `if 1:` around a harmless constant assignment —
    the latter only where no call / allocation / write follows any more: for lian a literal condition is a branch, and a
    write after its join is a root site of the join-revisit findings (it would widen that matcher for no reason)."""
    ROOTS = ('"call"', '"callp"', '"new"', '"list"', '"dict"', '"fwrite"', '"awrite"', '"dwrite"')
    out = []
    for i, s in enumerate(body):
        if s[0] == "if":
            s = ["if", s[1], sprinkle(rng, s[2], fresh, c, rate, False), sprinkle(rng, s[3], fresh, c, rate, False)]
        if out and s[0] in ("fread", "aread", "dread", "call", "copy") and rng.random() < rate:
            rest = json.dumps(body[i:])
            if top and rng.random() < 0.5 and not any(tok in rest for tok in ROOTS):
                out.append(["iflit", [["const", fresh("z"), c()]]])
            else:
                out.append(["pass"])
        out.append(s)
    return out
