"""Shared machinery for all checks: Lean build + audit, driver I/O, evidence, findings, verdicts.

Every check is `./check <ID> <quick|thorough>`; see DESIGN.md §2.
"""
import builtins, hashlib, json, os, random, re, subprocess, sys, time, traceback

VERIF = os.path.dirname(os.path.dirname(os.path.dirname(os.path.abspath(__file__))))
LEAN = os.path.join(VERIF, "lean")
REPO = os.environ.get("LIAN_REPO", "/repo")
DRV = os.path.join(LEAN, ".lake", "build", "bin", "lvdrv")
SCRATCH_ROOT = "/var/tmp"
ALLOWED_AXIOMS = {"propext", "Classical.choice", "Quot.sound"}
FORBIDDEN = re.compile(
    r"\bsorry\b|\badmit\b|^\s*axiom\s|\bnative_decide\b|\bbv_decide\b|\bimplemented_by\b|\bunsafe\s|maxHeartbeats\s+0\b")

TRUSTED_BASE = [
    "Lean 4.33.0 kernel (leanchecker re-check in thorough tier)",
    "axioms allowed: propext, Classical.choice, Quot.sound (audited by #print axioms on every run)",
    "Lean compiler + runtime for the lvdrv executable that evaluates the model definitions",
    "hand-written model; tie to /repo is the correspondence check of this run (differential, generator-bounded)",
    "Python harness: generators, canonicalisers, diff",
]


def use_repo():
    """Make `import lian` resolve to /repo/src as it is now."""
    src = os.path.join(REPO, "src")
    if src not in sys.path:
        sys.path.insert(0, src)
    lian_dir = os.path.join(src, "lian")
    if lian_dir not in sys.path:
        sys.path.insert(1, lian_dir)
    if not hasattr(builtins, "profile"):
        builtins.profile = lambda f: f


def strip_comments(text):
    text = re.sub(r"/-.*?-/", lambda m: "\n" * m.group(0).count("\n"), text, flags=re.S)
    return re.sub(r"--.*", "", text)


class LeanSide:
    """lake build + per-property audit. Results are cached per process."""
    _built = None

    @classmethod
    def build(cls):
        if cls._built is None:
            t = time.time()
            for attempt in range(3):
                p = subprocess.run(["lake", "build", "LianVerif", "lvdrv"], cwd=LEAN,
                                   capture_output=True, text=True)
                log = p.stdout + p.stderr
                # resource exhaustion is a harness problem, not a broken proof: retry, then exit 2
                if p.returncode != 0 and re.search(r"failed to create thread|Cannot allocate memory|std::bad_alloc|Killed", log) \
                        and not re.search(r"\.lean:\d+:\d+", log):
                    time.sleep(5)
                    continue
                break
            else:
                raise RuntimeError("lake build could not run (resource exhaustion): " + log[-600:])
            cls._built = (p.returncode == 0 and os.path.exists(DRV),
                          (p.stdout + p.stderr)[-4000:], time.time() - t)
        return cls._built

    @staticmethod
    def forbidden_hits():
        hits = []
        for root, _, files in os.walk(LEAN):
            if ".lake" in root:
                continue
            for f in files:
                if f.endswith(".lean"):
                    path = os.path.join(root, f)
                    body = strip_comments(open(path, encoding="utf-8").read())
                    for i, line in enumerate(body.split("\n"), 1):
                        if FORBIDDEN.search(line):
                            hits.append(f"{os.path.relpath(path, LEAN)}:{i}: {line.strip()[:100]}")
        return hits

    @staticmethod
    def audit(prop_id, leanchecker=False):
        """Returns dict(obligations, discharged, failures, axioms, checker_cmd)."""
        obl = json.load(open(os.path.join(LEAN, "obligations", prop_id + ".json")))
        module = obl["module"]
        names = obl["theorems"]
        ok, log, _ = LeanSide.build()
        res = {"obligations": len(names) + 2, "discharged": 0, "failures": [], "axioms": {},
               "checker_cmd": "cd lean && lake build LianVerif lvdrv && lake env lean <audit: #print axioms of %d theorems>" % len(names)}
        if not ok:
            res["failures"].append({"theorem": "lake build", "reason": log[-1500:]})
            return res
        res["discharged"] += 1            # obligation: the whole library builds
        hits = LeanSide.forbidden_hits()
        if hits:
            res["failures"].append({"theorem": "forbidden-token-grep", "reason": hits[:10]})
        else:
            res["discharged"] += 1        # obligation: no sorry/axiom/native_decide/... outside comments
        adir = os.path.join(LEAN, ".lake", "audit")
        os.makedirs(adir, exist_ok=True)
        afile = os.path.join(adir, f"Audit{prop_id}_{os.getpid()}.lean")
        with open(afile, "w") as f:
            f.write(f"import {module}\n")
            for n in names:
                f.write(f"#print axioms {n}\n")
        seen = {}
        out = ""
        for attempt in range(3):
            p = subprocess.run(["lake", "env", "lean", afile], cwd=LEAN, capture_output=True, text=True)
            out = p.stdout + p.stderr
            seen = {}
            for m in re.finditer(r"'([^']+)' depends on axioms: \[([^\]]*)\]", out, flags=re.S):
                seen[m.group(1)] = [a.strip() for a in m.group(2).replace("\n", " ").split(",") if a.strip()]
            for m in re.finditer(r"'([^']+)' does not depend on any axioms", out):
                seen[m.group(1)] = []
            # a theorem that is really missing produces an elaboration error naming it; a lean process that
            # could not start / was killed produces neither output nor such an error: inconclusive, retry
            unexplained = [n for n in names if n not in seen and n.split(".")[-1] not in out]
            if not unexplained:
                break
            time.sleep(2)
        else:
            os.unlink(afile)
            raise RuntimeError("audit inconclusive (lean did not run to completion): " + out[-600:])
        os.unlink(afile)
        for n in names:
            if n not in seen:
                res["failures"].append({"theorem": n, "reason": "missing or does not elaborate"})
                continue
            bad = [a for a in seen[n] if a not in ALLOWED_AXIOMS]
            res["axioms"][n] = seen[n]
            if bad:
                res["failures"].append({"theorem": n, "reason": f"depends on axioms {bad}"})
            else:
                res["discharged"] += 1
        if leanchecker:
            p = subprocess.run(["lake", "env", "leanchecker", module], cwd=LEAN, capture_output=True, text=True)
            res["leanchecker"] = "ok" if p.returncode == 0 else (p.stdout + p.stderr)[-500:]
            res["obligations"] += 1
            if p.returncode == 0:
                res["discharged"] += 1
            else:
                res["failures"].append({"theorem": "leanchecker " + module, "reason": res["leanchecker"]})
            res["checker_cmd"] += f" && lake env leanchecker {module}"
        return res


def drv_batch(requests, timeout=3600):
    """Send a list of request dicts to lvdrv; return list of replies (value of "ok" or raises)."""
    ok, log, _ = LeanSide.build()
    if not ok:
        raise RuntimeError("lean build failed: " + log[-800:])
    data = "\n".join(json.dumps(r, separators=(",", ":")) for r in requests) + "\n"
    p = subprocess.run([DRV], input=data, capture_output=True, text=True, timeout=timeout)
    lines = [l for l in p.stdout.split("\n") if l]
    if len(lines) != len(requests):
        raise RuntimeError(f"driver returned {len(lines)} lines for {len(requests)} requests: {p.stderr[-500:]}")
    out = []
    for l in lines:
        j = json.loads(l)
        out.append(j)
    return out


def drv_ok(replies):
    res = []
    for r in replies:
        if "ok" not in r:
            raise RuntimeError("driver error: " + json.dumps(r)[:400])
        res.append(r["ok"])
    return res


class Ctx:
    def __init__(self, prop_id, tier, seed):
        self.prop = prop_id
        self.tier = tier
        self.seed = seed
        self.rng = random.Random(seed)
        self.t0 = time.time()
        self.violations = []          # list of (replay_path, no_input)
        self.known_hits = {}          # finding id -> count
        self.cov = {"evaluations": 0, "distinct_nontrivial": 0, "rule": "", "samples": []}
        self.assumptions = []
        self.level = "proof"
        self.findings = [f for f in json.load(open(os.path.join(VERIF, "known_findings.json")))["findings"]
                         if f["property"] == prop_id]
        self.audit = None

    # ---- proofs
    def proofs(self):
        self.audit = LeanSide.audit(self.prop, leanchecker=(self.tier == "thorough"))
        self.cov.update({k: self.audit[k] for k in ("obligations", "discharged", "checker_cmd")})
        self.cov["trusted_base"] = list(TRUSTED_BASE)
        self.cov["axioms_per_theorem"] = self.audit["axioms"]
        if "leanchecker" in self.audit:
            self.cov["leanchecker"] = self.audit["leanchecker"]
        return not self.audit["failures"]

    # ---- verdicts
    def known(self, finding_id, what):
        if finding_id not in self.known_hits:
            print(f"KNOWN-FINDING: property={self.prop} {finding_id}: {what}")
        self.known_hits[finding_id] = self.known_hits.get(finding_id, 0) + 1

    def finding_ids(self, status="open"):
        return [f["id"] for f in self.findings if f.get("status", "open") == status]

    def violation(self, replay, no_input=False):
        replay = dict(replay)
        replay.update({"property": self.prop, "seed": self.seed, "tier": self.tier,
                       "no_failing_input_found": bool(no_input),
                       "replay_cmd": "./check --replay <this file>"})
        blob = json.dumps(replay, sort_keys=True, default=str)
        h = hashlib.sha256(blob.encode()).hexdigest()[:12]
        d = os.path.join(VERIF, "replays", self.prop)
        os.makedirs(d, exist_ok=True)
        path = os.path.join(d, f"{h}.json")
        with open(path, "w") as f:
            json.dump(replay, f, indent=1, sort_keys=True, default=str)
        rel = os.path.relpath(path, VERIF)
        print(f"VIOLATION property={self.prop} replay={rel}" + (" no-failing-input-found" if no_input else ""))
        self.violations.append((rel, no_input))

    def finish(self):
        ev = {
            "property_id": self.prop, "tier": self.tier, "seed": self.seed, "level": self.level,
            "coverage": self.cov, "assumptions": self.assumptions,
            "wall_s": round(time.time() - self.t0, 2), "violations": len(self.violations),
            "known_findings_hit": self.known_hits,
        }
        os.makedirs(os.path.join(VERIF, "evidence"), exist_ok=True)
        with open(os.path.join(VERIF, "evidence", f"{self.prop}.json"), "w") as f:
            json.dump(ev, f, indent=1, default=str)
        print(f"[{self.prop}] tier={self.tier} seed={self.seed} evaluations={self.cov.get('evaluations')} "
              f"obligations={self.cov.get('obligations')}/{self.cov.get('discharged')} "
              f"violations={len(self.violations)} known={sum(self.known_hits.values())} wall={ev['wall_s']}s")
        return 1 if self.violations else 0


def shrink_list(items, fails):
    """Greedy delta-debugging on a list: remove elements while `fails(list)` stays true."""
    items = list(items)
    changed = True
    while changed:
        changed = False
        for i in range(len(items)):
            cand = items[:i] + items[i + 1:]
            if fails(cand):
                items = cand
                changed = True
                break
    return items
